"""R - reference codec for the dict-document protocols (JSON, YAML, MessagePack,
MessagePackRpc), written from the documented conventions: method name as the
single key, objects as maps or positional lists, numbers as numbers,
dates/decimals/uuids as strings, bytes as base64 text or msgpack bin, integers
beyond 64 bits as decimal strings in msgpack. Wire parsing is done by stdlib
json / yaml.safe_load / msgpack.unpackb.
"""
import base64
import datetime
import decimal
import json
import uuid

from vflib import gen, lex
from vflib.refval import NIL, Raw

D = decimal.Decimal


class NotConformant(Exception):
    pass


class Conf(object):
    def __init__(self, fmt, ignore_wrappers=True, complex_as='dict', key_bytes=False, positional_args=False):
        self.fmt = fmt                    # json | yaml | msgpack | msgpackrpc
        self.ignore_wrappers = ignore_wrappers
        self.complex_as = complex_as      # 'dict' | 'list'
        self.key_bytes = key_bytes        # msgpack: keys as bin instead of str
        self.positional_args = positional_args

    def key(self, k):
        return k.encode('utf8') if self.key_bytes else k

    def name(self):
        return '%s%s%s%s' % (self.fmt, '' if self.ignore_wrappers else '+wrappers', '' if self.complex_as == 'dict' else '+aslist',
                             '+bkeys' if self.key_bytes else '')


# ---------------------------------------------------------------- leaves

def leaf_out(conf, t, v):
    """native value -> wire value"""
    if isinstance(v, Raw):
        return v.text
    if 'enum' in t:
        return v
    kind = t['prim']
    xs = gen.PRIMS[kind]
    if xs in lex.INT_BOUNDS:
        if conf.fmt.startswith('msgpack') and not (-2 ** 63 <= v < 2 ** 64):
            return str(v)
        return v
    if kind == 'Decimal':
        return format(v, 'f')
    if kind == 'Double':
        return v
    if kind == 'Boolean':
        return v
    if kind in ('Unicode', 'AnyUri'):
        return v
    if kind == 'ByteArray':
        b = lex.tobytes(v)
        if conf.fmt.startswith('msgpack'):
            return b
        return base64.b64encode(b).decode('ascii')
    if kind == 'Uuid':
        return str(v)
    return lex.print_xs(xs, v)


def leaf_in(conf, t, w):
    """wire value -> native value (raises ValueError if not a value of the slot)"""
    if 'enum' in t:
        if isinstance(w, bytes):
            w = w.decode('utf8')
        return w
    kind = t['prim']
    xs = gen.PRIMS[kind]
    if isinstance(w, bytes) and kind != 'ByteArray':
        w = w.decode('utf8')
    if xs in lex.INT_BOUNDS:
        if isinstance(w, bool):
            raise ValueError('boolean for integer')
        if isinstance(w, int):
            return w
        if isinstance(w, str):
            return lex.parse('integer', w)
        raise ValueError('%r for integer' % (w,))
    if kind == 'Decimal':
        if isinstance(w, bool):
            raise ValueError('boolean for decimal')
        if isinstance(w, (int, float)):
            return D(repr(w)) if isinstance(w, float) else D(w)
        return D(w)
    if kind == 'Double':
        if isinstance(w, bool) or not isinstance(w, (int, float)):
            if isinstance(w, str):
                return lex.parse('double', w)
            raise ValueError('%r for double' % (w,))
        return float(w)
    if kind == 'Boolean':
        if not isinstance(w, bool):
            raise ValueError('%r for boolean' % (w,))
        return w
    if kind in ('Unicode', 'AnyUri'):
        if not isinstance(w, str):
            raise ValueError('%r for text' % (w,))
        return w
    if kind == 'ByteArray':
        if isinstance(w, bytes):
            return w
        if isinstance(w, (list, tuple)):
            return b''.join(base64.b64decode(x) if isinstance(x, str) else x for x in w)
        return base64.b64decode(w)
    if kind == 'Uuid':
        return uuid.UUID(w)
    v = lex.parse(xs, w)
    if v is lex.NotRepresentable:
        raise ValueError('not representable: %r' % w)
    return v


# ---------------------------------------------------------------- structures

class Codec(object):
    def __init__(self, ir, conf, strict=True):
        self.ir = ir
        self.conf = conf
        self.strict = strict

    def enc(self, t, v):
        """value tree -> wire structure for one member value (v not None)"""
        c = self.conf
        if v is NIL:
            return None
        if 'attr' in t:
            return self.enc(t['attr'], v)
        if 'xmldata' in t:
            return self.enc(t['xmldata'], v)
        if 'prim' in t or 'enum' in t:
            return leaf_out(c, t, v)
        if 'array' in t:
            return [self.enc(t['array'], x) if x is not None else None for x in v]
        if 'seq' in t:
            if v is NIL:
                return None
            return [self.enc(t['seq'], x) if x is not None else None for x in v]
        if 'ref' in t:
            cname = v.get('__class__', t['ref']) if isinstance(v, dict) else t['ref']
            # YAML can say "the same object again" (anchor and alias; safe_dump writes them for an object that occurs twice, and the
            # loader hands the protocol the same mapping twice): an object that occurs twice in the value is encoded once
            memo = getattr(self, '_yaml_memo', None)
            if c.fmt == 'yaml' and memo is not None and isinstance(v, dict) and (id(v), cname) in memo:
                return memo[(id(v), cname)]
            out = self._enc_ref(t, v, cname)
            if c.fmt == 'yaml' and memo is not None and isinstance(v, dict):
                memo[(id(v), cname)] = out
            return out
        raise KeyError(t)

    def _enc_ref(self, t, v, cname):
        c = self.conf
        if True:
            fields = gen.all_fields(self.ir, cname)
            if c.complex_as == 'list':
                body = [self.enc_member(ft, v.get(fn)) for fn, ft in fields]
            else:
                body = {}
                for fn, ft in fields:
                    x = v.get(fn)
                    if x is None:
                        if ft.get('min_occurs', 0) >= 1 and self.strict:
                            body[c.key(fn)] = None      # mandatory but nillable: an explicit null
                        continue
                    body[c.key(fn)] = self.enc_member(ft, x)
            if not c.ignore_wrappers:
                return {c.key(cname): body}
            return body

    def enc_member(self, t, x):
        if x is None or x is NIL:
            return None
        return self.enc(t, x)

    def request(self, md, args):
        c = self.conf
        self._yaml_memo = {}
        name = md.get('in_message_name') or md['name']
        if md['style'] == 'bare':
            (an, at), = md['args']
            body = self.enc(at, args[0]) if args[0] is not None else None
            if not c.ignore_wrappers and 'ref' in at and isinstance(body, dict):
                # the bare message element IS the object: its wrapper key is the method name
                body = list(body.values())[0]
            params = body
        elif c.positional_args or (c.complex_as == 'list' and c.fmt != 'msgpackrpc'):
            params = [self.enc_member(t, v) for (a, t), v in zip(md['args'], args)]
        else:
            params = {}
            for (a, t), v in zip(md['args'], args):
                if v is None:
                    if t.get('min_occurs', 0) >= 1 and self.strict:
                        params[c.key(a)] = None
                    continue
                params[c.key(a)] = self.enc_member(t, v)
        if c.fmt == 'msgpackrpc':
            if not c.ignore_wrappers and md['style'] != 'bare':
                params = {c.key(name): params}      # the parameter document is the wrapped input message
            return [0, 1, name, params]
        return {c.key(name): params}

    def dumps(self, doc):
        f = self.conf.fmt
        if f == 'jsonrpc':
            # JsonRpc('spyne'): the JSON document inside a versioned envelope
            return json.dumps({'ver': 1, 'body': doc}, ensure_ascii=False).encode('utf8')
        if f == 'json':
            return json.dumps(doc, ensure_ascii=False).encode('utf8')
        if f == 'yaml':
            import yaml
            return yaml.safe_dump(doc, allow_unicode=False, default_flow_style=None).encode('utf8')
        import msgpack
        return msgpack.packb(doc, use_bin_type=True)

    def loads(self, data):
        f = self.conf.fmt
        if f == 'jsonrpc':
            d = json.loads(data.decode('utf8'), parse_float=_keep_float)
            if not isinstance(d, dict) or d.get('ver') != 1 or not ('body' in d or 'fault' in d):
                raise ValueError('not a JsonRpc envelope: %r' % (d if not isinstance(d, dict) else sorted(d)))
            return d['fault'] if 'fault' in d else d['body']
        if f == 'json':
            return json.loads(data.decode('utf8'), parse_float=_keep_float)
        if f == 'yaml':
            import yaml
            return yaml.safe_load(data.decode('utf8'))
        import msgpack
        return msgpack.unpackb(data, raw=False, strict_map_key=False)

    # ---- decoding
    def dec(self, t, w):
        c = self.conf
        if w is None:
            return None
        if 'attr' in t:
            return self.dec(t['attr'], w)
        if 'xmldata' in t:
            return self.dec(t['xmldata'], w)
        if 'prim' in t or 'enum' in t:
            return leaf_in(c, t, w)
        if 'array' in t:
            if not isinstance(w, (list, tuple)):
                raise ValueError('expected a list for an array, got %r' % type(w).__name__)
            return [self.dec(t['array'], x) for x in w]
        if 'seq' in t:
            if not isinstance(w, (list, tuple)):
                raise ValueError('expected a list for a repeated member, got %r' % type(w).__name__)
            return [self.dec(t['seq'], x) for x in w] or None
        if 'ref' in t:
            cname = t['ref']
            if not c.ignore_wrappers and not (c.complex_as == 'list' and isinstance(w, (list, tuple))):
                if not isinstance(w, dict) or len(w) != 1:
                    raise ValueError('expected a single-key wrapper map, got %r' % (w if not isinstance(w, dict) else list(w)))
                (k, w), = w.items()
                k = k.decode('utf8') if isinstance(k, bytes) else k
                cname = k
                if not any(x['name'] == cname for x in self.ir['types']):
                    raise ValueError('wrapper key %r names no known class' % cname)
            fields = gen.all_fields(self.ir, cname)
            out = {'__class__': cname}
            if isinstance(w, (list, tuple)):
                if len(w) != len(fields):
                    raise ValueError('positional object with %d items for %d fields' % (len(w), len(fields)))
                for (fn, ft), x in zip(fields, w):
                    out[fn] = self.dec(ft, x)
                return out
            if not isinstance(w, dict):
                raise ValueError('expected a map for an object, got %r' % type(w).__name__)
            fm = dict(fields)
            for k, x in w.items():
                k = k.decode('utf8') if isinstance(k, bytes) else k
                if k not in fm:
                    raise ValueError('undeclared member %r' % k)
                out[k] = self.dec(fm[k], x)
            return out
        raise KeyError(t)

    def response(self, md, doc):
        """parsed response document -> list of return value trees"""
        c = self.conf
        rets = md['returns']
        if c.fmt == 'msgpackrpc':
            if not isinstance(doc, (list, tuple)) or len(doc) != 4 or doc[0] != 1:
                raise ValueError('not a msgpack-rpc response: %r' % (doc,))
            doc = doc[3]
            if c.ignore_wrappers or md['style'] in ('bare', 'out_bare', 'empty_out_bare'):
                return self._unwrap_rpc(md, doc)
        if not rets:
            return []
        if c.fmt == 'jsonrpc' and md['style'] not in ('bare', 'out_bare', 'empty_out_bare'):
            # the body of the envelope is the response message object itself
            return self._multi(md, doc)
        if md['style'] in ('bare', 'out_bare', 'empty_out_bare'):
            if not c.ignore_wrappers and 'ref' in rets[0] and isinstance(doc, dict) and len(doc) == 1:
                # bare object under its message name
                (k, inner), = doc.items()
                return [self.dec(dict(rets[0]), {rets[0]['ref']: inner}) if True else None]
            return [self.dec(rets[0], doc)]
        if c.ignore_wrappers:
            if len(rets) == 1:
                return [self.dec(rets[0], doc)]
            return self._multi(md, doc)
        if c.complex_as == 'list' and isinstance(doc, (list, tuple)):
            # the response wrapper object itself is a positional list of the return values
            return self._multi(md, doc)
        # wrappers kept: {mResponse: {mResult: v}}
        if not isinstance(doc, dict) or len(doc) != 1:
            raise ValueError('expected {response-name: {...}}, got %r' % (doc if not isinstance(doc, dict) else list(doc)))
        (k, inner), = doc.items()
        return self._multi(md, inner)

    def _unwrap_rpc(self, md, doc):
        rets = md['returns']
        if not rets:
            return []
        if md['style'] in ('bare', 'out_bare', 'empty_out_bare'):
            return [self.dec(rets[0], doc)]
        return self._multi(md, doc)

    def _multi(self, md, doc):
        rets = md['returns']
        names = md.get('out_variable_names') or (['%sResult' % md['name']] if len(rets) == 1 else
                                                 ['%sResult%d' % (md['name'], i) for i in range(len(rets))])
        if isinstance(doc, (list, tuple)):
            if len(doc) != len(rets):
                raise ValueError('positional response with %d items for %d return values' % (len(doc), len(rets)))
            return [self.dec(t, x) for t, x in zip(rets, doc)]
        if doc is None:
            return [None for _ in rets]
        if not isinstance(doc, dict):
            raise ValueError('expected a map of return values, got %r' % type(doc).__name__)
        d = {(k.decode('utf8') if isinstance(k, bytes) else k): x for k, x in doc.items()}
        extra = set(d) - set(names)
        if extra:
            raise ValueError('undeclared return members %r' % sorted(extra))
        return [self.dec(t, d.get(n)) for t, n in zip(rets, names)]


class _keep_float(float):
    """float that remembers its JSON literal (so that decimals sent as numbers are not rounded by the harness)"""

    def __new__(cls, s):
        o = float.__new__(cls, s)
        o.literal = s
        return o


def fault_of(conf, doc):
    if conf.fmt == 'msgpackrpc':
        if isinstance(doc, (list, tuple)) and len(doc) == 3 and doc[0] == 3 and isinstance(doc[2], dict):
            doc = doc[2]
        else:
            return None
    if isinstance(doc, dict):
        d = {(k.decode('utf8') if isinstance(k, bytes) else k): v for k, v in doc.items()}
        if len(d) == 1 and isinstance(list(d.values())[0], dict):
            inner = {(k.decode('utf8') if isinstance(k, bytes) else k): v for k, v in list(d.values())[0].items()}
            if 'faultcode' in inner:
                d = inner
        if 'faultcode' in d:
            return d.get('faultcode'), d.get('faultstring'), d.get('detail')
    return None
