"""G - program and value generator.

A JSON-serialisable IR of type universes and service signatures, a builder that
turns it into real spyne classes/applications (public metaclasses only), an
IR-directed, boundary-biased value generator, conversions between neutral value
trees and spyne-native objects, and the per-type equality of DESIGN.md A.1.

tspec forms:
  {'prim': kind, 'facets': {...}}            kind in PRIMS
  {'enum': [names], 'name': 'E1'}
  {'ref': 'T3'}                              complex type by IR name
  {'array': tspec}                           wrapped Array(T)
  {'seq': tspec, 'max': n | 'unbounded'}     unwrapped T(max_occurs=n)
  {'attr': tspec} / {'xmldata': tspec}       XmlAttribute / XmlData (complex fields only)
  optional keys on any of them: 'min_occurs' (0|1), 'nillable' (bool)
"""
import re
import datetime
import decimal
import uuid

from vflib import lex

D = decimal.Decimal

PRIMS = {
    'Integer': 'integer', 'UnsignedInteger': 'nonNegativeInteger',
    'Integer8': 'byte', 'Integer16': 'short', 'Integer32': 'int', 'Integer64': 'long',
    'UnsignedInteger8': 'unsignedByte', 'UnsignedInteger16': 'unsignedShort',
    'UnsignedInteger32': 'unsignedInt', 'UnsignedInteger64': 'unsignedLong',
    'Decimal': 'decimal', 'Double': 'double', 'Boolean': 'boolean', 'Unicode': 'string', 'AnyUri': 'anyURI',
    'DateTime': 'dateTime', 'Date': 'date', 'Time': 'time', 'Duration': 'duration', 'Uuid': 'uuid',
    'ByteArray': 'base64Binary',
}
INT_KINDS = [k for k, v in PRIMS.items() if v in lex.INT_BOUNDS]
PATTERNS = ['[a-c]+', 'x[0-9]{2,4}', '(ab|cd)*e?', '[A-Z][a-z]{0,5}', 'a|ab|abc', 'no|none|[0-9]|[0-9]{3}']
# (the last two: alternatives one of which is a prefix of another - a leftmost-alternative matcher must still try the others)


def eqkind(kind):
    xs = PRIMS[kind]
    if xs in lex.INT_BOUNDS:
        return 'integer'
    if xs == 'anyURI':
        return 'string'
    if xs == 'base64Binary':
        return 'bytes'
    return xs


# ----------------------------------------------------------------- random universes

class Opts(object):
    def __init__(self, **kw):
        self.max_types = 5
        self.max_depth = 3
        self.max_fields = 5
        self.namespaces = 2
        self.attrs = True          # XmlAttribute / XmlData
        self.inheritance = True
        self.headers = False
        self.styles = ('wrapped', 'wrapped', 'bare', 'out_bare')
        self.multi_return = True
        self.facets = True
        self.prims = list(PRIMS)
        self.enums = True
        self.seqs = True
        self.arrays = True
        self.methods = (2, 5)
        self.services = (1, 2)
        self.text_alphabet = 'xml'
        self.memberless_subclasses = True
        self.__dict__.update(kw)


def rand_prim(rng, o, allow_occ=True):
    kind = rng.choice(o.prims)
    f = {}
    if o.facets and rng.random() < .4:
        xs = PRIMS[kind]
        if xs in lex.INT_BOUNDS:
            lo, hi = lex.INT_BOUNDS[xs]
            a = rng.randint(max(-50, lo if lo is not None else -50), min(50, hi if hi is not None else 50))
            if rng.random() < .5:
                f[rng.choice(('ge', 'gt'))] = a
            if rng.random() < .5:
                f[rng.choice(('le', 'lt'))] = a + rng.randint(2, 40)
        elif kind == 'Decimal':
            if getattr(o, 'digits', False) and rng.random() < .4:
                # Decimal(total_digits, fraction_digits): xs:totalDigits / xs:fractionDigits
                f['total_digits'] = rng.randint(1, 9)
                f['fraction_digits'] = rng.choice((0, f['total_digits'] // 2, f['total_digits']))
            else:
                if rng.random() < .5:
                    f['ge'] = str(D(rng.randint(-100, 100)) / 4)
                if rng.random() < .5:
                    f['le'] = str(D(rng.randint(100, 400)) / 4)
        elif kind == 'Double':
            # a range that is open on one side, or closed on both (the special values INF / -INF / NaN are values of xs:double)
            r = rng.random()
            if r < .7:
                f[rng.choice(('ge', 'gt'))] = str(float(rng.randint(-20, 5)))
            if r > .3:
                f[rng.choice(('le', 'lt'))] = str(float(rng.randint(6, 40)))
        elif kind == 'Unicode':
            r = rng.random()
            if r < .4:
                f['max_len'] = rng.randint(1, 12)
                if rng.random() < .5:
                    f['min_len'] = rng.randint(0, f['max_len'])
            elif r < .7:
                f['pattern'] = rng.choice(PATTERNS)
            else:
                f['values'] = rng.sample(['a', 'bb', 'c c', 'Δ', '0', 'None'], rng.randint(1, 4))
    if getattr(o, 'defaults', False) and kind in ('Integer', 'Unicode', 'Boolean') and 'values' not in f and 'pattern' not in f and rng.random() < .2:
        # a declared default (kept out of the fidelity universes: it legitimately turns absent into a value)
        d_ = {'Integer': 5, 'Unicode': 'dfl', 'Boolean': True}[kind]
        if kind == 'Integer':
            d_ = max(d_, f.get('ge', d_), f.get('gt', d_ - 1) + 1)
            d_ = min(d_, f.get('le', d_), f.get('lt', d_ + 1) - 1)
        if kind == 'Unicode':
            d_ = d_[:f.get('max_len', 3)].ljust(f.get('min_len', 0), 'x')
        f['default'] = d_
    t = {'prim': kind, 'facets': f}
    if allow_occ:
        occ(rng, t)
    return t


def occ(rng, t):
    if rng.random() < .25:
        t['min_occurs'] = 1
    if rng.random() < .25:
        t['nillable'] = False
    return t


def rand_tspec(rng, o, types, depth, complex_ok=True):
    r = rng.random()
    avail = [t['name'] for t in types]
    if o.enums and r < .06:
        names = rng.sample(['A', 'B', 'Cc', 'D_d', 'E1'], rng.randint(1, 4))
        return occ(rng, {'enum': names, 'name': 'E%d' % rng.randint(0, 10 ** 6)})
    if complex_ok and avail and r < .3:
        return occ(rng, {'ref': rng.choice(avail)})
    if o.arrays and r < .45 and depth > 0:
        inner = rand_tspec(rng, o, types, depth - 1, complex_ok)
        if 'seq' in inner:
            inner = inner['seq']
        if 'array' in inner and rng.random() > getattr(o, 'nested_arrays', 1.0):
            inner = inner['array']
        # the member's own occurrence attributes would constrain the item count: keep arrays 0..n
        inner = _strip_occ(inner)
        if getattr(o, 'array_item_occ', False) and rng.random() < .35:
            # ... unless asked for: the occurrence attributes of the item type of an Array say how many items it holds
            inner['min_occurs'] = rng.choice((0, 1, 2))
            # (at least 2: Array() reads a max_occurs of 1 on its item type as "not set")
            inner['max_occurs'] = rng.choice((max(inner['min_occurs'], 2), inner['min_occurs'] + 2, 3, 5))
        return occ(rng, {'array': inner})
    if o.seqs and r < .58 and depth > 0:
        inner = rand_tspec(rng, o, types, 0, complex_ok)
        for k in ('min_occurs', 'nillable'):
            inner.pop(k, None)
        if 'array' in inner or 'seq' in inner:
            inner = rand_prim(rng, o, allow_occ=False)
        t_ = {'seq': inner, 'max': rng.choice((2, 3, 5, 'unbounded'))}
        if getattr(o, 'seq_min', False) and rng.random() < .4:
            # a repeated member that has to occur at least once, twice or three times
            t_['min_occurs'] = rng.randint(1, 3 if t_['max'] == 'unbounded' else min(3, t_['max']))
        return t_
    return rand_prim(rng, o)


def rand_universe(rng, o=None, uid=0):
    o = o or Opts()
    nss = ['urn:vf:u%d' % uid] + ['urn:vf:u%d:n%d' % (uid, i) for i in range(1, o.namespaces)]
    types = []
    for i in range(rng.randint(1, o.max_types)):
        name = 'T%d' % i
        base = None
        bases = [t['name'] for t in types if not t.get('has_xmldata')]
        if o.inheritance and bases and rng.random() < .3:
            base = rng.choice(bases)
        fields = []
        has_xmldata = False
        nf = rng.randint(1, o.max_fields)
        if o.attrs and base is None and rng.random() < .12:
            # simpleContent type: attributes + one XmlData member
            has_xmldata = True
            for j in range(rng.randint(0, 2)):
                fields.append(['a%d' % j, {'attr': rand_prim(rng, o, allow_occ=False)}])
            fields.append(['data', {'xmldata': rand_prim(rng, o, allow_occ=False)}])
            if getattr(o, 'xmldata_required', True) and rng.random() < .3:
                fields[-1][1]['xmldata']['min_occurs'] = 1      # the text content is mandatory
        else:
            for j in range(nf):
                fn = 'f%d_%d' % (i, j)
                if o.attrs and rng.random() < .12:
                    at_ = rand_prim(rng, o, allow_occ=False)
                    if rng.random() < .3:
                        at_['min_occurs'] = 1          # a required attribute
                        (at_.get('facets') or {}).pop('default', None)     # (required AND defaulted is a contradiction XSD refuses)
                    if getattr(o, 'id_href_attrs', False) and rng.random() < .5:
                        # attribute names that SOAP 1.1 section 5 encoding gives a meaning to
                        fn2 = rng.choice(('id', 'href'))
                        if fn2 not in [f[0] for f in fields] and at_['prim'] in ('Unicode', 'AnyUri', 'Integer'):
                            fn = fn2
                    fields.append([fn, {'attr': at_}])
                else:
                    fields.append([fn, rand_tspec(rng, o, [t for t in types if True], o.max_depth - 1)])
                    if getattr(o, 'sub_names', False) and rng.random() < .3:
                        # the public name (the one in every document and in the IR) differs from the name of the Python attribute
                        fields[-1][1]['py'] = 'py_' + fn
        if getattr(o, 'choice_groups', False) and not has_xmldata and rng.random() < .5:
            # members that form an xs:choice: at most one of them carries a value
            cands = [f for f in fields if 'attr' not in f[1] and 'xmldata' not in f[1]]
            if len(cands) >= 2:
                # (declared next to each other: the group has one place in the element sequence)
                n_ = rng.randint(2, min(3, len(cands)))
                st_ = rng.randint(0, len(cands) - n_)
                for f in cands[st_:st_ + n_]:
                    f[1]['choice'] = 'g%d' % i
                    f[1].pop('min_occurs', None) if f[1].get('min_occurs') else None
                    for inner in (f[1], f[1].get('array') or {}, f[1].get('seq') or {}):
                        (inner.get('facets') or {}).pop('default', None)     # a default would make an unset choice member appear
        if getattr(o, 'self_refs', False) and not has_xmldata and rng.random() < .3:
            # a class that contains itself (a linked list / a tree): an optional member, or an array, of its own type
            fields.append(['next%d' % i, {'ref': name}] if rng.random() < .6 else ['kids%d' % i, {'array': {'ref': name}}])
        if getattr(o, 'memberless_subclasses', False) and base is not None and rng.random() < .4:
            fields = []          # a subclass that only inherits
        ns = nss[0] if base is None else next(t['ns'] for t in types if t['name'] == base)
        if base is None and rng.random() < .5:
            ns = rng.choice(nss)
        if base is not None and getattr(o, 'cross_ns_inheritance', False) and rng.random() < .4:
            ns = rng.choice(nss)          # a class that extends a class of another namespace: inherited members stay in the namespace that declares them
        types.append({'name': name, 'ns': ns, 'base': base, 'fields': fields, 'has_xmldata': has_xmldata})
    services = []
    mno = 0
    for s in range(rng.randint(*o.services)):
        methods = []
        for m in range(rng.randint(*o.methods)):
            style = rng.choice(o.styles)
            mname = 'm%d' % mno
            mno += 1
            if style == 'bare':
                cands = [t['name'] for t in types if not t.get('has_xmldata') and t['fields']]
                if getattr(o, 'bare_prims', False) and rng.random() < .35:
                    # the one argument of a bare method need not be an object: a primitive, an enumeration or an array of them
                    at_ = _strip_occ(rand_tspec(rng, o, [], 1))
                    args = [['arg', at_['seq'] if 'seq' in at_ else at_]]
                elif not cands:
                    style = 'wrapped'
                else:
                    args = [['arg', {'ref': rng.choice(cands)}]]
            if style == 'empty':
                args = []            # _body_style='bare' without arguments (and return values) is spyne's "empty" body style
            elif style != 'bare':
                args = [['p%d' % k, rand_tspec(rng, o, types, o.max_depth)] for k in range(rng.randint(0, 4))]
            nret = rng.choice((0, 1, 1, 1, 2, 3)) if (o.multi_return and style == 'wrapped') else rng.choice((1, 1, 1, 0) if style == 'wrapped' else (1,))
            rets = [rand_tspec(rng, o, types, o.max_depth) for _ in range(nret)] if style != 'empty' else []
            if style == 'empty' and rng.random() < .5:
                # no arguments but a (bare) complex return value; preferably of a class all of whose members are inherited
                cands = [t['name'] for t in types if not t.get('has_xmldata')]
                bare_sub = [t['name'] for t in types if t.get('base') and not t['fields']]
                if cands:
                    style = 'empty_out_bare'
                    rets = [{'ref': rng.choice(bare_sub or cands)}]
            if style in ('bare', 'out_bare'):
                # a bare response element is the return type itself
                rets = [_strip_occ(rets[0])] if rets else []
                if rets and ('seq' in rets[0]):
                    rets = [rets[0]['seq']]
            md = {'name': mname, 'args': args, 'returns': rets, 'style': style}
            if o.headers:
                hc = [t['name'] for t in types if not t.get('has_xmldata')]
                if hc and rng.random() < .4:
                    md['in_header'] = rng.choice(hc)
                if hc and rng.random() < .3:
                    md['out_header'] = rng.choice(hc)
                # several headers on one message (a list of class names instead of one name)
                if getattr(o, 'multi_headers', False) and len(hc) >= 2:
                    for k in ('in_header', 'out_header'):
                        if md.get(k) and rng.random() < .4:
                            md[k] = rng.sample(hc, 2)
                if rng.random() < .3:
                    md['throws'] = rng.sample(['F0', 'F1'], rng.randint(1, 2))
            if getattr(o, 'custom_names', False) and style == 'wrapped':
                r_ = rng.random()
                if r_ < .3:
                    md['operation_name'] = 'op_%s' % mname
                elif r_ < .5:
                    md['in_message_name'] = 'im_%s' % mname       # (mutually exclusive with _operation_name)
                if rng.random() < .3 and len(rets) > 1:
                    md['out_variable_names'] = ['o%d_%s' % (i, mname) for i in range(len(rets))]
            methods.append(md)
        sd_ = {'name': 'Svc%d' % s, 'methods': methods}
        if getattr(o, 'port_types', False) and len(methods) >= 2 and rng.random() < .5:
            # a service with several port types: every method names the one it belongs to
            sd_['port_types'] = ['Pt%d_%d' % (s, k) for k in range(rng.randint(2, 3))]
            for md_ in methods:
                md_['port_type'] = rng.choice(sd_['port_types'])
        services.append(sd_)
    ir = {'uid': uid, 'tns': nss[0], 'types': types, 'services': services}
    if o.headers:
        ir['faults'] = [{'name': 'F0', 'ns': nss[0]}, {'name': 'F1', 'ns': nss[-1]}]
    if getattr(o, 'null_items', False):
        ir['null_items'] = True          # value generation: arrays may hold null items (the item elements are nillable)
    return ir


def _strip_occ(t):
    t = dict(t)
    t.pop('min_occurs', None)
    t.pop('nillable', None)
    return t


# ----------------------------------------------------------------- builder

class Built(object):
    """Real spyne classes for an IR. The user functions report to `calls` and
    return `returns[method]` (or raise `raises[method]`)."""

    def __init__(self, ir):
        self.ir = ir
        self.classes = {}
        self.enums = {}
        self.calls = []
        self.returns = {}
        self.raises = {}
        self.out_headers = {}      # method name -> native out header value(s) the function puts on ctx.out_header
        self.services = []
        self.methods = {}
        self.typedefs = {t['name']: t for t in ir['types']}
        self._build()

    # -- type construction
    def spyne_type(self, t, field=False, sub_name=None):
        from spyne.model import primitive as P
        from spyne.model.binary import ByteArray
        from spyne.model.complex import Array, XmlAttribute, XmlData
        from spyne.model.enum import Enum
        kw = {}
        if sub_name is not None:
            kw['sub_name'] = sub_name
        if 'min_occurs' in t:
            kw['min_occurs'] = t['min_occurs']
        if 'nillable' in t:
            kw['nillable'] = t['nillable']
        if 'max_occurs' in t:
            kw['max_occurs'] = t['max_occurs']          # (only on the item type of an array)
        if 'choice' in t:
            kw['xml_choice_group'] = t['choice']
        if 'prim' in t:
            kind = t['prim']
            cls = ByteArray if kind == 'ByteArray' else getattr(P, kind)
            f = dict(t.get('facets') or {})
            if kind == 'Decimal':
                f = {k: (v if k in ('total_digits', 'fraction_digits') else D(v)) for k, v in f.items()}
            elif kind in ('DateTime', 'Date', 'Time', 'Double'):
                f = {k: facet_native(kind, v) if k in ('ge', 'gt', 'le', 'lt') else v for k, v in f.items()}
            f.update(kw)
            return cls(**f) if f else cls
        if 'enum' in t:
            e = self.enums.get(t['name'])
            if e is None:
                e = self.enums[t['name']] = Enum(*t['enum'], type_name=t['name'])
            return e.customize(**kw) if kw else e
        if 'ref' in t:
            if t['ref'] not in self.classes:
                # the class that is being declared: a member of its own type
                from spyne.model.complex import SelfReference
                return SelfReference.customize(**kw) if kw else SelfReference
            c = self.classes[t['ref']]
            if t.get('novalidate_freq'):
                kw['validate_freq'] = False          # what novalidate_freq() sets: the occurrence counts of this object's members are not checked
            return c.customize(**kw) if kw else c
        if 'array' in t:
            return Array(self.spyne_type(t['array']), **kw)
        if 'seq' in t:
            inner = self.spyne_type(t['seq'])
            mx = t['max']
            return inner.customize(max_occurs=decimal.Decimal('inf') if mx == 'unbounded' else mx, **kw)
        if 'attr' in t:
            return XmlAttribute(self.spyne_type(t['attr']))
        if 'xmldata' in t:
            return XmlData(self.spyne_type(t['xmldata']))
        raise KeyError(t)

    def _build(self):
        from spyne.model.complex import ComplexModel, ComplexModelMeta
        from spyne import Service, rpc, Application
        ir = self.ir
        uid = ir['uid']
        for td in ir['types']:
            if td['name'] in self.classes:
                continue                    # grow(): declared at an earlier stage
            base = self.classes[td['base']] if td['base'] else ComplexModel
            d = {'__namespace__': td['ns'], '__type_name__': td['name']}
            d['_type_info'] = [(ft.get('py', fn), self.spyne_type(ft, field=True, sub_name=fn if 'py' in ft else None))
                               for fn, ft in td['fields']]
            self.classes[td['name']] = ComplexModelMeta(str('%su%d' % (td['name'], uid)), (base,), d)
        from spyne.model.fault import Fault
        self.faults = {}
        for fd in ir.get('faults', []):
            self.faults[fd['name']] = type(str(fd['name']), (Fault,), {'__namespace__': fd['ns'], '__type_name__': fd['name']})
        for sd in ir['services']:
            d = {}
            for md in sd['methods']:
                d[md['name']] = self._make_method(md)
                self.methods[md['name']] = md
            if sd.get('port_types'):
                d['__port_types__'] = tuple(sd['port_types'])
            self.services.append(type(str('%su%d' % (sd['name'], uid)), (Service,), d))

    def grow(self, ir):
        """declare the types of `ir` that do not exist yet - after the existing classes may already have been used by
        protocols - and rebuild the services (fresh Service classes) for the extended universe"""
        self.ir = ir
        self.typedefs = {t['name']: t for t in ir['types']}
        self.services = []
        self.methods = {}
        self._build()

    def _make_method(self, md):
        from spyne import rpc
        built = self
        name = md['name']

        nargs = len(md['args']) if md['style'] != 'bare' else 1

        def fn(ctx, *args):
            if len(args) != nargs:
                # what a function with a fixed parameter list does
                raise TypeError('%s() takes %d positional arguments but %d were given' % (name, nargs + 1, len(args) + 1))
            built.calls.append((name, args, ctx))
            if name in built.out_headers:
                ctx.out_header = built.out_headers[name]
            if name in built.raises:
                raise built.raises[name]
            return built.returns.get(name)
        fn.__name__ = str(name)
        params = [self.spyne_type(t) for _, t in md['args']]
        kw = {'_args': [a for a, _ in md['args']]}
        rets = md['returns']
        if len(rets) == 1:
            kw['_returns'] = self.spyne_type(rets[0])
        elif len(rets) > 1:
            kw['_returns'] = [self.spyne_type(r) for r in rets]
        if md['style'] != 'wrapped':
            kw['_body_style'] = 'bare' if md['style'] in ('empty', 'empty_out_bare') else md['style']
        for k in ('_operation_name', '_in_message_name', '_out_variable_names'):
            if md.get(k[1:]) is not None:
                kw[k] = md[k[1:]]
        for k in ('_in_header', '_out_header'):
            if md.get(k[1:]) is not None:
                kw[k] = tuple(self.classes[n] for n in header_names(md, k[1:]))      # (the decorator asserts a tuple)
        if md.get('throws'):
            kw['_throws'] = [self.faults[f] for f in md['throws']]
        if md.get('port_type'):
            kw['_port_type'] = md['port_type']
        return rpc(*params, **kw)(fn)

    def app(self, in_protocol, out_protocol, name=None):
        from spyne import Application
        return Application(self.services, self.ir['tns'], name=name or 'App%d' % self.ir['uid'],
                           in_protocol=in_protocol, out_protocol=out_protocol)

    # -- value conversion
    def to_spyne(self, t, v, memo=None):
        """value tree -> native objects; a sub-tree that occurs twice in the value tree (the same dict object, see
        gen_value) becomes one instance referenced twice"""
        if v is None:
            return None
        if memo is None:
            memo = {}
        if 'ref' in t:
            td = self.typedefs[v.get('__class__', t['ref'])] if isinstance(v, dict) else None
            cls = self.classes[td['name']]
            if (id(v), td['name']) in memo:
                return memo[(id(v), td['name'])]
            inst = cls()
            memo[(id(v), td['name'])] = inst
            for fn, ft in self.all_fields(td['name']):
                if fn in v:
                    setattr(inst, ft.get('py', fn), self.to_spyne(ft, v[fn], memo))
            return inst
        if 'array' in t:
            return [self.to_spyne(t['array'], x, memo) for x in v]
        if 'seq' in t:
            return [self.to_spyne(t['seq'], x, memo) for x in v]
        if 'attr' in t:
            return self.to_spyne(t['attr'], v, memo)
        if 'xmldata' in t:
            return self.to_spyne(t['xmldata'], v, memo)
        if 'prim' in t and t['prim'] == 'ByteArray':
            return chunked(v) if isinstance(v, bytes) else list(v)
        return v

    def from_spyne(self, t, o):
        if o is None:
            return None
        if 'ref' in t:
            clsname = None
            for n, c in self.classes.items():
                if type(o) is c or getattr(type(o), '__orig__', None) is c:
                    clsname = n
            if clsname is None:
                # customised variants are subclasses of the original
                for n, c in self.classes.items():
                    if isinstance(o, c):
                        clsname = n if clsname is None or issubclass(c, self.classes[clsname]) else clsname
            if clsname is None:
                return {'__foreign__': repr(type(o))}
            out = {'__class__': clsname}
            for fn, ft in self.all_fields(clsname):
                out[fn] = self.from_spyne(ft, getattr(o, ft.get('py', fn), None))
            return out
        if 'array' in t:
            try:
                return [self.from_spyne(t['array'], x) for x in o]
            except TypeError:
                return {'__foreign__': repr(type(o))}
        if 'seq' in t:
            try:
                if isinstance(o, (str, bytes)):
                    return {'__foreign__': repr(type(o))}
                return [self.from_spyne(t['seq'], x) for x in o]
            except TypeError:
                return {'__foreign__': repr(type(o))}
        if 'attr' in t:
            return self.from_spyne(t['attr'], o)
        if 'xmldata' in t:
            return self.from_spyne(t['xmldata'], o)
        return o

    def all_fields(self, tname):
        td = self.typedefs[tname]
        out = list(self.all_fields(td['base'])) if td['base'] else []
        return out + [(fn, ft) for fn, ft in td['fields']]


def inheritance_ir(uid=9100, ns2=True):
    """fixed universe: a three-level class tree in which every level declares mandatory, optional, bounded-repeat, array and
    faceted members, used as a plain argument, inside an array, inside a holder and (XML) as a bare message"""
    ns = 'urn:vf:inh'
    I = lambda **f: {'prim': 'Integer', 'facets': f}
    U = lambda **f: {'prim': 'Unicode', 'facets': f}

    def level(k, nsx):
        return [['m%d' % k, dict(U(), min_occurs=1, nillable=False)], ['o%d' % k, I(ge=0, le=9)],
                ['r%d' % k, dict({'seq': I(), 'max': 2})], ['a%d' % k, {'array': U(max_len=3)}],
                ['n%d' % k, dict(I(), min_occurs=1)], ['d%d' % k, {'seq': I(default=1), 'max': 3}]]
    types = [{'name': 'L0', 'ns': ns, 'base': None, 'has_xmldata': False,
              'fields': level(0, ns) + [['at0', {'attr': dict(U(), min_occurs=1)}], ['ao0', {'attr': I(ge=0, le=9)}]]},
             {'name': 'L1', 'ns': ns, 'base': 'L0', 'has_xmldata': False, 'fields': level(1, ns)},
             {'name': 'L2', 'ns': ns, 'base': 'L1', 'has_xmldata': False, 'fields': level(2, ns)},
             {'name': 'Hold', 'ns': ns + (':h' if ns2 else ''), 'base': None, 'has_xmldata': False,
              'fields': [['one', dict({'ref': 'L2'}, min_occurs=1)], ['many', {'array': {'ref': 'L1'}}], ['few', {'seq': {'ref': 'L2'}, 'max': 2}]]}]
    M_ = lambda name, args, style='wrapped': {'name': name, 'args': args, 'returns': [], 'style': style}
    return {'uid': uid, 'tns': ns, 'types': types, 'services': [{'name': 'S', 'methods': [
        M_('p1', [['x', {'ref': 'L1'}]]), M_('p2', [['x', {'ref': 'L2'}], ['k', I()]]), M_('arr', [['xs', {'array': {'ref': 'L2'}}]]),
        M_('hold', [['h', {'ref': 'Hold'}]]), M_('bare2', [['arg', {'ref': 'L2'}]], 'bare')]}]}


def facet_native(kind, v):
    """range facets of the date/time kinds are kept as ISO text in the (JSON) IR"""
    import datetime
    if not isinstance(v, str):
        return v
    if kind == 'DateTime':
        return datetime.datetime.fromisoformat(v)
    if kind == 'Date':
        return datetime.date.fromisoformat(v)
    if kind == 'Time':
        return datetime.time.fromisoformat(v)
    if kind == 'Double':
        return float(v)
    return v


def header_names(md, which):
    h = md.get(which)
    return [] if not h else [h] if isinstance(h, str) else list(h)


def chunked(v):
    """the native form of a ByteArray is a sequence of byte chunks; which chunking is used is derived from the value itself
    so that a case replays identically: one chunk, or several chunks whose lengths are not multiples of three, sometimes with
    an empty chunk in the middle"""
    n = len(v)
    if n == 0:
        return []            # no chunks at all is also the empty byte string
    if n < 2 or n % 4 == 0:
        return [v]
    if n % 4 == 1:
        return [v[:n // 2], v[n // 2:]]
    if n % 4 == 2:
        return [v[:1], b'', v[1:]]
    out, i, k = [], 0, 0
    sizes = (1, 2, 4, 5, 7)
    while i < n:
        out.append(v[i:i + sizes[k % 5]])
        i += sizes[k % 5]
        k += 1
    return out


def all_fields(ir, tname):
    tds = {t['name']: t for t in ir['types']}
    td = tds[tname]
    out = all_fields(ir, td['base']) if td['base'] else []
    return out + [(fn, ft) for fn, ft in td['fields']]


# ----------------------------------------------------------------- values

def gen_prim_value(rng, kind, facets, alphabet='xml'):
    xs = PRIMS[kind]
    f = facets or {}
    if xs in lex.INT_BOUNDS:
        lo, hi = lex.INT_BOUNDS[xs]
        if 'ge' in f:
            lo = f['ge'] if lo is None else max(lo, f['ge'])
        if 'gt' in f:
            lo = f['gt'] + 1 if lo is None else max(lo, f['gt'] + 1)
        if 'le' in f:
            hi = f['le'] if hi is None else min(hi, f['le'])
        if 'lt' in f:
            hi = f['lt'] - 1 if hi is None else min(hi, f['lt'] - 1)
        cands = []
        for b in (lo, hi):
            if b is not None:
                cands += [b, b + 1, b - 1]
        cands += [0, 1, -1, 2 ** 31 - 1, 2 ** 31, -2 ** 31, 2 ** 63 - 1, 2 ** 63, -2 ** 63, 2 ** 64, 2 ** 70, -2 ** 70, 10 ** 30]
        # both sides of every width at which a binary wire format changes representation, both signs
        k = rng.choice((5, 7, 8, 15, 16, 31, 32, 53, 63, 64, 65))
        cands += [s * (2 ** k + d) for s in (1, -1) for d in (-1, 0, 1)]
        cands.append(rng.choice((1, -1)) * rng.getrandbits(rng.randint(1, 80)))
        a = lo if lo is not None else -10 ** rng.randint(1, 25)
        b = hi if hi is not None else 10 ** rng.randint(1, 25)
        if a <= b:
            cands += [rng.randint(a, b) for _ in range(4)]
        cands = [c for c in cands if (lo is None or c >= lo) and (hi is None or c <= hi)]
        return rng.choice(cands) if cands else None
    if kind == 'Decimal':
        lo = D(f['ge']) if 'ge' in f else None
        hi = D(f['le']) if 'le' in f else None
        if 'total_digits' in f:
            td, fd = f['total_digits'], f['fraction_digits']
            unit, top = D(1).scaleb(-fd), D(10) ** (td - fd) - D(1).scaleb(-fd)
            cands = [D(0), unit, -unit, top, -top, D(rng.randint(-(10 ** td - 1), 10 ** td - 1)).scaleb(-fd),
                     D(rng.randint(-(10 ** td - 1), 10 ** td - 1)).scaleb(-fd)]
            return rng.choice(cands)
        cands = [D('0'), D('1.5'), D('-0.25'), D('12345678901234567890.0123456789'), D('1E+2'), D('1E-7'), D('2.8E+10'),
                 D(rng.randint(-10 ** 12, 10 ** 12)).scaleb(rng.randint(-8, 3)), D('0.10'), D(10) ** 30]
        if lo is not None:
            cands += [lo, lo + D('0.01')]
        if hi is not None:
            cands += [hi, hi - D('0.01')]
        cands = [c for c in cands if (lo is None or c >= lo) and (hi is None or c <= hi)]
        return rng.choice(cands) if cands else None
    if kind == 'Double':
        cands = [0.0, -0.0, 1.5, -2.25, 1e16, 1e-7, 1e300, 5e-324, 0.1, 1 / 3, float(2 ** 53), 123456.789,
                 rng.uniform(-1e6, 1e6), rng.uniform(-1, 1) * 10 ** rng.randint(-200, 200)]
        rf = {k: float(v) for k, v in f.items() if k in ('ge', 'gt', 'le', 'lt')}
        if rf:
            for b in rf.values():
                cands += [b, b + 0.5, b - 0.5, b + 1e-9, b - 1e-9]
            if 'ge' not in rf and 'gt' not in rf:
                cands += [-1e300, float('-inf')]
            if 'le' not in rf and 'lt' not in rf:
                cands += [1e300, float('inf')]
            cands = [c for c in cands if ('ge' not in rf or c >= rf['ge']) and ('gt' not in rf or c > rf['gt']) and
                     ('le' not in rf or c <= rf['le']) and ('lt' not in rf or c < rf['lt'])]
        return rng.choice(cands) if cands else None
    if kind == 'Boolean':
        return rng.random() < .5
    if kind == 'Unicode':
        if 'values' in f:
            return rng.choice(f['values'])
        if 'pattern' in f:
            return _from_pattern(rng, f['pattern'])
        mn, mx = f.get('min_len', 0), f.get('max_len', 40)
        pool = lex.gen_text(rng, 6, alphabet)
        pool = [s for s in pool if mn <= len(s) <= mx and (alphabet != 'xml' or lex.xml_char_ok(s))]
        if not pool or rng.random() < .3:
            n = rng.randint(mn, mx)
            return ''.join(rng.choice('abcXYZ 09-_éß中\U0001F600<&>"\'') for _ in range(n))
        return rng.choice(pool)
    if kind == 'AnyUri':
        return rng.choice(['http://example.com/', 'urn:a:b', 'https://h:8080/p/a%20b?q=1&r=2#f', 'mailto:x@y.z', '/rel/path'])
    if kind == 'DateTime':
        return rng.choice(lex.gen_datetime_values(rng, 4) or [datetime.datetime(2020, 1, 2, 3, 4, 5)])
    if kind == 'Date':
        return rng.choice(lex.gen_date_values(rng, 3))
    if kind == 'Time':
        return rng.choice(lex.gen_time_values(rng, 3))
    if kind == 'Duration':
        return rng.choice(lex.gen_duration_values(rng, 3))
    if kind == 'Uuid':
        return uuid.UUID(int=rng.getrandbits(128))
    if kind == 'ByteArray':
        return rng.choice(lex.gen_bytes(rng, 3))
    raise KeyError(kind)


def _from_pattern(rng, p):
    if p == '[a-c]+':
        return ''.join(rng.choice('abc') for _ in range(rng.randint(1, 8)))
    if p == 'x[0-9]{2,4}':
        return 'x' + ''.join(rng.choice('0123456789') for _ in range(rng.randint(2, 4)))
    if p == '(ab|cd)*e?':
        return ''.join(rng.choice(('ab', 'cd')) for _ in range(rng.randint(0, 4))) + rng.choice(('', 'e'))
    if p == 'a|ab|abc':
        return rng.choice(('a', 'ab', 'abc'))
    if p == 'no|none|[0-9]|[0-9]{3}':
        return rng.choice(('no', 'none', str(rng.randint(0, 9)), '%03d' % rng.randint(0, 999)))
    if p == '[A-Z][a-z]{0,5}':
        return rng.choice('ABCXYZ') + ''.join(rng.choice('abcxyz') for _ in range(rng.randint(0, 5)))
    raise KeyError(p)


def gen_value(rng, ir, t, depth=3, top=False, alphabet='xml', subclass_ok=False):
    """Conformant value tree for tspec t. None only where the declaration allows
    absence (min_occurs=0) or nil."""
    optional = t.get('min_occurs', 0) == 0
    nillable = t.get('nillable', True)
    if 'xmldata' in t and t['xmldata'].get('prim') not in ('Unicode',):
        top = True      # the text content of a simpleContent type cannot be absent unless it is a string
    if 'xmldata' in t and t['xmldata'].get('min_occurs', 0) >= 1:
        top = True      # mandatory text content
    if 'xmldata' in t and t['xmldata'].get('prim') == 'Unicode':
        f_ = t['xmldata'].get('facets') or {}
        if ('values' in f_ and '' not in f_['values']) or f_.get('min_len', 0) > 0 or ('pattern' in f_ and re.fullmatch(f_['pattern'], '') is None):
            top = True  # ... and a string only when the empty string is one of its values
    if 'attr' in t and t['attr'].get('min_occurs', 0) >= 1:
        top = True      # a required attribute
    if 'seq' in t and t.get('min_occurs', 0) >= 1:
        top = True      # "no value" of a repeated member is no element at all (or one nil element): fewer than the member has to occur
    req_attr_ = 'ref' in t and any('attr' in ft and ft['attr'].get('min_occurs', 0) >= 1 for _, ft in all_fields(ir, t['ref']))
    if req_attr_:
        top = True      # XSD wants the required attributes even on a nilled element: "no value" has no valid spelling for such a type
    if not top and (optional or nillable) and rng.random() < .15:
        return None
    if 'prim' in t:
        v = gen_prim_value(rng, t['prim'], t.get('facets'), alphabet)
        if t['prim'] == 'ByteArray' and v == b'' and not (optional and nillable):
            v = b'\x00'      # the empty byte string IS None on the wire: only where None is allowed
        if alphabet == 'xml' and isinstance(v, str) and not lex.xml_char_ok(v):
            v = 'x'
        return v
    if 'enum' in t:
        return rng.choice(t['enum'])
    if 'ref' in t:
        if depth <= 0 and not req_attr_:
            if optional or nillable:
                return None
        name = t['ref']
        if subclass_ok:
            subs = [x['name'] for x in ir['types'] if _is_sub(ir, x['name'], name)]
            name = rng.choice(subs)
        out = {'__class__': name}
        prev = {}
        groups = {}
        for fn, ft in all_fields(ir, name):
            if 'choice' in ft:
                groups.setdefault(ft['choice'], []).append(fn)
        chosen = {g: rng.choice(ms) for g, ms in sorted(groups.items())}
        for fn, ft in all_fields(ir, name):
            if 'choice' in ft and chosen[ft['choice']] != fn:
                continue
            rc_ = ft.get('ref') or (ft.get('array') or {}).get('ref') or (ft.get('seq') or {}).get('ref')
            if depth <= 0 and rc_ is not None and _is_sub(ir, name, rc_):
                if ft.get('min_occurs', 0) == 0:
                    continue        # a member of the object's own class (or of an ancestor): the chain ends here
                # ... unless the member is mandatory (then it is of an ancestor's class, or the class could have no instances):
                # an object of exactly the declared class, whose own chain ends at once
                v = gen_value(rng, ir, ft, depth - 1, alphabet=alphabet, subclass_ok=False)
            else:
                v = gen_value(rng, ir, ft, depth - 1, alphabet=alphabet, subclass_ok=subclass_ok)
            if v is not None:
                # aliasing: two members of the same declared class may refer to one and the same object
                if 'ref' in ft and not subclass_ok and ft['ref'] in prev and rng.random() < .3:
                    v = prev[ft['ref']]
                out[fn] = v
                if 'ref' in ft:
                    prev.setdefault(ft['ref'], v)
        return out
    if 'array' in t:
        inner = t['array']
        n = rng.choice([k_ for k_ in (0, 1, 2, 3, 5) if inner.get('min_occurs', 0) <= k_ <= inner.get('max_occurs', 10 ** 9)] or [inner.get('min_occurs', 0)])
        out = []
        for _ in range(n):
            v = gen_value(rng, ir, inner, depth - 1, top=True, alphabet=alphabet, subclass_ok=subclass_ok)
            if v is None:
                return out
            out.append(v)
        if out and 'ref' in inner and rng.random() < .25:
            out.append(out[0])          # the same object twice in one array (not a cycle)
        inner_req_attr_ = 'ref' in inner and any('attr' in ft and ft['attr'].get('min_occurs', 0) >= 1 for _, ft in all_fields(ir, inner['ref']))
        if ir.get('null_items') and inner.get('nillable', True) and 'array' not in inner and not inner_req_attr_ and rng.random() < .2:
            out.insert(rng.randint(0, len(out)), None)       # a null item: first, in the middle, last or alone
        return out
    if 'seq' in t:
        mx = 5 if t['max'] == 'unbounded' else t['max']
        mn_ = t.get('min_occurs', 0)
        n = rng.choice([k for k in (0, 1, 2, 3, mx) if mn_ <= k <= mx])
        out = []
        for i_ in range(n):
            # (the occurrences a member must have are produced even at the depth limit)
            v = gen_value(rng, ir, t['seq'], max(depth - 1, 1) if i_ < mn_ else depth - 1, top=True, alphabet=alphabet, subclass_ok=subclass_ok)
            if v is None:
                if len(out) < mn_:
                    return None if mn_ == 0 else (out + [out[0]] * (mn_ - len(out)) if out else None)
                break
            out.append(v)
        if out and 'ref' in t['seq'] and len(out) < mx and rng.random() < .25:
            out.append(out[0])
        return out
    if 'attr' in t:
        return gen_value(rng, ir, t['attr'], depth, top=t['attr'].get('min_occurs', 0) >= 1, alphabet=alphabet)
    if 'xmldata' in t:
        return gen_value(rng, ir, t['xmldata'], depth, top=True, alphabet=alphabet)
    raise KeyError(t)


def _is_sub(ir, a, b):
    tds = {t['name']: t for t in ir['types']}
    while a is not None:
        if a == b:
            return True
        a = tds[a]['base']
    return False


# ----------------------------------------------------------------- equality

def veq(ir, t, a, b, path='', diffs=None):
    """Per-type equality with exactly the identifications of the statement.
    a = expected (value tree as generated), b = observed (from_spyne / decoder)."""
    diffs = diffs if diffs is not None else []

    def bad(msg):
        diffs.append('%s: %s' % (path or '<root>', msg))
        return False
    if isinstance(b, dict) and '__foreign__' in b:
        return bad('value of foreign type %s' % b['__foreign__'])
    if 'attr' in t:
        return veq(ir, t['attr'], a, b, path, diffs)
    if 'xmldata' in t:
        # the text of an element cannot be absent: '' and None are one value here
        if (a in (None, '') and b in (None, '')):
            return True
        return veq(ir, t['xmldata'], a, b, path, diffs)
    if 'seq' in t:
        ea = a if a else None           # empty unwrapped sequence = None
        eb = b if b else None
        if ea is None or eb is None:
            return True if ea is None and eb is None else bad('expected %r, got %r' % (a, b))
        if not isinstance(eb, (list, tuple)) or len(ea) != len(eb):
            return bad('expected %d items, got %r' % (len(ea), b if not isinstance(b, (list, tuple)) else len(b)))
        return all([veq(ir, t['seq'], x, y, '%s[%d]' % (path, i), diffs) for i, (x, y) in enumerate(zip(ea, eb))])
    if 'prim' in t and t['prim'] == 'ByteArray':
        try:
            ba = lex.tobytes(a) if a is not None else b''
            bb = lex.tobytes(b) if b is not None else b''
        except TypeError:
            return bad('expected bytes %r, got %r' % (a, b))
        return True if ba == bb else bad('expected bytes %r, got %r' % (ba[:40], bb[:40]))
    if a is None or b is None:
        return True if a is None and b is None else bad('expected %r, got %r' % (_short(a), _short(b)))
    if 'prim' in t:
        return True if lex.equal(eqkind(t['prim']), a, b) else bad('expected %r, got %r' % (a, b))
    if 'enum' in t:
        return True if (a == b or getattr(b, 'name', None) == a or str(b) == a) else bad('expected enum %r, got %r' % (a, b))
    if 'array' in t:
        if not isinstance(b, (list, tuple)):
            return bad('expected list, got %r' % (b,))
        if len(a) != len(b):
            return bad('expected %d items, got %d' % (len(a), len(b)))
        return all([veq(ir, t['array'], x, y, '%s[%d]' % (path, i), diffs) for i, (x, y) in enumerate(zip(a, b))])
    if 'ref' in t:
        if not isinstance(b, dict):
            return bad('expected object, got %r' % (b,))
        ca, cb = a.get('__class__', t['ref']), b.get('__class__', t['ref'])
        if ca != cb:
            return bad('expected class %s, got %s' % (ca, cb))
        ok = True
        for fn, ft in all_fields(ir, ca):
            ok = veq(ir, ft, a.get(fn), b.get(fn), '%s.%s' % (path, fn), diffs) and ok
        return ok
    raise KeyError(t)


def _short(v):
    r = repr(v)
    return r if len(r) < 80 else r[:77] + '...'


def shape(t):
    """coarse signature of a tspec for distinct-case counting"""
    if 'prim' in t:
        return 'p:%s%s' % (t['prim'], '+' if t.get('facets') else '')
    for k in ('array', 'seq', 'attr', 'xmldata'):
        if k in t:
            return '%s(%s)' % (k, shape(t[k]))
    if 'ref' in t:
        return 'ref'
    return 'enum'


def vclass(v):
    if v is None:
        return 'none'
    if isinstance(v, dict):
        return 'obj%d' % min(len(v), 4)
    if isinstance(v, (list, tuple)):
        return 'list%d' % min(len(v), 3)
    if isinstance(v, bool):
        return 'bool'
    if isinstance(v, int):
        return 'int%d' % min(v.bit_length() // 16, 5)
    if isinstance(v, str):
        return 'str%d%s' % (min(len(v) // 8, 3), '' if v.isascii() else 'u')
    return type(v).__name__
