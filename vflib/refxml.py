"""R - reference XML / SOAP codec, driven by the XSD + WSDL that spyne publishes.

Nothing here knows spyne's naming rules: element and attribute names, array
item names, wrapper elements, namespaces and simple-type bases are all read
from the published schema / WSDL; the IR (vflib/gen.py) only says how a value
tree is structured (object / wrapped array / repeated element / attribute).
Lexical forms come from vflib/lex.py.
"""
from lxml import etree

from vflib import lex

XS = lex.XS
XSI = 'http://www.w3.org/2001/XMLSchema-instance'
WSDL = 'http://schemas.xmlsoap.org/wsdl/'
SOAP11 = 'http://schemas.xmlsoap.org/soap/envelope/'
SOAP12 = 'http://www.w3.org/2003/05/soap-envelope'
WSDLSOAP11 = 'http://schemas.xmlsoap.org/wsdl/soap/'
WSDLSOAP12 = 'http://schemas.xmlsoap.org/wsdl/soap12/'


def Q(ns, n):
    return '{%s}%s' % (ns, n) if ns else n


class NotConformant(Exception):
    """The value cannot be expressed under the published schema (outside the
    domain of the wire-fidelity properties; C06 looks at such cases)."""


class SchemaMismatch(Exception):
    """The published schema contradicts the IR (e.g. names a different builtin)."""


def resolve_qname(node, val):
    if val is None:
        return None
    p, _, l = val.rpartition(':')
    ns = node.nsmap.get(p or None)
    if p and ns is None:
        raise SchemaMismatch('prefix %r of %r is not bound' % (p, val))
    return Q(ns, l)


class Schema(object):
    def __init__(self, schema_nodes):
        self.types = {}
        self.elements = {}
        self.nodes = list(schema_nodes)
        for node in self.nodes:
            tns = node.get('targetNamespace')
            for c in node:
                if not isinstance(c.tag, str):
                    continue
                ln = etree.QName(c).localname
                if ln in ('complexType', 'simpleType'):
                    self.types[Q(tns, c.get('name'))] = (ln, c, tns)
                elif ln == 'element':
                    self.elements[Q(tns, c.get('name'))] = (resolve_qname(c, c.get('type')), tns, c)
        self._content = {}

    def is_builtin(self, tq):
        return tq.startswith('{%s}' % XS)

    def is_simple(self, tq):
        return self.is_builtin(tq) or (tq in self.types and self.types[tq][0] == 'simpleType')

    def base_builtin(self, tq):
        """(builtin local name, is_uuid_like) following simpleType restrictions."""
        seen = 0
        uuid_like = False
        while not self.is_builtin(tq):
            if tq not in self.types:
                raise SchemaMismatch('type %s is not defined' % tq)
            kind, node, tns = self.types[tq]
            if kind != 'simpleType':
                raise SchemaMismatch('%s is not a simple type' % tq)
            if tq.endswith('}uuid'):
                uuid_like = True
            r = node.find('{%s}restriction' % XS)
            if r is None:
                raise SchemaMismatch('simple type %s without restriction' % tq)
            tq = resolve_qname(r, r.get('base'))
            seen += 1
            if seen > 20:
                raise SchemaMismatch('restriction chain too long')
        return tq.split('}')[1], uuid_like

    def content(self, tq):
        """(attrs, elems, simple_base) of a complex type incl. inherited members."""
        if tq in self._content:
            return self._content[tq]
        if tq not in self.types:
            raise SchemaMismatch('type %s is not defined' % tq)
        kind, node, tns = self.types[tq]
        if kind != 'complexType':
            raise SchemaMismatch('%s is not a complex type' % tq)
        attrs, elems, simple = [], [], None
        holder = node
        cc = node.find('{%s}complexContent' % XS)
        sc = node.find('{%s}simpleContent' % XS)
        if cc is not None:
            ext = cc.find('{%s}extension' % XS)
            b = resolve_qname(ext, ext.get('base'))
            a, e, s = self.content(b)
            attrs += a
            elems += e
            holder = ext
        if sc is not None:
            ext = sc.find('{%s}extension' % XS)
            simple = resolve_qname(ext, ext.get('base'))
            holder = ext
        for grp in holder:
            if not isinstance(grp.tag, str):
                continue
            gl = etree.QName(grp).localname
            if gl in ('sequence', 'choice', 'all'):
                def walk(g, gname, in_choice):
                    for el in g:
                        if not isinstance(el.tag, str):
                            continue
                        ln = etree.QName(el).localname
                        if ln == 'element':
                            mx = el.get('maxOccurs', '1')
                            elems.append(dict(name=el.get('name'), ns=tns, type=resolve_qname(el, el.get('type')),
                                              min=0 if in_choice else int(el.get('minOccurs', '1')),
                                              max=(10 ** 9 if mx == 'unbounded' else int(mx)),
                                              nillable=el.get('nillable') in ('true', '1'), group=gname))
                        elif ln in ('choice', 'sequence'):
                            # a choice inside the sequence: its members in document order, each optional
                            walk(el, ln, in_choice or ln == 'choice')
                walk(grp, gl, gl == 'choice')
            elif gl == 'attribute':
                attrs.append(dict(name=grp.get('name'), type=resolve_qname(grp, grp.get('type')), use=grp.get('use')))
        self._content[tq] = (attrs, elems, simple)
        return self._content[tq]

    def validator(self):
        """lxml XMLSchema over all published schema documents (written to a temp dir
        by spyne itself is one way; here: import-by-inclusion in one wrapper)."""
        raise NotImplementedError


# ------------------------------------------------------------------ lexical glue

def lex_kind(schema, tq, t):
    """xs builtin to use for (IR tspec t, schema simple type tq)."""
    b, uuid_like = schema.base_builtin(tq)
    if 'enum' in t:
        if b != 'string':
            raise SchemaMismatch('enum published as xs:%s' % b)
        return 'string'
    kind = t['prim']
    from vflib.gen import PRIMS
    want = PRIMS[kind]
    if kind == 'Uuid':
        if b != 'string':
            raise SchemaMismatch('Uuid published as xs:%s' % b)
        return 'uuid'
    if b != want:
        # integer family members may be published as a wider/narrower builtin: that is C06's business
        raise SchemaMismatch('%s published as xs:%s, expected xs:%s' % (kind, b, want))
    return b


def to_text(schema, tq, t, v):
    xs = lex_kind(schema, tq, t)
    if 'enum' in t:
        return v
    s = lex.print_xs(xs, v)
    if isinstance(s, str) and not lex.xml_char_ok(s):
        raise NotConformant('text not expressible in XML 1.0')
    return s


def from_text(schema, tq, t, text):
    xs = lex_kind(schema, tq, t)
    text = '' if text is None else text
    if 'enum' in t:
        return text
    if xs not in ('string', 'anyURI'):
        text = text.strip()
    v = lex.parse(xs, text)
    return v


# ------------------------------------------------------------------ encoder

class Codec(object):
    def __init__(self, schema, ir, rng=None, strict=True):
        self.S = schema
        self.ir = ir
        self.rng = rng
        self.strict = strict      # False: encode non-conformant requests too (validation checks)
        self.pad = False          # True: literals of the types whose whiteSpace facet is 'collapse' are written with blanks around them

    def lit(self, t, text):
        """the literal as it goes into the document (the date/time/duration types are left alone: libxml2, the second opinion on
        what is valid under the published schema, does not collapse white space for them)"""
        if self.pad and self.rng is not None and t.get('prim') not in (None, 'Unicode', 'Uuid', 'Time', 'Date', 'DateTime', 'Duration') and text is not None and self.rng.random() < .6:
            return self.rng.choice((' ', '\n    ', '\t', '  ')) + text + self.rng.choice((' ', '\n  ', ''))
        return text

    def _coin(self):
        return self.rng is not None and self.rng.random() < .5

    def enc_member(self, parent, decl, t, v):
        """Encode value v (tspec t) as occurrence(s) of the declared element."""
        from vflib.refval import NIL
        if 'seq' in t:
            items = [NIL] if v is NIL else (v or [])
            if self.strict and (len(items) < decl['min'] or len(items) > decl['max']):
                raise NotConformant('occurrence count %d outside [%d,%d]' % (len(items), decl['min'], decl['max']))
            for it in items:
                self.enc_one(parent, decl, t['seq'], it)
            return
        if v is NIL:
            el = etree.SubElement(parent, Q(decl['ns'], decl['name']))
            el.set(Q(XSI, 'nil'), 'true')
            return
        if v is None and not self.strict:
            return
        if v is None:
            if decl['min'] == 0 and (not decl['nillable'] or self._coin()):
                return
            if decl['nillable']:
                el = etree.SubElement(parent, Q(decl['ns'], decl['name']))
                el.set(Q(XSI, 'nil'), 'true')
                return
            if decl['min'] == 0:
                return
            raise NotConformant('None for a mandatory non-nillable member')
        self.enc_one(parent, decl, t, v)

    def enc_one(self, parent, decl, t, v):
        from vflib.refval import NIL
        el = etree.SubElement(parent, Q(decl['ns'], decl['name']))
        if v is None or v is NIL:
            if self.strict and not decl['nillable']:
                raise NotConformant('nil item in non-nillable position')
            el.set(Q(XSI, 'nil'), 'true')
            return el
        self.fill(el, decl['type'], t, v)
        return el

    def fill(self, el, tq, t, v):
        S = self.S
        if 'attr' in t or 'xmldata' in t:
            raise SchemaMismatch('attribute/xmldata outside a complex type')
        from vflib.refval import Raw, NIL
        if 'prim' in t or 'enum' in t:
            if not S.is_simple(tq):
                raise SchemaMismatch('primitive published as complex type %s' % tq)
            el.text = v.text if isinstance(v, Raw) else self.lit(t, to_text(S, tq, t, v))
            return
        if 'array' in t:
            attrs, elems, simple = S.content(tq)
            if len(elems) != 1 or attrs or simple is not None:
                raise SchemaMismatch('array type %s does not have exactly one member element' % tq)
            d = elems[0]
            if self.strict and (len(v) < d['min'] or len(v) > d['max']):
                raise NotConformant('array length outside member occurrence bounds')
            for it in v:
                self.enc_one(el, d, t['array'], it)
            return
        if 'ref' in t:
            cname = v.get('__class__', t['ref'])
            attrs, elems, simple = S.content(tq)
            if cname != t['ref']:
                # polymorphic substitution: find the published type of the subclass
                stq = self.type_of_class(cname)
                el.set(Q(XSI, 'type'), self.qname_text(el, stq))
                attrs, elems, simple = S.content(stq)
            from vflib.gen import all_fields
            fields = all_fields(self.ir, cname)
            byname_e = {e['name']: e for e in elems}
            byname_a = {a['name']: a for a in attrs}
            # declared order: walk the schema's element order
            order = [e['name'] for e in elems]
            fmap = dict(fields)
            for fn, ft in fields:
                if 'attr' in ft:
                    a = byname_a.get(fn)
                    if a is None:
                        raise SchemaMismatch('attribute %s not published on %s' % (fn, tq))
                    if isinstance(v.get(fn), Raw):
                        el.set(fn, v[fn].text)
                    elif v.get(fn) is not None and v.get(fn) is not NIL:
                        el.set(fn, self.lit(ft['attr'], to_text(S, a['type'], ft['attr'], v[fn])))
                    elif a.get('use') == 'required' and self.strict:
                        raise NotConformant('required attribute absent')
                elif 'xmldata' in ft:
                    if simple is None:
                        raise SchemaMismatch('XmlData member but %s has no simpleContent' % tq)
                    if isinstance(v.get(fn), Raw):
                        el.text = v[fn].text
                    elif v.get(fn) is not None and v.get(fn) is not NIL:
                        el.text = self.lit(ft['xmldata'], to_text(S, simple, ft['xmldata'], v[fn]))
                elif fn not in byname_e:
                    raise SchemaMismatch('field %s not published on %s' % (fn, tq))
            for name in order:
                ft = fmap.get(name)
                if ft is None:
                    d = byname_e[name]
                    if d['min'] > 0:
                        raise SchemaMismatch('published member %s unknown to the IR' % name)
                    continue
                self.enc_member(el, byname_e[name], ft, v.get(name))
            return
        raise KeyError(t)

    def type_of_class(self, cname):
        for tq, (kind, node, tns) in self.S.types.items():
            if kind == 'complexType' and node.get('name') == cname:
                return tq
        raise SchemaMismatch('class %s is not published' % cname)

    def qname_text(self, el, tq):
        ns, _, local = tq[1:].partition('}')
        for p, u in el.nsmap.items():
            if u == ns and p:
                return '%s:%s' % (p, local)
        raise SchemaMismatch('no prefix in scope for %s' % ns)

    # -------------------------------------------------------------- decoder
    def dec_member(self, parent, decl, t):
        """value of member `decl` inside element `parent`, structured per tspec t"""
        kids = [c for c in parent if isinstance(c.tag, str) and c.tag == Q(decl['ns'], decl['name'])]
        if 'seq' in t:
            return [self.dec_one(c, decl['type'], t['seq']) for c in kids] or None
        if not kids:
            return None
        if len(kids) > 1:
            raise NotConformant('member %s occurs %d times' % (decl['name'], len(kids)))
        return self.dec_one(kids[0], decl['type'], t)

    def dec_one(self, el, tq, t):
        if el.get(Q(XSI, 'nil')) in ('true', '1'):
            return None
        S = self.S
        if 'prim' in t or 'enum' in t:
            if len(el):
                raise NotConformant('child elements inside a simple value')
            return from_text(S, tq, t, el.text)
        if 'array' in t:
            attrs, elems, simple = S.content(tq)
            if len(elems) != 1:
                raise SchemaMismatch('array type %s does not have exactly one member element' % tq)
            d = elems[0]
            out = []
            for c in el:
                if not isinstance(c.tag, str):
                    continue
                if c.tag != Q(d['ns'], d['name']):
                    raise NotConformant('unexpected element %s inside array' % c.tag)
                out.append(self.dec_one(c, d['type'], t['array']))
            return out
        if 'ref' in t:
            cname = t['ref']
            xt = el.get(Q(XSI, 'type'))
            if xt is not None:
                p, _, l = xt.rpartition(':')
                ns = el.nsmap.get(p or None)
                if p and ns is None:
                    raise NotConformant('xsi:type prefix %r is not bound in the document' % p)
                stq = Q(ns, l)
                if stq not in S.types:
                    raise NotConformant('xsi:type %s is not a published type' % stq)
                tq = stq
                cname = l
            attrs, elems, simple = S.content(tq)
            from vflib.gen import all_fields
            try:
                fields = all_fields(self.ir, cname)
            except KeyError:
                raise NotConformant('xsi:type names unknown class %s' % cname)
            out = {'__class__': cname}
            byname_e = {e['name']: e for e in elems}
            byname_a = {a['name']: a for a in attrs}
            known = set()
            for fn, ft in fields:
                if 'attr' in ft:
                    a = byname_a.get(fn)
                    if a is not None and el.get(fn) is not None:
                        out[fn] = from_text(S, a['type'], ft['attr'], el.get(fn))
                elif 'xmldata' in ft:
                    if simple is not None and (el.text is not None):
                        out[fn] = from_text(S, simple, ft['xmldata'], el.text)
                else:
                    d = byname_e.get(fn)
                    if d is None:
                        raise SchemaMismatch('field %s not published on %s' % (fn, tq))
                    known.add(Q(d['ns'], d['name']))
                    out[fn] = self.dec_member(el, d, ft)
            for c in el:
                if isinstance(c.tag, str) and c.tag not in known:
                    raise NotConformant('undeclared element %s in %s' % (c.tag, cname))
            return out
        raise KeyError(t)


# ------------------------------------------------------------------ WSDL model

class WsdlModel(object):
    """Operations of the published WSDL: in/out element QNames, headers, faults."""

    def __init__(self, wsdl_bytes):
        self.root = etree.fromstring(wsdl_bytes)
        r = self.root
        self.tns = r.get('targetNamespace')
        self.schemas = r.findall('{%s}types/{%s}schema' % (WSDL, XS))
        self.messages = {}
        for m in r.findall('{%s}message' % WSDL):
            parts = [(p.get('name'), resolve_qname(p, p.get('element'))) for p in m.findall('{%s}part' % WSDL)]
            self.messages[Q(self.tns, m.get('name'))] = parts
        self.operations = {}
        for pt in r.findall('{%s}portType' % WSDL):
            for op in pt.findall('{%s}operation' % WSDL):
                i = op.find('{%s}input' % WSDL)
                o = op.find('{%s}output' % WSDL)
                d = {'name': op.get('name'), 'port_type': pt.get('name'),
                     'in_msg': resolve_qname(i, i.get('message')) if i is not None else None,
                     'out_msg': resolve_qname(o, o.get('message')) if o is not None else None,
                     'faults': [resolve_qname(f, f.get('message')) for f in op.findall('{%s}fault' % WSDL)]}
                self.operations.setdefault(op.get('name'), []).append(d)

    def in_element(self, opname):
        op = self.operations[opname][0]
        parts = self.messages[op['in_msg']]
        return parts[0][1] if parts else None

    def out_element(self, opname):
        op = self.operations[opname][0]
        if op['out_msg'] is None:
            return None
        parts = self.messages[op['out_msg']]
        return parts[0][1] if parts else None


# ------------------------------------------------------------------ requests / responses

class Wire(object):
    """Builds request documents for a method and decodes response documents,
    for XmlDocument / Soap11 / Soap12."""

    def __init__(self, built, wsdl_bytes, rng=None, strict=True):
        self.built = built
        self.ir = built.ir
        self.wsdl = WsdlModel(wsdl_bytes)
        self.schema = Schema(self.wsdl.schemas)
        self.codec = Codec(self.schema, self.ir, rng, strict)
        self.nsmap = {'s%d' % i: n.get('targetNamespace') for i, n in enumerate(self.schema.nodes)}
        self.nsmap['xsi'] = XSI

    def wrapper_tspec(self, md):
        return md['args']

    def request_element(self, md, args):
        """args: list of value trees, one per declared argument"""
        S = self.schema
        opname = md.get('operation_name') or md['name']
        eq = self.wsdl.in_element(opname)
        if eq is None or eq not in S.elements:
            raise SchemaMismatch('input element %s of operation %s is not a global element' % (eq, opname))
        tq, ens, enode = S.elements[eq]
        ns, _, local = eq[1:].partition('}')
        root = etree.Element(eq, nsmap=self.nsmap)
        if md['style'] == 'bare':
            (aname, at), = md['args']
            v = args[0]
            if v is None:
                raise NotConformant('bare argument None')
            from vflib.refval import NIL
            if v is NIL:
                root.set(Q(XSI, 'nil'), 'true')
                return root
            self.codec.fill(root, tq, at, v)
            return root
        attrs, elems, simple = S.content(tq)
        byname = {e['name']: e for e in elems}
        amap = {a: (t, v) for (a, t), v in zip(md['args'], args)}
        for name in [e['name'] for e in elems]:
            if name not in amap:
                if byname[name]['min'] > 0:
                    raise SchemaMismatch('published wrapper member %s unknown to the IR' % name)
                continue
            t, v = amap[name]
            self.codec.enc_member(root, byname[name], t, v)
        for a in amap:
            if a not in byname:
                raise SchemaMismatch('argument %s not published in wrapper %s' % (a, tq))
        return root

    def decode_response_element(self, md, el):
        """-> list of return value trees (one per declared return type)"""
        S = self.schema
        opname = md.get('operation_name') or md['name']
        eq = self.wsdl.out_element(opname)
        if eq is None:
            raise SchemaMismatch('operation %s has no output element' % opname)
        if el.tag != eq:
            raise NotConformant('response root is %s, WSDL says %s' % (el.tag, eq))
        tq, ens, enode = S.elements[eq]
        rets = md['returns']
        if md['style'] in ('bare', 'out_bare', 'empty_out_bare'):
            if not rets:
                return []
            return [self.codec.dec_one(el, tq, rets[0])]
        attrs, elems, simple = S.content(tq)
        if len(elems) != len(rets):
            raise SchemaMismatch('response wrapper %s has %d members, %d return values declared' % (tq, len(elems), len(rets)))
        known = set(Q(e['ns'], e['name']) for e in elems)
        for c in el:
            if isinstance(c.tag, str) and c.tag not in known:
                raise NotConformant('undeclared element %s in response' % c.tag)
        return [self.codec.dec_member(el, d, t) for d, t in zip(elems, rets)]

    # -- envelopes
    def envelope(self, body_el, version, header_els=()):
        ns = SOAP11 if version == 11 else SOAP12
        env = etree.Element(Q(ns, 'Envelope'), nsmap=dict(self.nsmap, soapenv=ns))
        if header_els:
            h = etree.SubElement(env, Q(ns, 'Header'))
            for x in header_els:
                h.append(x)
        b = etree.SubElement(env, Q(ns, 'Body'))
        b.append(body_el)
        return env

    def open_envelope(self, data, version):
        ns = SOAP11 if version == 11 else SOAP12
        root = etree.fromstring(data)
        if root.tag != Q(ns, 'Envelope'):
            raise NotConformant('response root %s is not a SOAP %s envelope' % (root.tag, version))
        body = root.find(Q(ns, 'Body'))
        if body is None:
            raise NotConformant('envelope without Body')
        header = root.find(Q(ns, 'Header'))
        kids = [c for c in body if isinstance(c.tag, str)]
        return header, kids

    def serialize(self, el):
        return etree.tostring(el, xml_declaration=True, encoding='UTF-8')


def vary_document(rng, el, how):
    """The same document written the way another toolkit might: indented, with comments between the members, text in CDATA sections.
    None of it changes what the document denotes under its schema."""
    if 'comments' in how:
        for e in list(el.iter()):
            if isinstance(e.tag, str) and len(e) and rng.random() < .6:
                e.insert(rng.randint(0, len(e)), etree.Comment(' %s ' % rng.choice(('note', '<x/>', 'a -- b'.replace('--', '- -'), ''))))
    if 'pi' in how:
        for e in list(el.iter()):
            if isinstance(e.tag, str) and len(e) and rng.random() < .3:
                e.insert(rng.randint(0, len(e)), etree.ProcessingInstruction('app', 'hint="1"'))
    if 'cdata' in how:
        for e in el.iter():
            if isinstance(e.tag, str) and len(e) == 0 and e.text and ']]>' not in e.text and '\r' not in e.text and rng.random() < .6:
                try:
                    e.text = etree.CDATA(e.text)
                except ValueError:
                    pass
    if 'indent' in how:
        etree.indent(el, space=rng.choice(('  ', '\t', '    ')))
    return el


def build_validator(wsdl_bytes_or_app, app=None):
    """lxml XMLSchema for the application's published schema, compiled from the
    documents spyne writes itself (build_validation_schema)."""
    app.interface.docs.xml_schema.build_validation_schema()
    return app.interface.docs.xml_schema.validation_schema
