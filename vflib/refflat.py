"""R - reference flattener for the HttpRpc key/value notation: a.b.c, a[0].b,
repeated keys for primitive arrays, percent-encoding, configurable delimiter.
Written from the documented notation; shares no code with spyne."""
import base64
from urllib.parse import quote

from vflib import gen, lex
from vflib.refval import NIL, Raw


class NotExpressible(Exception):
    pass


def leaf_text(t, v):
    if isinstance(v, Raw):
        return v.text
    if 'enum' in t:
        return v
    kind = t['prim']
    xs = gen.PRIMS[kind]
    if kind == 'ByteArray':
        return base64.urlsafe_b64encode(lex.tobytes(v)).decode('ascii')
    if kind == 'Boolean':
        return 'true' if v else 'false'
    if kind == 'Uuid':
        return str(v)
    return lex.print_xs(xs, v)


def flatten(ir, t, v, prefix, delim='.', indices=None, out=None):
    """-> list of (key, text) pairs. `indices`: callable(n) -> list of n array indices to use
    (ascending; contiguous or sparse)."""
    out = out if out is not None else []
    indices = indices or (lambda n: list(range(n)))
    if v is None:
        return out
    if v is NIL:
        raise NotExpressible('a query string cannot spell an explicit null')
    if 'xmldata' in t:
        raise NotExpressible('XML-only member')
    if 'attr' in t:
        return flatten(ir, t['attr'], v, prefix, delim, indices, out)       # an attribute member is spelled like any member
    if 'prim' in t or 'enum' in t:
        out.append((prefix, leaf_text(t, v)))
        return out
    if 'seq' in t or 'array' in t:
        inner = t.get('seq') or t.get('array')
        if 'array' in inner or 'seq' in inner:
            raise NotExpressible('nested arrays have no flat notation')
        if 'prim' in inner or 'enum' in inner:
            # either the key is repeated, or (indices.prims) the entries are numbered like those of an array of objects
            numbered = getattr(indices, 'prims', False)
            for i, x in zip(indices(len(v)), v):
                if x is None:
                    raise NotExpressible('null array item')
                out.append(('%s[%d]' % (prefix, i) if numbered else prefix, leaf_text(inner, x)))
            return out
        if len(v) == 0:
            if 'array' in t:
                out.append((prefix, 'empty'))
            return out
        for i, x in zip(indices(len(v)), v):
            flatten(ir, inner, x, '%s[%d]' % (prefix, i), delim, indices, out)
        return out
    if 'ref' in t:
        for fn, ft in gen.all_fields(ir, v.get('__class__', t['ref'])):
            flatten(ir, ft, v.get(fn), prefix + delim + fn if prefix else fn, delim, indices, out)
        return out
    raise KeyError(t)


def query_string(pairs):
    return '&'.join('%s=%s' % (quote(k, safe=''), quote(v, safe='')) for k, v in pairs)


def request_pairs(ir, md, args, delim='.', indices=None):
    out = []
    if md['style'] == 'bare':
        (an, at), = md['args']
        v = args[0]
        for fn, ft in gen.all_fields(ir, v.get('__class__', at['ref'])):
            flatten(ir, ft, v.get(fn), fn, delim, indices, out)
        return out
    for (an, at), v in zip(md['args'], args):
        flatten(ir, at, v, an, delim, indices, out)
    return out


def has_empty_strings(ir, t, v):
    """an empty value in a query string is read as absent: not a conformant way to spell ''"""
    if v is None:
        return False
    if 'prim' in t:
        return (isinstance(v, str) and v == '') or (t['prim'] == 'ByteArray' and len(lex.tobytes(v)) == 0)
    if 'ref' in t:
        return any(has_empty_strings(ir, ft, v.get(fn)) for fn, ft in gen.all_fields(ir, v.get('__class__', t['ref'])))
    for k in ('array', 'seq'):
        if k in t:
            return any(has_empty_strings(ir, t[k], x) for x in v)
    return False


def fnorm(ir, t, v):
    """The flat notation has no spelling for an empty primitive array or an object without
    any spelled member: identify them with absent (for the flat comparisons only)."""
    if v is None:
        return None
    if 'array' in t or 'seq' in t:
        inner = t.get('array') or t.get('seq')
        out = [fnorm(ir, inner, x) for x in v]
        if 'prim' in inner or 'enum' in inner:
            return out or None
        if 'seq' in t:
            return out or None
        return out
    if 'ref' in t:
        if not isinstance(v, dict):
            return v
        out = dict(v)
        some = False
        for fn, ft in gen.all_fields(ir, v.get('__class__', t['ref'])):
            out[fn] = fnorm(ir, ft, v.get(fn))
            some = some or out[fn] is not None
        return out if some else None
    return v


def unspellable_none(ir, t, v):
    """a mandatory member whose value leaves no pair in the query string (None, empty array,
    object without spelled members) cannot be distinguished from an absent one"""
    if fnorm(ir, t, v) is None or v == []:
        if 'array' in t and t['array'].get('min_occurs', 0) >= 1:
            # an array whose item type asks for at least one item: absent (fine: the member is optional) and empty (too few items) are the
            # same query string
            return True
        return t.get('min_occurs', 0) >= 1 or _has_mandatory(ir, t, v)
    if 'ref' in t and isinstance(v, dict):
        return any(unspellable_none(ir, ft, v.get(fn)) for fn, ft in gen.all_fields(ir, v.get('__class__', t['ref'])))
    for k in ('array', 'seq'):
        if k in t:
            return any(unspellable_none(ir, t[k], x) for x in v)
    return False


def _has_mandatory(ir, t, v):
    if 'ref' in t and isinstance(v, dict):
        return any(ft.get('min_occurs', 0) >= 1 or _has_mandatory(ir, ft, v.get(fn))
                   for fn, ft in gen.all_fields(ir, v.get('__class__', t['ref'])))
    return False


def has_unspellable_items(ir, t, v):
    """an array item without any spelled member leaves no trace in a query string"""
    def empty_object(t, v):
        # (looked for in the value as given: normalisation below turns such an object into "absent")
        if v is None:
            return False
        if 'ref' in t and isinstance(v, dict):
            fl = gen.all_fields(ir, v.get('__class__', t['ref']))
            if fl and all(v.get(fn) in (None, [], ()) for fn, ft in fl):
                return True
            return any(empty_object(ft, v.get(fn)) for fn, ft in fl)
        inner = t.get('array') or t.get('seq')
        if inner is not None and isinstance(v, (list, tuple)):
            return any(empty_object(inner, x) for x in v)
        return False
    if empty_object(t, v):
        return True
    v = fnorm(ir, t, v)
    def walk(t, v):
        if v is None:
            return False
        if 'array' in t or 'seq' in t:
            inner = t.get('array') or t.get('seq')
            if 'ref' in inner:
                return any(x is None for x in v) or any(walk(inner, x) for x in v)
            return False
        if 'ref' in t and isinstance(v, dict):
            fl = gen.all_fields(ir, v.get('__class__', t['ref']))
            if fl and all(v.get(fn) in (None, [], ()) for fn, ft in fl):
                return True          # an object without any spelled member is indistinguishable from no object
            return any(walk(ft, v.get(fn)) for fn, ft in fl)
        return False
    return walk(t, v)
