"""A fixed small service and hand-written request encoders for it, per protocol.
Used by the transport/event/fault monitors (C09, C12, C13, C14, C17) that need
requests of known outcome rather than generated type universes.
"""
import json

TNS = 'urn:vf:mini'
S11 = 'http://schemas.xmlsoap.org/soap/envelope/'
S12 = 'http://www.w3.org/2003/05/soap-envelope'


class Recorder(object):
    """CallRecorder: every user function reports its entry here."""

    def __init__(self):
        self.calls = []
        self.events = None

    def enter(self, name, *args):
        self.calls.append((name, args))
        if self.events is not None:
            self.events.add('user_fn', name)

    def reset(self, events=None):
        self.calls = []
        self.events = events


def build_service(rec, behaviours=None):
    """Returns a fresh Service subclass. `behaviours` may carry callables the
    user functions consult (fault injection from the harness)."""
    from spyne import Service, rpc, Integer, Unicode, ByteArray, Iterable, Fault, ComplexModel, Array, File
    from spyne.model.complex import XmlAttribute
    from spyne.error import (RequestTooLongError, ResourceNotFoundError, RequestNotAllowed,
                             InvalidCredentialsError)
    beh = behaviours if behaviours is not None else {}

    class Item(ComplexModel):
        __namespace__ = TNS
        a = Integer
        b = Unicode
        tag = XmlAttribute(Unicode)

    from spyne import AnyXml, DateTime, Double, Boolean

    class OutHd(ComplexModel):
        __namespace__ = TNS
        _type_info = [('Set-Cookie', Unicode(max_occurs='unbounded')), ('X-Single', Integer), ('X-Text', Unicode),
                      ('X-Retry-After', Integer(max_occurs='unbounded')), ('X-Shard', Array(Integer)), ('X-Seen', DateTime(max_occurs=2)),
                      ('X-When', DateTime), ('X-Ratio', Double), ('X-Flag', Boolean)]

    class Frag(ComplexModel):
        __namespace__ = TNS
        x = XmlAttribute(AnyXml)
        y = AnyXml

    class MiniService(Service):
        @rpc(Integer, _returns=Integer)
        def echo(ctx, n):
            rec.enter('echo', n)
            return n

        @rpc(Unicode, _returns=Unicode)
        def echo_text(ctx, s):
            rec.enter('echo_text', s)
            return s

        @rpc(Item, _returns=Item)
        def echo_item(ctx, it):
            rec.enter('echo_item', it)
            return it

        @rpc(Integer(ge=0, le=1000), _returns=Unicode)
        def repeat(ctx, n):
            rec.enter('repeat', n)
            return u'x' * (n or 0)

        @rpc(Integer, _returns=Iterable(Integer))
        def count(ctx, n):
            rec.enter('count', n)

            def gen():
                for i in range(n or 0):
                    yield i
            return gen()

        @rpc(Integer, Integer, _returns=ByteArray)
        def chunks(ctx, n, size):
            rec.enter('chunks', n, size)
            return [bytes([65 + (i % 26)]) * (size or 1) for i in range(n or 0)]

        @rpc(Integer, Integer, Unicode, _returns=ByteArray)
        def stream(ctx, n, fail_after, how):
            # a streamed body written as a generator function, optionally failing after `fail_after` chunks
            rec.enter('stream', n, fail_after, how)
            for i in range(n or 0):
                if how and i == fail_after:
                    if how == 'fault':
                        raise Fault('Client.MidStream', 'failed after %d chunks' % i)
                    raise RuntimeError('secret-midstream')
                yield bytes([97 + (i % 26)]) * 5

        @rpc(Integer, Integer, Unicode, _returns=ByteArray)
        def lazy(ctx, n, fail_after, how):
            # the same streamed body from an ordinary method that returns an iterator object (not a generator)
            rec.enter('lazy', n, fail_after, how)

            class Chunks(object):
                def __init__(self):
                    self.i = 0

                def __iter__(self):
                    return self

                def __next__(self):
                    i = self.i
                    if i >= (n or 0):
                        raise StopIteration()
                    if how and i == fail_after:
                        if how != 'always':
                            self.i = 10 ** 9        # (fails once, then it is exhausted; 'always': fails whenever it is asked again)
                        if how == 'fault':
                            raise Fault('Client.MidStream', 'failed after %d chunks' % i)
                        raise RuntimeError('secret-midstream')
                    self.i += 1
                    return bytes([97 + (i % 26)]) * 5
                next = __next__
            return Chunks()

        @rpc(Integer, _returns=(Integer, Unicode))
        def pair(ctx, n):
            # two return values; n < 0: the method hands back Ignored instead (nothing is to be sent)
            rec.enter('pair', n)
            if n == -2:
                return ()           # fewer values than declared: a mistake of the method, which is no reason for the transport to break
            if n == -3:
                return (n,)
            if n == -4:
                return None
            if n == -5:
                return 5
            if n is not None and n < 0:
                from spyne.model._base import Ignored
                return Ignored('direct callers only', n=n)
            return n, u'v%s' % n

        @rpc(Unicode, _returns=Integer)
        def fail_odd(ctx, which):
            # faults that not every protocol can write: the answer still has to be an answer
            rec.enter('fail_odd', which)
            import decimal as _d
            raise {'ctl': lambda: Fault('Client.Ctl', u'ctl\x0bchar \x01'),
                   'badkey': lambda: Fault('Client.BadKey', 'x', detail={'k k': 'v', '1st': 'w'}),
                   'decimal': lambda: Fault('Client.Dec', 'x', detail={'a': _d.Decimal(1), 'b': object()}),
                   'custom': lambda: Fault('Custom.X', 'm'),
                   'detailstr': lambda: Fault('Client.DetailStr', 'm', detail='just text'),
                   'nonecode': lambda: Fault(None, 'x'),
                   'nonemsg': lambda: Fault('Client.NoMsg', None),
                   'bytesmsg': lambda: Fault('Client.Bytes', b'\xff\xfe bytes'),
                   'surrogate': lambda: Fault('Client.Sur', u'lone \ud800 surrogate')}[which]()

        @rpc(Unicode, Unicode, _returns=Unicode)
        def negotiate(ctx, fmt, how):
            # content negotiation: the answer to this request is written by another protocol than the application's
            rec.enter('negotiate', fmt, how)
            from spyne.protocol.json import JsonDocument
            from spyne.protocol.xml import XmlDocument
            from spyne.protocol.yaml import YamlDocument
            from spyne.protocol.soap import Soap11
            ctx.out_protocol = {'json': JsonDocument, 'xml': XmlDocument, 'yaml': YamlDocument, 'soap11': Soap11}[fmt]()
            if how == 'fault':
                raise Fault('Client.Negotiated', 'refused in %s' % fmt)
            if how == 'server_fault':
                raise Fault('Server.Negotiated', 'failed in %s' % fmt)
            if how == 'notfound':
                raise ResourceNotFoundError('thing in %s' % fmt)
            return u'answer in %s' % fmt

        @rpc(Unicode, _returns=Unicode, _out_header=OutHd)
        def hdr(ctx, how):
            # response headers: HttpRpc as output protocol turns them into HTTP headers, the SOAP protocols into header elements
            import datetime as _dt
            rec.enter('hdr', how)
            ctx.out_header = OutHd(**{
                'single': {'X-Single': 7, 'X-Text': u'one'},
                'multi_text': {'Set-Cookie': [u'a=1', u'b=2']},
                'multi_int': {'X-Retry-After': [30, 60]},
                'array_int': {'X-Shard': [1, 2, 3]},
                'multi_dt': {'X-Seen': [_dt.datetime(2020, 1, 2, 3, 4, 5), _dt.datetime(2021, 1, 2, 3, 4, 5)]},
                'all': {'X-Single': 0, 'X-Text': u'caf\xe9', 'Set-Cookie': [u'c=3'], 'X-Retry-After': [0], 'X-Shard': [], 'X-Seen': [_dt.datetime(2020, 1, 2)],
                        'X-When': _dt.datetime(2020, 1, 2, 3, 4, 5), 'X-Ratio': 0.5, 'X-Flag': True},
                'scalars': {'X-When': _dt.datetime(2020, 1, 2, 3, 4, 5), 'X-Ratio': 1.5, 'X-Flag': False},
                'empty': {},
            }[how])
            return how

        @rpc(Integer, Unicode, _returns=Unicode)
        def redirect(ctx, code, where):
            # the method sends the client elsewhere (over HTTP: a 3xx answer written by the transport, not by the output protocol)
            from spyne.server.http import HttpRedirect
            from spyne.const import http as H
            rec.enter('redirect', code, where)
            raise HttpRedirect(ctx, where or 'http://example.com/elsewhere?a=1&b=%C3%A9', code=getattr(H, 'HTTP_%d' % code))

        @rpc(Unicode, Unicode, _returns=Integer)
        def fail(ctx, code, msg):
            rec.enter('fail', code, msg)
            raise Fault(code or 'Server', msg)

        @rpc(Unicode, _returns=Integer)
        def dedicated(ctx, which):
            rec.enter('dedicated', which)
            raise {'toolong': RequestTooLongError, 'notfound': lambda: ResourceNotFoundError('thing'),
                   'notallowed': lambda: RequestNotAllowed('nope'),
                   'creds': lambda: InvalidCredentialsError()}[which]()

        @rpc(Unicode, Unicode, _returns=Unicode)
        def prepared(ctx, what, how):
            # the method writes (part of) its answer itself - a documented way to bypass the output protocol - and then fails or not
            rec.enter('prepared', what, how)
            if what == 'string':
                ctx.out_string = [b'PREPARED-', b'ANSWER']
            elif what == 'document':
                ctx.out_document = {'prepared': 'PREPARED-ANSWER'}
            if how == 'fault':
                raise Fault('Client.Prepared', 'failed after preparing')
            if how == 'exc':
                raise RuntimeError('secret-prepared')
            return u'done'

        @rpc(Unicode, _returns=Integer)
        def boom(ctx, token):
            rec.enter('boom', token)
            f = beh.get('boom')
            if f is not None:
                return f(token)
            raise RuntimeError('secret-%s' % token)

        @rpc(Unicode, _returns=Iterable(Integer))
        def gboom(ctx, token):
            # the same as boom, written as a generator function: the body only starts to run when the transport asks for the
            # first item
            rec.enter('gboom', token)
            f = beh.get('boom')
            if f is not None:
                f(token)
            else:
                raise RuntimeError('secret-%s' % token)
            yield 1

        @rpc(Unicode, _returns=Iterable(Integer))
        def gboom_late(ctx, token):
            # ... and failing only after the first item: the response is already being built
            rec.enter('gboom_late', token)
            yield 1
            f = beh.get('boom')
            if f is not None:
                f(token)
            else:
                raise RuntimeError('secret-%s' % token)
            yield 2

        @rpc(_returns=Integer)
        def noargs(ctx):
            rec.enter('noargs')
            return 42

        if beh.get('anyxml'):
            # (opt-in: an attribute of type AnyXml has no valid schema, so applications with an lxml validator cannot have it)
            @rpc(Frag, _returns=Unicode)
            def echo_frag(ctx, c):
                from lxml import etree
                show = lambda e: None if e is None else etree.tostring(e).decode('utf8', 'replace')
                rec.enter('echo_frag', None if c is None else show(c.x), None if c is None else show(c.y))
                return None if c is None else show(c.x)

        if beh.get('files'):
            # (opt-in: File values in each of the forms File.Value takes; HttpRpc writes them as the body)
            @rpc(Unicode, _returns=File)
            def file_out(ctx, how):
                rec.enter('file_out', how)
                payload = FILE_PAYLOAD
                if how == 'chunks':
                    return File.Value(data=[payload[:7000], payload[7000:]], type='application/x-vf')
                if how == 'one_chunk':
                    return File.Value(data=[payload], type='application/x-vf')
                if how == 'empty':
                    return File.Value(data=[b''], type='application/x-vf')
                path = file_payload_path()
                if how == 'path':
                    return File.Value(path=path, type='application/x-vf')
                if how == 'handle':
                    return File.Value(handle=open(path, 'rb'), type='application/x-vf')
                if how == 'rolled_over':
                    v = File.Value(path=path, type='application/x-vf')
                    v.rollover()       # path -> handle + data=(mmap,): how the library itself normalizes file-backed values
                    return v
                if how == 'mmap_tuple':
                    import mmap
                    h = open(path, 'rb')
                    return File.Value(handle=h, data=(mmap.mmap(h.fileno(), 0, access=mmap.ACCESS_READ),), type='application/x-vf')
                raise Fault('Client.NoSuchForm', how)

    return MiniService, Item


FILE_PAYLOAD = bytes(range(256)) * 60
_file_path = [None]


def file_payload_path():
    import tempfile, atexit, os
    if _file_path[0] is None or not os.path.exists(_file_path[0]):
        fd, fn = tempfile.mkstemp(prefix='vf-file-', suffix='.bin')
        os.write(fd, FILE_PAYLOAD)
        os.close(fd)
        _file_path[0] = fn
        atexit.register(lambda: os.path.exists(fn) and os.unlink(fn))
    return _file_path[0]


PROTOCOLS = ('soap11', 'soap12', 'xml', 'json', 'yaml', 'msgpack', 'msgpackrpc', 'httprpc-json', 'httprpc')


def make_protocols(kind, validator=None):
    """(in_protocol, out_protocol) fresh instances for a configuration name."""
    from spyne.protocol.soap import Soap11, Soap12
    from spyne.protocol.xml import XmlDocument
    from spyne.protocol.json import JsonDocument
    from spyne.protocol.yaml import YamlDocument
    from spyne.protocol.msgpack import MessagePackDocument, MessagePackRpc
    from spyne.protocol.http import HttpRpc
    v = validator
    if kind == 'soap11':
        return Soap11(validator=v), Soap11()
    if kind == 'soap12':
        return Soap12(validator=v), Soap12()
    if kind == 'xml':
        return XmlDocument(validator=v), XmlDocument()
    if v == 'lxml':
        v = 'soft'
    if kind == 'json':
        return JsonDocument(validator=v), JsonDocument()
    if kind == 'yaml':
        return YamlDocument(validator=v), YamlDocument()
    if kind == 'msgpack':
        return MessagePackDocument(validator=v), MessagePackDocument()
    if kind == 'msgpackrpc':
        return MessagePackRpc(validator=v), MessagePackRpc()
    if kind == 'httprpc-json':
        return HttpRpc(validator=v), JsonDocument()
    if kind == 'httprpc':
        return HttpRpc(validator=v), HttpRpc()
    raise KeyError(kind)


_appno = [0]


def build_app(kind, rec, validator=None, behaviours=None, name=None):
    from spyne import Application
    svc, item = build_service(rec, behaviours)
    base, _, variant = kind.partition('+')
    inp, outp = make_protocols(base, validator)
    if variant == 'list':
        outp = type(outp)(complex_as=list)        # positional output form of the dict-document protocols
    _appno[0] += 1
    app = Application([svc], TNS, name=name or 'MiniApp', in_protocol=inp, out_protocol=outp)
    app._vf_service = svc
    return app


def _xml_args(args):
    from xml.sax.saxutils import escape
    out = []
    for k, v in args:
        if v is None:
            continue
        if isinstance(v, dict):
            out.append('<tns:%s>%s</tns:%s>' % (k, _xml_args(sorted(v.items())), k))
        else:
            out.append('<tns:%s>%s</tns:%s>' % (k, escape(str(v)), k))
    return ''.join(out)


def encode_request(kind, method, args):
    """-> dict(method=, path=, qs=, body=, content_type=). args: list of (name, value)."""
    kind = kind.partition('+')[0]          # output variants ('json+list') share the request form
    from urllib.parse import quote
    if kind in ('soap11', 'soap12'):
        ns = S11 if kind == 'soap11' else S12
        body = ('<e:Envelope xmlns:e="%s" xmlns:tns="%s"><e:Body><tns:%s>%s</tns:%s></e:Body></e:Envelope>'
                % (ns, TNS, method, _xml_args(args), method)).encode('utf8')
        return dict(method='POST', path='/', qs='', body=body,
                    content_type='text/xml; charset=utf-8' if kind == 'soap11' else 'application/soap+xml; charset=utf-8')
    if kind == 'xml':
        body = ('<tns:%s xmlns:tns="%s">%s</tns:%s>' % (method, TNS, _xml_args(args), method)).encode('utf8')
        return dict(method='POST', path='/', qs='', body=body, content_type='text/xml; charset=utf-8')
    if kind == 'json':
        body = json.dumps({method: {k: v for k, v in args if v is not None}}).encode('utf8')
        return dict(method='POST', path='/', qs='', body=body, content_type='application/json')
    if kind == 'yaml':
        import yaml
        body = yaml.safe_dump({method: {k: v for k, v in args if v is not None}}).encode('utf8')
        return dict(method='POST', path='/', qs='', body=body, content_type='text/yaml')
    if kind == 'msgpack':
        import msgpack
        def bk(d):
            return {k.encode(): (bk(v) if isinstance(v, dict) else v) for k, v in d.items()}
        body = msgpack.packb({method.encode(): bk({k: v for k, v in args if v is not None})}, use_bin_type=True)
        return dict(method='POST', path='/', qs='', body=body, content_type='application/x-msgpack')
    if kind == 'msgpackrpc':
        import msgpack
        body = msgpack.packb([0, 1, method, [([v[k2] for k2 in sorted(v)] if isinstance(v, dict) else v) for k, v in args]], use_bin_type=True)
        return dict(method='POST', path='/', qs='', body=body, content_type='application/x-msgpack')
    if kind in ('httprpc', 'httprpc-json'):
        pairs = []
        for k, v in args:
            if v is None:
                continue
            if isinstance(v, dict):
                for k2, v2 in sorted(v.items()):
                    pairs.append('%s.%s=%s' % (quote(k), quote(k2), quote(str(v2), safe='')))
            else:
                pairs.append('%s=%s' % (quote(k), quote(str(v), safe='')))
        return dict(method='GET', path='/' + method, qs='&'.join(pairs), body=b'', content_type=None)
    raise KeyError(kind)


def malformed_body(kind):
    if kind in ('soap11', 'soap12', 'xml'):
        return b'<tns:echo xmlns:tns="urn:vf:mini"><tns:n>1</tns:n>'
    if kind == 'json':
        return b'{"echo": {"n": 1'
    if kind == 'yaml':
        return b'echo: {n: [1'
    return b'\xc1\xc1\xc1'


def decode_fault(kind, body):
    """(code, string, detail-ish) or None if the body is not a fault document of
    the output protocol of configuration `kind`."""
    from lxml import etree
    if kind.endswith('+list'):
        # positional fault: [faultcode, faultstring, faultactor, detail]
        try:
            base = kind[:-5]
            if base == 'json':
                d = json.loads(body.decode('utf8'))
            elif base == 'yaml':
                import yaml
                d = yaml.safe_load(body.decode('utf8'))
            else:
                import msgpack
                d = msgpack.unpackb(body, raw=False)
        except Exception:
            return None
        if isinstance(d, (list, tuple)) and len(d) >= 2 and isinstance(d[0], (str, bytes)):
            code = d[0].decode() if isinstance(d[0], bytes) else d[0]
            if code.split('.')[0] in ('Client', 'Server') or '.' in code or code.isidentifier():
                return code, d[1], (d[3] if len(d) > 3 else None)
        return None
    try:
        if kind in ('soap11', 'soap12', 'xml'):
            root = etree.fromstring(body)
            if kind == 'soap11':
                f = root.find('{%s}Body/{%s}Fault' % (S11, S11))
                if f is None:
                    return None
                code = f.findtext('faultcode')
                if code is not None and ':' in code:
                    pfx, _, local = code.partition(':')
                    if f.nsmap.get(pfx) == S11 or root.nsmap.get(pfx) == S11:
                        code = local
                return code, f.findtext('faultstring'), f.find('detail')
            if kind == 'soap12':
                f = root.find('{%s}Body/{%s}Fault' % (S12, S12))
                if f is None:
                    return None
                codes = []
                c = f.find('{%s}Code' % S12)
                while c is not None:
                    v = c.findtext('{%s}Value' % S12)
                    codes.append(v.split(':')[-1] if v else v)
                    c = c.find('{%s}Subcode' % S12)
                if codes:
                    codes[0] = {'Sender': 'Client', 'Receiver': 'Server'}.get(codes[0], codes[0])
                reason = f.findtext('{%s}Reason/{%s}Text' % (S12, S12))
                return '.'.join(x for x in codes if x), reason, f.find('{%s}Detail' % S12)
            # XmlDocument: <Fault> element in spyne's fault namespace
            if etree.QName(root).localname != 'Fault':
                return None
            d = {etree.QName(c).localname: c for c in root}
            return (d['faultcode'].text if 'faultcode' in d else None,
                    d['faultstring'].text if 'faultstring' in d else None, d.get('detail'))
        if kind in ('json', 'httprpc-json'):
            d = json.loads(body.decode('utf8'))
        elif kind == 'yaml':
            import yaml
            d = yaml.safe_load(body.decode('utf8'))
        elif kind in ('msgpack',):
            import msgpack
            d = msgpack.unpackb(body, raw=False)
        elif kind == 'msgpackrpc':
            import msgpack
            d = msgpack.unpackb(body, raw=False)
            # error form: [3, msgid, faultdict]
            if isinstance(d, (list, tuple)) and len(d) == 3 and d[0] == 3 and isinstance(d[2], dict):
                d = d[2]
            else:
                return None
        else:
            return None
        if isinstance(d, dict) and len(d) == 1 and isinstance(list(d.values())[0], dict) \
                and 'faultcode' in list(d.values())[0]:
            d = list(d.values())[0]
        if isinstance(d, dict) and 'faultcode' in d:
            return d.get('faultcode'), d.get('faultstring'), d.get('detail')
        return None
    except Exception:
        return None
