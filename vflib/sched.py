"""Deterministic line-level thread scheduler on sys.monitoring (Python 3.12).

Worker threads run real requests; LINE events of the instrumented modules are
schedule points. Exactly one worker advances at a time; a schedule is a set of
preemptions {(thread, location, n-th occurrence in that thread) -> target
thread} plus forced switches when the running thread blocks on a cooperative
lock or finishes. The interleaving is a pure function of the plan, hence
replayable; a deadlock is decided logically (every unfinished worker disabled).
"""
import sys
import threading
import time
import types

mon = sys.monitoring
TOOL = 4
_installed = [False]
CURRENT = [None]          # the active Sched (or Stress) object
_codes = {}               # code object -> short location prefix


class SchedAbort(BaseException):
    """Unwinds workers when the controller gives up (deadlock / watchdog)."""


def codes_of_module(mod, only=None):
    out = []

    def walk(co):
        out.append(co)
        for c in co.co_consts:
            if isinstance(c, types.CodeType):
                walk(c)
    for name, v in list(vars(mod).items()):
        if isinstance(v, types.FunctionType) and v.__module__ == mod.__name__:
            if only is None or name in only:
                walk(v.__code__)
        elif isinstance(v, type) and v.__module__ == mod.__name__:
            for aname, a in list(vars(v).items()):
                f = getattr(a, '__func__', a)
                if isinstance(f, types.FunctionType):
                    if only is None or aname in only or ('%s.%s' % (name, aname)) in only:
                        walk(f.__code__)
                elif isinstance(a, property) and a.fget is not None:
                    if only is None:
                        walk(a.fget.__code__)
            call = getattr(v, '__call__', None)
    return out


def instrument(modules, partial=None):
    """Enable LINE events on every code object of `modules` (list of module
    objects). `partial`: {module: set of function names} for modules of which
    only some functions are schedule-point carriers."""
    if not _installed[0]:
        mon.use_tool_id(TOOL, 'vf-sched')
        mon.register_callback(TOOL, mon.events.LINE, _on_line)
        _installed[0] = True
    n = 0
    for m in modules:
        for co in codes_of_module(m):
            if co not in _codes:
                _codes[co] = '%s:%s' % (m.__name__.replace('spyne.', ''), getattr(co, 'co_qualname', co.co_name))
                mon.set_local_events(TOOL, co, mon.events.LINE)
                n += 1
    for m, names in (partial or {}).items():
        for co in codes_of_module(m, only=names):
            if co not in _codes:
                _codes[co] = '%s:%s' % (m.__name__.replace('spyne.', ''), getattr(co, 'co_qualname', co.co_name))
                mon.set_local_events(TOOL, co, mon.events.LINE)
                n += 1
    return n


def _on_line(code, line):
    s = CURRENT[0]
    if s is not None:
        s.on_line(code, line)


class CoopLock(object):
    """Scheduler-aware replacement of threading.Lock / RLock: a blocked acquire
    becomes a disabled thread instead of a deadlock of the harness."""

    def __init__(self, reentrant=False):
        self.reentrant = reentrant
        self.owner = None
        self.count = 0

    def acquire(self, blocking=True, timeout=-1):
        s = CURRENT[0]
        me = getattr(threading.current_thread(), '_vf_name', None)
        if s is None or me is None or not isinstance(s, Sched):
            # outside a scheduled run (application construction, oracle runs)
            self.owner = me or 'main'
            self.count += 1
            return True
        s.count_lock_op()
        while self.owner is not None and not (self.reentrant and self.owner == me):
            if not blocking:
                return False
            s.block(me, self)
        self.owner = me
        self.count += 1
        return True

    def release(self):
        self.count -= 1
        if self.count <= 0:
            self.count = 0
            self.owner = None
            s = CURRENT[0]
            if isinstance(s, Sched):
                s.unblock(self)

    def locked(self):
        return self.owner is not None

    def __enter__(self):
        self.acquire()
        return self

    def __exit__(self, *a):
        self.release()


class Sched(object):
    def __init__(self, names, plan=None, order=None, record=False):
        self.names = list(names)
        self.order = list(order or names)
        self.plan = dict(plan or {})
        self.cv = threading.Condition()
        self.state = {n: 'new' for n in names}     # new | ready | running | blocked | done
        self.waiting_on = {}
        self.current = None
        self.occ = {}
        self.record = [] if record else None
        self.switches = []
        self.abort = False
        self.deadlock = False
        self.steps = 0
        self.lock_ops = 0
        self.used = set()

    # ---- called from worker threads
    def start(self, me):
        with self.cv:
            self.state[me] = 'ready'
            self.cv.notify_all()
            while self.current != me:
                if self.abort:
                    raise SchedAbort()
                self.cv.wait(0.5)
            self.state[me] = 'running'

    def count_lock_op(self):
        self.lock_ops += 1

    def on_line(self, code, line):
        me = getattr(threading.current_thread(), '_vf_name', None)
        if me is None or self.current != me:
            return
        self.steps += 1
        loc = (_codes.get(code) or code.co_name, line)
        key = (me, loc)
        n = self.occ[key] = self.occ.get(key, 0) + 1
        if self.record is not None:
            if any(self.state[o] == 'ready' for o in self.names if o != me):
                self.record.append((me, loc[0], loc[1], n))
        if self.plan:
            tgt = self.plan.get((me, loc[0], loc[1], n))
            if tgt is not None:
                self.used.add((me, loc[0], loc[1], n))
                if self.state.get(tgt) == 'ready':
                    self._switch(me, tgt, 'ready', ('preempt', loc[0], loc[1], n))

    def _switch(self, me, tgt, mystate, why):
        with self.cv:
            self.state[me] = mystate
            self.switches.append((me, tgt, why))
            self.current = tgt
            self.cv.notify_all()
            if mystate == 'done':
                return
            while self.current != me:
                if self.abort:
                    raise SchedAbort()
                self.cv.wait(0.5)
            self.state[me] = 'running'

    def _next_ready(self, me):
        for n in self.order:
            if n != me and self.state[n] == 'ready':
                return n
        return None

    def block(self, me, lock):
        nxt = self._next_ready(me)
        if nxt is None:
            # every unfinished worker is disabled: logical deadlock
            with self.cv:
                self.deadlock = True
                self.abort = True
                self.cv.notify_all()
            raise SchedAbort()
        self.waiting_on[me] = lock
        self._switch(me, nxt, 'blocked', ('block',))

    def unblock(self, lock):
        for n, l in list(self.waiting_on.items()):
            if l is lock and self.state[n] == 'blocked':
                self.state[n] = 'ready'
                del self.waiting_on[n]

    def finish(self, me):
        with self.cv:
            self.state[me] = 'done'
            nxt = self._next_ready(me)
            if nxt is None and any(s == 'blocked' for s in self.state.values()):
                self.deadlock = True
                self.abort = True
            self.switches.append((me, nxt, ('exit',)))
            self.current = nxt
            self.cv.notify_all()

    def signature(self):
        return tuple((a, b, w[0]) + tuple(w[1:]) for a, b, w in self.switches)


def run_threads(sched, jobs, watchdog=20.0):
    """jobs: {name: callable()} ; returns {name: result or ('EXC', repr)}, status"""
    results = {}

    def worker(name, fn):
        t = threading.current_thread()
        t._vf_name = name
        try:
            sched.start(name)
            results[name] = fn()
        except SchedAbort:
            results[name] = ('ABORTED',)
        except BaseException as e:   # noqa
            results[name] = ('EXC', type(e).__name__, str(e)[:200])
        finally:
            try:
                sched.finish(name)
            except Exception:
                pass

    CURRENT[0] = sched
    ths = [threading.Thread(target=worker, args=(n, f), name=n, daemon=True) for n, f in jobs.items()]
    for t in ths:
        t.start()
    t0 = time.time()
    with sched.cv:
        while any(v == 'new' for v in sched.state.values()):
            sched.cv.wait(0.2)
            if time.time() - t0 > watchdog:
                break
        sched.current = sched.order[0]
        sched.cv.notify_all()
    status = 'ok'
    for t in ths:
        t.join(max(0.1, watchdog - (time.time() - t0)))
        if t.is_alive():
            status = 'stuck'
    if status == 'stuck':
        with sched.cv:
            sched.abort = True
            sched.cv.notify_all()
        for t in ths:
            t.join(2)
    CURRENT[0] = None
    if sched.deadlock:
        status = 'deadlock'
    return results, status


class Stress(object):
    """Free-running mode: real threads, tiny switch interval, random yields
    injected from LINE callbacks over the instrumented code."""

    def __init__(self, rng, p_yield=0.02):
        self.rng = rng
        self.p = p_yield
        self.yields = 0
        self.lines = 0
        self._lock = threading.Lock()
        self._rand = [rng.random() for _ in range(4096)]
        self._i = 0

    def on_line(self, code, line):
        i = self._i = (self._i + 1) & 4095
        self.lines += 1
        if self._rand[i] < self.p:
            self.yields += 1
            time.sleep(0)


def run_stress(stress, jobs, watchdog=60.0):
    results = {}
    barrier = threading.Barrier(len(jobs))

    def worker(name, fn):
        try:
            barrier.wait(10)
            results[name] = fn()
        except BaseException as e:   # noqa
            results[name] = ('EXC', type(e).__name__, str(e)[:200])
    old = sys.getswitchinterval()
    sys.setswitchinterval(1e-6)
    CURRENT[0] = stress
    ths = [threading.Thread(target=worker, args=(n, f), name=n, daemon=True) for n, f in jobs.items()]
    for t in ths:
        t.start()
    status = 'ok'
    t0 = time.time()
    for t in ths:
        t.join(max(0.1, watchdog - (time.time() - t0)))
        if t.is_alive():
            status = 'stuck'
    CURRENT[0] = None
    sys.setswitchinterval(old)
    return results, status
