"""Harness self-tests run by setup: the reference models must agree with
independent opinions (libxml2) on a fixed mini-corpus before they are trusted."""


def main():
    from vflib import core
    core.bootstrap()
    failures = 0
    try:
        from vflib import lex
        failures += lex.selftest()
    except ImportError:
        pass
    print('selftest failures:', failures)
    return 1 if failures else 0
