"""Reference model of the XSD lexical spaces used by spyne's primitives.

Written from XML Schema Part 2 (datatypes); shares no code with spyne.
 * recognise(xs, text): is `text` a literal of xs:<xs>?
 * parse(xs, text): the Python value an XSD literal denotes (None if the value
   is not representable by the Python native type spyne uses).
 * libxml2 (through a schema spyne itself published, or a hand-written one) is
   the second, independent opinion: `Libxml2Lexical`.
 * literal generators that walk the XSD grammars and return (literal, value).
"""
import base64
import binascii
import datetime
import decimal
import math
import re
import uuid

from lxml import etree

XS = 'http://www.w3.org/2001/XMLSchema'
D = decimal.Decimal

INT_BOUNDS = {
    'byte': (-2 ** 7, 2 ** 7 - 1), 'short': (-2 ** 15, 2 ** 15 - 1),
    'int': (-2 ** 31, 2 ** 31 - 1), 'long': (-2 ** 63, 2 ** 63 - 1),
    'unsignedByte': (0, 2 ** 8 - 1), 'unsignedShort': (0, 2 ** 16 - 1),
    'unsignedInt': (0, 2 ** 32 - 1), 'unsignedLong': (0, 2 ** 64 - 1),
    'integer': (None, None), 'nonNegativeInteger': (0, None),
    'positiveInteger': (1, None), 'negativeInteger': (None, -1),
    'nonPositiveInteger': (None, 0),
}

_re_int = re.compile(r'[+-]?[0-9]+\Z')
_re_dec = re.compile(r'[+-]?([0-9]+(\.[0-9]*)?|\.[0-9]+)\Z')
_re_dbl = re.compile(r'([+-]?([0-9]+(\.[0-9]*)?|\.[0-9]+)([eE][+-]?[0-9]+)?|[+-]?INF|NaN)\Z')
_tz = r'(?P<tz>Z|[+-](?:(?:0[0-9]|1[0-3]):[0-5][0-9]|14:00))?'
_re_dt = re.compile(r'(?P<sign>-?)(?P<Y>[0-9]{4,})-(?P<m>[0-9]{2})-(?P<d>[0-9]{2})T'
                    r'(?P<H>[0-9]{2}):(?P<M>[0-9]{2}):(?P<S>[0-9]{2})(?P<f>\.[0-9]+)?' + _tz + r'\Z')
_re_date = re.compile(r'(?P<sign>-?)(?P<Y>[0-9]{4,})-(?P<m>[0-9]{2})-(?P<d>[0-9]{2})' + _tz + r'\Z')
_re_time = re.compile(r'(?P<H>[0-9]{2}):(?P<M>[0-9]{2}):(?P<S>[0-9]{2})(?P<f>\.[0-9]+)?' + _tz + r'\Z')
_re_dur = re.compile(r'(?P<sign>-?)P(?:(?P<Y>[0-9]+)Y)?(?:(?P<Mo>[0-9]+)M)?(?:(?P<D>[0-9]+)D)?'
                     r'(?P<T>T(?:(?P<H>[0-9]+)H)?(?:(?P<Mi>[0-9]+)M)?(?:(?P<S>[0-9]+)(?:\.(?P<f>[0-9]+))?S)?)?\Z')
_re_b64 = re.compile(r'(([A-Za-z0-9+/] ?){4})*(([A-Za-z0-9+/] ?){3}[A-Za-z0-9+/]|'
                     r'([A-Za-z0-9+/] ?){2}[AEIMQUYcgkosw048] ?=|[A-Za-z0-9+/] ?[AQgw] ?= ?=)?\Z')
_re_hex = re.compile(r'([0-9a-fA-F]{2})*\Z')
_re_uuid = re.compile(r'[a-fA-F0-9]{8}-[a-fA-F0-9]{4}-[a-fA-F0-9]{4}-[a-fA-F0-9]{4}-[a-fA-F0-9]{12}\Z')


def xml_char_ok(s):
    for ch in s:
        o = ord(ch)
        if not (o in (9, 10, 13) or 0x20 <= o <= 0xD7FF or 0xE000 <= o <= 0xFFFD
                or 0x10000 <= o <= 0x10FFFF):
            return False
    return True


def _tz_of(m):
    t = m.group('tz')
    if t is None:
        return None
    if t == 'Z':
        return datetime.timezone.utc
    sign = -1 if t[0] == '-' else 1
    return datetime.timezone(sign * datetime.timedelta(hours=int(t[1:3]), minutes=int(t[4:6])))


def _frac_us(f):
    """'.123' -> microseconds, or None when not representable exactly."""
    if not f:
        return 0
    digits = f[1:] if f.startswith('.') else f
    if len(digits) > 6:
        if digits[6:].strip('0'):
            return None
        digits = digits[:6]
    return int(digits.ljust(6, '0'))


def recognise(xs, text):
    """True iff `text` is in the lexical space of xs:<xs> (XSD 1.0, after no
    whitespace normalisation: surrounding blanks are not accepted here)."""
    if not isinstance(text, str):
        return False
    if xs in INT_BOUNDS:
        if not _re_int.match(text):
            return False
        lo, hi = INT_BOUNDS[xs]
        v = int(text)
        return (lo is None or v >= lo) and (hi is None or v <= hi)
    if xs == 'decimal':
        return bool(_re_dec.match(text))
    if xs in ('double', 'float'):
        return bool(_re_dbl.match(text)) and text not in ('+NaN', '-NaN')
    if xs == 'boolean':
        return text in ('true', 'false', '1', '0')
    if xs == 'string':
        return xml_char_ok(text)
    if xs == 'anyURI':
        return xml_char_ok(text)
    if xs == 'dateTime':
        m = _re_dt.match(text)
        if not m:
            return False
        return _fields_ok(m, True, True)
    if xs == 'date':
        m = _re_date.match(text)
        return bool(m) and _fields_ok(m, True, False)
    if xs == 'time':
        m = _re_time.match(text)
        return bool(m) and _fields_ok(m, False, True)
    if xs == 'duration':
        m = _re_dur.match(text)
        if not m:
            return False
        if not any(m.group(g) is not None for g in ('Y', 'Mo', 'D', 'H', 'Mi', 'S')):
            return False
        if m.group('T') is not None and not any(m.group(g) is not None for g in ('H', 'Mi', 'S')):
            return False
        return True
    if xs == 'base64Binary':
        return bool(_re_b64.match(text))
    if xs == 'hexBinary':
        return bool(_re_hex.match(text))
    if xs == 'uuid':
        return bool(_re_uuid.match(text))
    raise KeyError(xs)


def _fields_ok(m, has_date, has_time):
    gd = m.groupdict()
    if has_date:
        y = int(gd['Y'])
        if y == 0 or (len(gd['Y']) > 4 and gd['Y'][0] == '0'):
            return False
        mo, d = int(gd['m']), int(gd['d'])
        if not 1 <= mo <= 12:
            return False
        try:
            datetime.date(min(max(y, 1), 9999) if y % 400 else 2000, mo, d) if y <= 9999 else \
                datetime.date(2000 + (y % 400), mo, d)
        except ValueError:
            return False
    if has_time:
        H, M, S = int(gd['H']), int(gd['M']), int(gd['S'])
        if H == 24:
            return M == 0 and S == 0 and not (gd.get('f') or '').strip('.0')
        if H > 23 or M > 59 or S > 59:
            return False
    return True


def parse(xs, text):
    """Value denoted by the XSD literal, in spyne's native Python types; raises
    ValueError when not a literal; returns NotRepresentable when the value has
    no exact native representation."""
    if not recognise(xs, text):
        raise ValueError('not an xs:%s literal: %r' % (xs, text))
    if xs in INT_BOUNDS:
        return int(text)
    if xs == 'decimal':
        return D(text if not text.endswith('.') else text + '0')
    if xs in ('double', 'float'):
        if text in ('INF', '+INF'):
            return float('inf')
        if text == '-INF':
            return float('-inf')
        if text == 'NaN':
            return float('nan')
        return float(text)
    if xs == 'boolean':
        return text in ('true', '1')
    if xs in ('string', 'anyURI'):
        return text
    if xs == 'dateTime':
        m = _re_dt.match(text)
        if m.group('sign') or int(m.group('Y')) > 9999:
            return NotRepresentable
        us = _frac_us(m.group('f'))
        if us is None:
            return NotRepresentable
        H = int(m.group('H'))
        try:
            v = datetime.datetime(int(m.group('Y')), int(m.group('m')), int(m.group('d')),
                                  0 if H == 24 else H, int(m.group('M')), int(m.group('S')), us,
                                  _tz_of(m))
            if H == 24:
                v += datetime.timedelta(days=1)
        except (ValueError, OverflowError):
            return NotRepresentable
        return v
    if xs == 'date':
        m = _re_date.match(text)
        if m.group('sign') or int(m.group('Y')) > 9999 or m.group('tz'):
            return NotRepresentable
        return datetime.date(int(m.group('Y')), int(m.group('m')), int(m.group('d')))
    if xs == 'time':
        m = _re_time.match(text)
        us = _frac_us(m.group('f'))
        if us is None:
            return NotRepresentable
        H = int(m.group('H'))
        tz = m.group('tz')
        tzinfo = None
        if tz == 'Z':
            tzinfo = datetime.timezone.utc
        elif tz:
            mins = int(tz[1:3]) * 60 + int(tz[4:6])
            tzinfo = datetime.timezone(datetime.timedelta(minutes=-mins if tz[0] == '-' else mins))
        return datetime.time(0 if H == 24 else H, int(m.group('M')), int(m.group('S')), us, tzinfo=tzinfo)
    if xs == 'duration':
        m = _re_dur.match(text)
        if int(m.group('Y') or 0) or int(m.group('Mo') or 0):
            return NotRepresentable
        f = m.group('f')
        us = _frac_us(f) if f else 0
        if us is None:
            return NotRepresentable
        try:
            v = datetime.timedelta(days=int(m.group('D') or 0), hours=int(m.group('H') or 0),
                                   minutes=int(m.group('Mi') or 0), seconds=int(m.group('S') or 0),
                                   microseconds=us)
        except OverflowError:
            return NotRepresentable
        return -v if m.group('sign') else v
    if xs == 'base64Binary':
        return base64.b64decode(text.replace(' ', ''))
    if xs == 'hexBinary':
        return binascii.unhexlify(text)
    if xs == 'uuid':
        return uuid.UUID(text)
    raise KeyError(xs)


class _NR:
    def __repr__(self):
        return 'NotRepresentable'


NotRepresentable = _NR()


# --------------------------------------------------------------- equality

def same_offset(a, b):
    return (a.utcoffset() if a.tzinfo else None) == (b.utcoffset() if b.tzinfo else None)


def equal(xs, a, b):
    """Per-type equality of the statement (numeric value; instant AND offset;
    exact bytes; exact text; timedelta to the microsecond)."""
    if a is None or b is None:
        return a is None and b is None
    try:
        if xs in INT_BOUNDS:
            return (isinstance(a, int) and isinstance(b, int) and not isinstance(a, bool)
                    and not isinstance(b, bool) and a == b)
        if xs == 'decimal':
            return isinstance(b, (D, int)) and not isinstance(b, bool) and D(a) == D(b)
        if xs in ('double', 'float'):
            if not isinstance(b, (float, int)) or isinstance(b, bool):
                return False
            if isinstance(a, float) and math.isnan(a):
                return isinstance(b, float) and math.isnan(b)
            return float(a) == float(b)
        if xs == 'boolean':
            return type(a) is bool and type(b) is bool and a == b
        if xs in ('string', 'anyURI'):
            return isinstance(b, str) and a == b
        if xs == 'dateTime':
            if not isinstance(b, datetime.datetime):
                return False
            if (a.tzinfo is None) != (b.tzinfo is None):
                return False
            if a.tzinfo is None:
                return a == b
            return a == b and a.utcoffset() == b.utcoffset()
        if xs == 'date':
            return type(b) is datetime.date and a == b
        if xs == 'time':
            return isinstance(b, datetime.time) and a.replace(tzinfo=None) == b.replace(tzinfo=None) and a.utcoffset() == b.utcoffset()
        if xs == 'duration':
            return isinstance(b, datetime.timedelta) and a == b
        if xs in ('base64Binary', 'hexBinary', 'bytes'):
            return tobytes(a) == tobytes(b)
        if xs == 'uuid':
            return isinstance(b, uuid.UUID) and a == b
    except Exception:
        return False
    raise KeyError(xs)


def tobytes(v):
    if isinstance(v, (bytes, bytearray, memoryview)):
        return bytes(v)
    if isinstance(v, (list, tuple)):
        return b''.join(bytes(x) for x in v)
    raise TypeError(type(v))


# --------------------------------------------------------------- libxml2

class Libxml2Lexical:
    """libxml2's schema validator as an independent lexical recogniser.
    `type_qname` is looked up in a schema we write ourselves (builtins, and
    the uuid pattern type copied from the schema spyne publishes is NOT used
    here: callers pass a compiled XMLSchema for published types)."""

    _cache = {}

    @classmethod
    def builtin(cls, xs):
        s = cls._cache.get(xs)
        if s is None:
            doc = ('<xs:schema xmlns:xs="%s"><xs:element name="r"><xs:complexType><xs:sequence>'
                   '<xs:element name="l" type="xs:%s" minOccurs="0" maxOccurs="unbounded"/>'
                   '</xs:sequence></xs:complexType></xs:element></xs:schema>' % (XS, xs))
            s = cls._cache[xs] = etree.XMLSchema(etree.fromstring(doc))
        return s

    @classmethod
    def accepts(cls, xs, literals, schema=None, wrap=None):
        """Return list of booleans, one per literal. Literals that XML cannot
        carry at all yield None (no opinion)."""
        schema = schema or cls.builtin(xs)
        out = []
        for lit in literals:
            if not isinstance(lit, str) or not xml_char_ok(lit):
                out.append(None)
                continue
            r = etree.Element('r')
            e = etree.SubElement(r, 'l')
            e.text = lit
            out.append(bool(schema.validate(r)))
        return out


# --------------------------------------------------------------- generators

def _digits(rng, n):
    return ''.join(rng.choice('0123456789') for _ in range(n))


def all_offsets():
    """All 1681 offsets -14:00..+14:00 in minutes."""
    return list(range(-14 * 60, 14 * 60 + 1))


def fmt_offset(minutes):
    sign = '-' if minutes < 0 else '+'
    a = abs(minutes)
    return '%s%02d:%02d' % (sign, a // 60, a % 60)


def gen_int_literals(xs, rng, n):
    lo, hi = INT_BOUNDS[xs]
    out = []
    vals = []
    for b in (lo, hi):
        if b is not None:
            vals += [b, b - 1, b + 1]
    vals += [0, 1, -1, 2 ** 63, -2 ** 63, 2 ** 64, 2 ** 70, -2 ** 70, 10 ** 40]
    for _ in range(n):
        vals.append(rng.randint(-2 ** rng.choice((4, 8, 16, 33, 65, 90)), 2 ** rng.choice((4, 8, 16, 33, 65, 90))))
    for v in vals:
        if (lo is not None and v < lo) or (hi is not None and v > hi):
            continue
        forms = [str(v)]
        if v >= 0:
            forms.append('+' + str(v))
        forms.append(('-' if v < 0 else '') + '00' + str(abs(v)))
        if v == 0:
            forms.append('-0')
        for f in forms:
            out.append((f, v))
    return out


def gen_decimal_literals(rng, n):
    out = [('0', D(0)), ('.5', D('0.5')), ('5.', D(5)), ('+1.0', D(1)), ('-0.0', D(0)),
           ('-.25', D('-0.25')), ('000.100', D('0.1')), ('1' + '0' * 40, D(10) ** 40),
           ('0.' + '0' * 30 + '1', D(10) ** -31), ('+007', D(7)), ('-12.', D(-12))]
    for _ in range(n):
        ip = _digits(rng, rng.randint(0, 25))
        fp = _digits(rng, rng.randint(0 if ip else 1, 20))
        sign = rng.choice(('', '+', '-'))
        dot = rng.random() < 0.8 or not ip
        lit = sign + ip + ('.' + fp if dot else '')
        if not dot:
            fp = ''
        if not _re_dec.match(lit):
            continue
        out.append((lit, D((sign if sign == '-' else '') + (ip or '0') + '.' + (fp or '0'))))
    return out


def gen_double_literals(rng, n):
    out = [('INF', float('inf')), ('-INF', float('-inf')), ('NaN', float('nan')), ('0', 0.0),
           ('-0', -0.0), ('1E5', 1e5), ('1e5', 1e5), ('.5e-3', .5e-3), ('5.', 5.0),
           ('+1.5E+3', 1500.0), ('4.9E-324', 4.9e-324), ('1.7976931348623157E308', 1.7976931348623157e308),
           ('-2.2250738585072014e-308', -2.2250738585072014e-308), ('12', 12.0), ('1E0', 1.0)]
    for _ in range(n):
        ip = _digits(rng, rng.randint(0, 12))
        fp = _digits(rng, rng.randint(0 if ip else 1, 12))
        sign = rng.choice(('', '+', '-'))
        lit = sign + ip + ('.' + fp if (fp or not ip or rng.random() < .3) else '')
        if rng.random() < .5:
            lit += rng.choice('eE') + rng.choice(('', '+', '-')) + str(rng.randint(0, 300))
        if not _re_dbl.match(lit):
            continue
        try:
            out.append((lit, float(lit)))
        except ValueError:
            pass
    return out


def gen_datetime_values(rng, n, offsets=None):
    out = []
    for _ in range(n):
        y = rng.choice((1, 2, 999, 1000, 1582, 1899, 1900, 1969, 1970, 2000, 2024, 2038, 9998, 9999,
                        rng.randint(1, 9999)))
        mo = rng.randint(1, 12)
        d = rng.randint(1, 28) if rng.random() < .8 else min(31, [31, 29 if (y % 4 == 0 and (y % 100 or y % 400 == 0)) else 28, 31, 30, 31, 30, 31, 31, 30, 31, 30, 31][mo - 1])
        us = rng.choice((0, 1, 5, 10, 100, 1000, 10000, 100000, 999999, 500000, 123456, 120000, 7,
                         rng.randint(0, 999999)))
        off = None
        r = rng.random()
        if offsets is not None:
            off = rng.choice(offsets)
        elif r < .7:
            off = rng.randint(-840, 840)
        tz = None if off is None else datetime.timezone(datetime.timedelta(minutes=off))
        try:
            v = datetime.datetime(y, mo, d, rng.choice((0, 23, rng.randint(0, 23))), rng.randint(0, 59),
                                  rng.choice((0, 59, rng.randint(0, 59))), us, tz)
            if tz is not None:
                v.utctimetuple()
                (v - datetime.timedelta(minutes=off))  # must be representable in UTC too
                v.astimezone(datetime.timezone.utc)
        except (ValueError, OverflowError):
            continue
        out.append(v)
    return out


def frac_forms(us, rng):
    """lexical spellings of a microsecond value as the fractional-second part."""
    if us == 0:
        return ['', '.0', '.000000', '.0000000000']
    s = '%06d' % us
    base = s.rstrip('0')
    return ['.' + base, '.' + s, '.' + s + '000']


def gen_datetime_literals(rng, n):
    out = []
    for v in gen_datetime_values(rng, n):
        for fr in frac_forms(v.microsecond, rng):
            body = '%04d-%02d-%02dT%02d:%02d:%02d%s' % (v.year, v.month, v.day, v.hour, v.minute, v.second, fr)
            if v.tzinfo is None:
                out.append((body, v))
            else:
                off = int(v.utcoffset().total_seconds() // 60)
                out.append((body + fmt_offset(off), v))
                if off == 0:
                    out.append((body + 'Z', v))
                    out.append((body + '-00:00', v))
    # 24:00:00
    out.append(('2020-02-28T24:00:00', datetime.datetime(2020, 2, 29)))
    out.append(('2019-12-31T24:00:00Z', datetime.datetime(2020, 1, 1, tzinfo=datetime.timezone.utc)))
    return out


def gen_time_values(rng, n):
    out = [datetime.time(0, 0, 0), datetime.time(23, 59, 59, 999999), datetime.time(12, 0, 0, 1),
           datetime.time(1, 2, 3, 100000), datetime.time(1, 2, 3, 120),
           datetime.time(1, 2, 3, 4, tzinfo=datetime.timezone(datetime.timedelta(hours=3))),
           datetime.time(12, 0, 0, tzinfo=datetime.timezone.utc)]
    for _ in range(n):
        out.append(datetime.time(rng.randint(0, 23), rng.randint(0, 59), rng.randint(0, 59),
                                 rng.choice((0, 1, 10, 500000, 999999, rng.randint(0, 999999)))))
    return out


def gen_time_literals(rng, n):
    out = []
    for v in gen_time_values(rng, n):
        if v.tzinfo is not None:
            continue          # (zoned literals are listed below)
        for fr in frac_forms(v.microsecond, rng):
            out.append(('%02d:%02d:%02d%s' % (v.hour, v.minute, v.second, fr), v))
    out.append(('24:00:00', datetime.time(0, 0, 0)))
    # xs:time may carry a time zone
    for lit, off in (('12:00:00Z', 0), ('01:02:03.5+05:30', 330), ('23:59:59-00:30', -30), ('00:00:00+14:00', 840)):
        h, m, sec = lit[:8].split(':')
        us = 500000 if '.5' in lit else 0
        out.append((lit, datetime.time(int(h), int(m), int(sec), us, tzinfo=datetime.timezone(datetime.timedelta(minutes=off)))))
    return out


def gen_date_values(rng, n):
    out = [datetime.date(1, 1, 1), datetime.date(9999, 12, 31), datetime.date(2000, 2, 29),
           datetime.date(1900, 2, 28), datetime.date(999, 12, 31), datetime.date(1970, 1, 1)]
    for _ in range(n):
        try:
            out.append(datetime.date(rng.randint(1, 9999), rng.randint(1, 12), rng.randint(1, 31)))
        except ValueError:
            pass
    return out


def gen_duration_values(rng, n):
    td = datetime.timedelta
    out = [td(0), td(microseconds=1), td(microseconds=5), td(microseconds=50), td(microseconds=500000),
           td(microseconds=999999), td(seconds=1), td(seconds=59, microseconds=999999), td(minutes=1),
           td(hours=1), td(days=1), td(days=1, seconds=5, microseconds=5), td(hours=36),
           td(days=10 ** 6), td(days=2, hours=3, minutes=4, seconds=5, microseconds=60),
           td(seconds=61), td(seconds=3600), td(seconds=86399), td(days=1, microseconds=1),
           td(microseconds=100000), td(microseconds=120000), td(seconds=10), td(seconds=20, microseconds=10)]
    for _ in range(n):
        parts = {}
        for k, hi in (('days', rng.choice((3, 400, 10 ** 5))), ('hours', 23), ('minutes', 59), ('seconds', 59),
                      ('microseconds', 999999)):
            if rng.random() < .5:
                parts[k] = rng.choice((1, hi, rng.randint(0, hi)))
        if parts.get('microseconds') and rng.random() < .5:
            parts['microseconds'] = rng.choice((1, 10, 100, 1000, 10000, 100000, 20, 300, 4000, 50000))
        out.append(td(**parts))
    out += [-v for v in out if v]
    return out


def gen_duration_literals(rng, n):
    """(literal, timedelta) from the XSD grammar, day/time components only."""
    td = datetime.timedelta
    out = [('P0D', td(0)), ('PT0S', td(0)), ('P1D', td(days=1)), ('PT36H', td(hours=36)),
           ('PT90M', td(minutes=90)), ('PT3600S', td(hours=1)), ('P1DT5.000005S', td(days=1, seconds=5, microseconds=5)),
           ('PT0.5S', td(microseconds=500000)), ('PT0.000001S', td(microseconds=1)), ('-PT1S', td(seconds=-1)),
           ('-P1DT1H', -td(days=1, hours=1)), ('P0DT0H0M0S', td(0)), ('PT1.50S', td(seconds=1, microseconds=500000)),
           ('PT001S', td(seconds=1)), ('P10DT10H10M10.10S', td(days=10, hours=10, minutes=10, seconds=10, microseconds=100000)),
           ('PT0.000010S', td(microseconds=10)), ('PT59.999999S', td(seconds=59, microseconds=999999)),
           ('P0Y0M1D', td(days=1)), ('PT1M', td(minutes=1)), ('P1DT1M', td(days=1, minutes=1))]
    for _ in range(n):
        comps = []
        val = td(0)
        neg = rng.random() < .3
        lit = 'P'
        if rng.random() < .5:
            d = rng.randint(0, 500)
            lit += '%dD' % d
            val += td(days=d)
            comps.append('D')
        tpart = ''
        if rng.random() < .6:
            h = rng.randint(0, 50)
            tpart += '%dH' % h
            val += td(hours=h)
        if rng.random() < .6:
            mi = rng.randint(0, 100)
            tpart += '%dM' % mi
            val += td(minutes=mi)
        if rng.random() < .7:
            s = rng.randint(0, 100)
            us = rng.choice((None, 0, 1, 5, 50, 500000, 999999, 120000, rng.randint(0, 999999)))
            if us is None:
                tpart += '%dS' % s
            else:
                fr = rng.choice(frac_forms(us, rng)) or '.0'
                tpart += '%d%sS' % (s, fr)
                val += td(microseconds=us)
            val += td(seconds=s)
        if tpart:
            lit += 'T' + tpart
        if lit == 'P':
            continue
        out.append((('-' if neg else '') + lit, -val if neg else val))
    return out


def gen_text(rng, n, alphabet='xml'):
    pool = ['', ' ', 'a', ' lead', 'trail ', 'tab\there', 'nl\nhere', 'cr\rhere', '<&>"\'', ']]>',
            'éüış', '中文', '\U0001F600', '퟿', '', '�',
            'a' * 40, '0', 'null', 'None', '  ', ' ', '%20+', 'a=b&c=d', 'x;y', '{}', '[]',
            '\x85', ' ']
    out = list(pool)
    for _ in range(n):
        ln = rng.randint(0, 40)
        s = ''.join(chr(rng.choice((rng.randint(0x20, 0x7e), rng.randint(0xa0, 0x2ff),
                                    rng.randint(0x4e00, 0x4eff), rng.randint(0x1f600, 0x1f64f),
                                    rng.choice((9, 10, 13, 0x20, 0x26, 0x3c)))))
                    for _ in range(ln))
        out.append(s)
    if alphabet != 'xml':
        out += ['\x00', '\x01\x02', '\x0b', '\x7f', '￾', '￿']
    return out


def gen_bytes(rng, n):
    out = [b'', b'\x00', b'\xff', b'\x00\x01', b'\x00\x01\x02', b'\x00\x01\x02\x03', b'\xfb\xff\xbf',
           b'>>>???', bytes(range(256))]
    for _ in range(n):
        out.append(bytes(rng.getrandbits(8) for _ in range(rng.randint(0, 70))))
    return out


# --------------------------------------------------------------- self test

def selftest():
    """Own recognisers vs libxml2 on a fixed mini-corpus; the generated
    (literal, value) pairs must be recognised and parsed back by `parse`."""
    import random
    rng = random.Random(7)
    fails = 0
    corpus = {
        'integer': ['0', '-0', '+5', '005', '1.0', '', ' 5', 'abc', '1e5', '--1'],
        'unsignedByte': ['0', '255', '256', '-1', '+255', '0255'],
        'int': ['2147483647', '2147483648', '-2147483648', '-2147483649'],
        'decimal': ['.5', '5.', '+1.0', '1e5', '.', '', '1,5', '-.0'],
        'double': ['INF', '-INF', 'NaN', 'inf', 'nan', '1e5', '1E+5', '.', 'e5', '1e', '+INF', 'Infinity'],
        'boolean': ['true', 'false', '1', '0', 'True', 'TRUE', 'yes', ''],
        'dateTime': ['2020-01-02T03:04:05', '2020-01-02T03:04:05Z', '2020-01-02T03:04:05.5+14:00',
                     '2020-01-02T03:04:05+14:01', '2020-13-02T03:04:05', '2020-01-02T24:00:00',
                     '2020-01-02T24:00:01', '2020-01-02 03:04:05', '20-01-02T03:04:05', '2020-02-30T00:00:00',
                     '2020-01-02T03:04:05.', '2020-01-02T03:04:05-00:00', '0000-01-02T03:04:05'],
        'date': ['2020-01-02', '2020-01-02Z', '2020-01-02+05:30', '2020-1-2', '2020-02-30', '02/01/2020'],
        'time': ['03:04:05', '03:04:05.123', '3:4:5', '25:00:00', '24:00:00', '03:04:05Z', '03:04'],
        'duration': ['P1D', 'PT1S', 'P', 'PT', 'P1DT', '-P1D', 'P-1D', 'PT0.5S', 'PT.5S', 'PT5.S', 'P1Y2M', '1D',
                     'PT1H1S', 'P1M', 'PT1M', 'P1S', 'PT0.000001S'],
        'base64Binary': ['', 'AA==', 'AAA=', 'AAAA', 'A', 'AA=', 'AA', '====', 'AAAA AAAA', 'A-_A', 'AB=='],
        'hexBinary': ['', '00', '0', 'ff', 'FF', 'fg', '0 0'],
    }
    for xs, lits in corpus.items():
        lv = Libxml2Lexical.accepts(xs, lits)
        for lit, l in zip(lits, lv):
            own = recognise(xs, lit)
            if l is not None and own != l:
                # XSD 1.1 additions libxml2 may or may not implement are not
                # used by any generator; report disagreement.
                # whitespace collapse is pre-lexical; libxml2 is lenient on a
                # bare exponent marker and on an empty integer/fraction part of
                # duration seconds. None of these is produced by a generator.
                if (xs, lit) in (('double', '+INF'), ('integer', ' 5'), ('double', '1e'),
                                 ('duration', 'PT.5S'), ('duration', 'PT5.S')):
                    continue
                print('selftest: recogniser/libxml2 disagree', xs, repr(lit), own, l)
                fails += 1
    gens = {
        'integer': gen_int_literals('integer', rng, 50), 'byte': gen_int_literals('byte', rng, 20),
        'unsignedLong': gen_int_literals('unsignedLong', rng, 20),
        'decimal': gen_decimal_literals(rng, 200), 'double': gen_double_literals(rng, 200),
        'dateTime': gen_datetime_literals(rng, 200), 'time': gen_time_literals(rng, 100),
        'duration': gen_duration_literals(rng, 200),
    }
    for xs, pairs in gens.items():
        lv = Libxml2Lexical.accepts(xs, [p[0] for p in pairs])
        for (lit, val), l in zip(pairs, lv):
            if not recognise(xs, lit) or l is False:
                print('selftest: generated literal not in lexical space', xs, repr(lit), l)
                fails += 1
                continue
            got = parse(xs, lit)
            if got is NotRepresentable or not equal(xs, val, got):
                print('selftest: generated literal/value mismatch', xs, repr(lit), val, got)
                fails += 1
    return fails


# --------------------------------------------------------------- reference printers

def print_xs(xs, v):
    """Canonical-ish XSD literal for a native value (reference encoder side)."""
    if xs in INT_BOUNDS:
        return str(int(v))
    if xs == 'decimal':
        return format(D(v), 'f')
    if xs in ('double', 'float'):
        if v != v:
            return 'NaN'
        if v in (float('inf'), float('-inf')):
            return 'INF' if v > 0 else '-INF'
        return repr(float(v))
    if xs == 'boolean':
        return 'true' if v else 'false'
    if xs in ('string', 'anyURI'):
        return v
    if xs == 'dateTime':
        s = '%04d-%02d-%02dT%02d:%02d:%02d' % (v.year, v.month, v.day, v.hour, v.minute, v.second)
        if v.microsecond:
            s += ('.%06d' % v.microsecond).rstrip('0')
        if v.tzinfo is not None:
            off = int(v.utcoffset().total_seconds() // 60)
            s += 'Z' if off == 0 else fmt_offset(off)
        return s
    if xs == 'date':
        return '%04d-%02d-%02d' % (v.year, v.month, v.day)
    if xs == 'time':
        s = '%02d:%02d:%02d' % (v.hour, v.minute, v.second)
        if v.microsecond:
            s += ('.%06d' % v.microsecond).rstrip('0')
        if v.tzinfo is not None:
            off = int(v.utcoffset().total_seconds() // 60)
            s += 'Z' if off == 0 else fmt_offset(off)
        return s
    if xs == 'duration':
        neg = v < datetime.timedelta(0)
        a = -v if neg else v
        s = 'P'
        if a.days:
            s += '%dD' % a.days
        h, rem = divmod(a.seconds, 3600)
        m, sec = divmod(rem, 60)
        t = ''
        if h:
            t += '%dH' % h
        if m:
            t += '%dM' % m
        if sec or a.microseconds:
            t += '%d' % sec
            if a.microseconds:
                t += ('.%06d' % a.microseconds).rstrip('0')
            t += 'S'
        if t:
            s += 'T' + t
        if s == 'P':
            s = 'PT0S'
        return ('-' if neg else '') + s
    if xs == 'base64Binary':
        return base64.b64encode(tobytes(v)).decode('ascii')
    if xs == 'hexBinary':
        return binascii.hexlify(tobytes(v)).decode('ascii')
    if xs == 'uuid':
        return str(v)
    raise KeyError(xs)
