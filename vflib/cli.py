"""vf check Cxx [--tier quick|thorough] [--replay path] | vf setup | vf all"""
import argparse
import os
import sys

sys.path.insert(0, os.path.dirname(os.path.dirname(os.path.abspath(__file__))))
from vflib import core  # noqa: E402


def main():
    ap = argparse.ArgumentParser()
    sub = ap.add_subparsers(dest='cmd')
    c = sub.add_parser('check')
    c.add_argument('prop')
    c.add_argument('--tier', default=os.environ.get('VERIF_TIER', 'quick'))
    c.add_argument('--replay')
    c.add_argument('--seed', default=os.environ.get('VERIF_SEED', '1'))
    sub.add_parser('setup')
    a = ap.parse_args()
    if a.cmd == 'setup':
        ok = core.ensure_deps()
        print('deps', 'ok' if ok else 'FAILED')
        from vflib import selftest
        rc = selftest.main()
        sys.exit(0 if ok and rc == 0 else 1)
    if a.cmd == 'check':
        try:
            seed = int(a.seed)
        except ValueError:
            seed = int.from_bytes(a.seed.encode(), 'big') % (2 ** 31)
        tier = a.tier if a.tier in ('quick', 'thorough') else 'quick'
        core.ensure_deps()
        sys.exit(core.run_check(a.prop.upper(), tier, seed, replay=a.replay))
    ap.print_help()
    sys.exit(2)


if __name__ == '__main__':
    main()
