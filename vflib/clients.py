"""Clients on the other side of the wire: the loopback spyne client (exactly as
spyne/client/http.py drives RemoteProcedureBase, with an in-process transport)
and zeep with an in-process Transport (WSDL bytes in, WSGI call out).
"""
from vflib import drive


def make_loopback_client(app, send):
    """app: Application seen from the client; send(bytes) -> (http code, bytes)."""
    from spyne.client import ClientBase, RemoteService, RemoteProcedureBase

    class _Proc(RemoteProcedureBase):
        def __call__(self, *args, **kwargs):
            self.ctx, = self.contexts
            self.get_out_object(self.ctx, args, kwargs)
            self.get_out_string(self.ctx)
            req = b''.join(self.ctx.out_string)
            self.last_request = req
            client.last_request = req
            code, resp = send(req)
            client.last_response = resp
            self.ctx.in_string = [resp]
            self.get_in_object(self.ctx)
            if self.ctx.in_error is not None:
                raise self.ctx.in_error
            return self.ctx.in_object

    class _Client(ClientBase):
        def __init__(self, url, app):
            super(_Client, self).__init__(url, app)
            self.service = RemoteService(_Proc, url, app)
            self.last_request = None
            self.last_response = None

    client = _Client('http://localhost/', app)
    return client


def wsgi_sender(wsgi_app, content_type):
    def send(data):
        env, inp = drive.make_environ('POST', '/', '', data, content_type)
        r = drive.call_wsgi(wsgi_app, env, inp)
        if r.exc is not None:
            raise r.exc
        return r.code, r.body
    return send


class ZeepInProc(object):
    """zeep client built from the WSDL bytes alone; requests go to the WSGI app."""

    def __init__(self, wsdl_bytes, wsgi_app, soap12=False):
        import zeep
        from zeep.transports import Transport
        outer = self
        self.last_request = None
        self.last_response = None
        self.last_status = None

        class _Resp(object):
            pass

        class T(Transport):
            def load(self, url):
                # the client is given the WSDL alone: nothing else can be fetched
                if url != 'http://localhost/?wsdl':
                    raise IOError('no such document for a client that has the WSDL alone: %s' % url)
                return wsdl_bytes

            def post(self, address, message, headers):
                outer.last_request = message
                env, inp = drive.make_environ('POST', '/', '', message, headers.get('Content-Type'),
                                              headers={'SOAPAction': headers.get('SOAPAction', '')})
                r = drive.call_wsgi(wsgi_app, env, inp)
                if r.exc is not None:
                    raise r.exc
                outer.last_response = r.body
                outer.last_status = r.code
                x = _Resp()
                x.status_code = r.code
                x.content = r.body
                x.headers = dict(r.headers)
                x.encoding = 'utf-8'
                return x
        settings = zeep.Settings(strict=True, xml_huge_tree=False, xsd_ignore_sequence_order=False)
        self.client = zeep.Client('http://localhost/?wsdl', transport=T(), settings=settings)
        self.service = self.client.service
