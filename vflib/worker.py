"""Worker entry: python -m vflib.worker <prop> <spec.json> <out.json>"""
import json
import sys
import traceback

from vflib import core


def main():
    prop, sp, op = sys.argv[1:4]
    core.bootstrap()
    with open(sp) as f:
        spec = json.load(f)
    mod = core.load_check(prop)
    res = core.Result()
    try:
        if 'replay' in spec:
            mod.replay(spec['replay'], res)
        else:
            mod.run(spec, res)
    except Exception:
        # a harness crash is never a spyne violation
        res.inconclusive.append('harness exception: ' + traceback.format_exc()[-1500:])
        res.notes.append('harness exception in shard %s: %s' % (
            spec.get('shard'), traceback.format_exc()[-800:]))
    with open(op + '.tmp', 'w') as f:
        json.dump(res.to_json(), f, default=str)
    import os
    os.replace(op + '.tmp', op)


if __name__ == '__main__':
    main()
