"""Drivers: push requests through the real server pipeline and record what the
outside world can see. No spyne internals beyond the documented ServerBase
stages / WSGI callable.
"""
import io
import sys


class Events:
    """One logical sequence counter shared by all monitors of a request."""

    def __init__(self):
        self.seq = []

    def add(self, *ev):
        self.seq.append(ev)

    def names(self):
        return [e[0] for e in self.seq]

    def index(self, name):
        for i, e in enumerate(self.seq):
            if e[0] == name:
                return i
        return None

    def count(self, name):
        return sum(1 for e in self.seq if e[0] == name)


class CountingInput(object):
    """wsgi.input double: counts bytes handed out and read calls."""

    def __init__(self, body, events=None):
        self._b = io.BytesIO(body)
        self.nread = 0
        self.calls = []
        self.events = events

    def read(self, n=-1):
        d = self._b.read(n)
        self.nread += len(d)
        self.calls.append((n, len(d)))
        return d

    def readline(self, n=-1):
        d = self._b.readline(n)
        self.nread += len(d)
        self.calls.append(('line', len(d)))
        return d

    def readlines(self, hint=-1):
        d = self._b.readlines(hint)
        self.nread += sum(map(len, d))
        return d

    def __iter__(self):
        for l in self._b:
            self.nread += len(l)
            yield l


def make_environ(method='POST', path='/', qs='', body=b'', content_type='text/xml; charset=utf-8',
                 content_length='auto', headers=None, events=None):
    inp = CountingInput(body, events)
    env = {'REQUEST_METHOD': method, 'SCRIPT_NAME': '', 'PATH_INFO': path, 'QUERY_STRING': qs,
           'SERVER_NAME': 'localhost', 'SERVER_PORT': '80', 'SERVER_PROTOCOL': 'HTTP/1.1',
           'wsgi.version': (1, 0), 'wsgi.url_scheme': 'http', 'wsgi.input': inp,
           'wsgi.errors': io.StringIO(), 'wsgi.multithread': True, 'wsgi.multiprocess': False,
           'wsgi.run_once': False}
    if content_type is not None:
        env['CONTENT_TYPE'] = content_type
    if content_length == 'auto':
        env['CONTENT_LENGTH'] = str(len(body))
    elif content_length is not None:
        env['CONTENT_LENGTH'] = content_length
    for k, v in (headers or {}).items():
        env['HTTP_' + k.upper().replace('-', '_')] = v
    return env, inp


class WsgiResult(object):
    def __init__(self):
        self.sr_calls = []        # (status, headers, exc_info is not None, n_chunks_before)
        self.chunks = []
        self.exc = None           # exception escaping the callable / iterator / close
        self.exc_stage = None
        self.closed = False
        self.aborted_after = None
        self.input = None
        self.events = None
        self.has_close = None
        self.iter_type = None

    @property
    def status(self):
        return self.sr_calls[-1][0] if self.sr_calls else None

    @property
    def code(self):
        try:
            return int(self.status.split()[0])
        except Exception:
            return None

    @property
    def headers(self):
        return self.sr_calls[-1][1] if self.sr_calls else []

    def header(self, name):
        vals = [v for k, v in self.headers if isinstance(k, str) and k.lower() == name.lower()]
        return vals[0] if vals else None

    @property
    def body(self):
        return b''.join(c for c in self.chunks if isinstance(c, bytes))


def call_wsgi(app, environ, inp=None, events=None, abort_after=None, validate=False):
    """Drive one request the way a PEP 3333 server does. `abort_after=k`
    simulates a client abort: after k chunks the server stops iterating and
    calls close() on the iterable (if it has one)."""
    ev = events if events is not None else Events()
    res = WsgiResult()
    res.events = ev
    res.input = inp

    def start_response(status, headers, exc_info=None):
        res.sr_calls.append((status, headers, exc_info is not None, len(res.chunks)))
        ev.add('start_response', status)
        return lambda data: ev.add('write_callable_used', len(data))

    target = app
    if validate:
        from wsgiref.validate import validator
        target = validator(app)
    it = None
    try:
        res.exc_stage = 'call'
        it = target(environ, start_response)
        res.iter_type = type(it).__name__
        ev.add('returned')
        res.has_close = hasattr(it, 'close')
        res.exc_stage = 'iterate'
        if abort_after != 0:
            for chunk in it:
                res.chunks.append(chunk)
                ev.add('chunk', len(res.chunks), len(chunk) if hasattr(chunk, '__len__') else -1)
                if abort_after is not None and len(res.chunks) >= abort_after:
                    res.aborted_after = len(res.chunks)
                    break
            else:
                ev.add('exhausted')
        else:
            res.aborted_after = 0
        res.exc_stage = 'close'
        if hasattr(it, 'close'):
            ev.add('close_call')
            it.close()
            ev.add('close_returned')
            res.closed = True
        res.exc_stage = None
    except BaseException as e:  # noqa
        if isinstance(e, (KeyboardInterrupt, SystemExit)):
            raise
        res.exc = e
        ev.add('escaped', res.exc_stage, type(e).__name__)
        if res.exc_stage == 'iterate' and it is not None and hasattr(it, 'close'):
            # PEP 3333: close() is called "whether the request completed normally, or terminated early due to an
            # application error during iteration"
            try:
                ev.add('close_call')
                it.close()
                ev.add('close_returned')
                res.closed = True
            except Exception as e2:
                ev.add('escaped', 'close', type(e2).__name__)
    ev.add('handed_over')
    return res


# ---------------------------------------------------------------- ServerBase

class StageResult(object):
    def __init__(self):
        self.ctx = None
        self.exc = None
        self.exc_stage = None
        self.out = None
        self.error = None
        self.contexts = ()


def drive_server(server, in_string, charset=None, make_ctx=None):
    """The four ServerBase stages every transport in the repository drives,
    each attributed separately so that an escaping exception names its stage."""
    from spyne import MethodContext
    r = StageResult()
    try:
        r.exc_stage = 'context'
        ctx = make_ctx() if make_ctx else MethodContext(server, MethodContext.SERVER)
        ctx.in_string = in_string if isinstance(in_string, (list, tuple)) else [in_string]
        r.exc_stage = 'generate_contexts'
        ctxs = server.generate_contexts(ctx, charset)
        r.contexts = ctxs
        p = ctxs[0]
        r.ctx = p
        if p.in_error is None:
            r.exc_stage = 'get_in_object'
            server.get_in_object(p)
        if p.in_error is None:
            r.exc_stage = 'get_out_object'
            server.get_out_object(p)
        r.error = p.in_error or p.out_error
        if p.in_error is not None and p.out_error is None:
            p.out_error = p.in_error
        r.exc_stage = 'get_out_string'
        server.get_out_string(p)
        r.exc_stage = 'join'
        r.out = b''.join(p.out_string)
        r.exc_stage = None
        try:
            p.close()
        except Exception:
            pass
    except BaseException as e:  # noqa
        if isinstance(e, (KeyboardInterrupt, SystemExit)):
            raise
        r.exc = e
    return r


def innermost_spyne_frame(exc):
    """(function qualname-ish, module) of the innermost frame inside the tree
    under test; used to key crash findings (never line numbers)."""
    import traceback
    from vflib import core
    tb = exc.__traceback__
    best = None
    while tb is not None:
        co = tb.tb_frame.f_code
        if co.co_filename.startswith(core.REPO + '/spyne'):
            mod = co.co_filename[len(core.REPO) + 1:-3].replace('/', '.')
            best = '%s.%s' % (mod, getattr(co, 'co_qualname', co.co_name))
        tb = tb.tb_next
    return best
