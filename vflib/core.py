"""Shared machinery of the spyne runtime-monitoring framework.

* bootstrap(): put the tree under test (VERIF_REPO, default /repo) first on
  sys.path, silence logging, make /verif/.deps importable.
* run_check(): shard a check over worker subprocesses (never
  multiprocessing.Pool), merge partial results, classify violations against
  known_findings.json, write evidence, print verdict lines, return exit code.

Exit codes: 0 held on what was observed / 1 VIOLATION / 2 INCONCLUSIVE.
"""
import hashlib
import importlib
import json
import os
import random
import subprocess
import sys
import time

VERIF = os.path.dirname(os.path.dirname(os.path.abspath(__file__)))
REPO = os.path.abspath(os.environ.get('VERIF_REPO', '/repo'))
PY = os.environ.get('VERIF_PYTHON', '/venv/bin/python')
DEPS = os.path.join(VERIF, '.deps')
WORK = os.path.join(VERIF, '.work')
NCPU = int(os.environ.get('VERIF_JOBS', '16'))
GUARD = 'SPYNE_VERIF'


def bootstrap():
    """Import spyne from the tree under test; never from anywhere else."""
    import logging
    import warnings
    logging.disable(logging.CRITICAL)
    warnings.simplefilter('ignore')
    sys.dont_write_bytecode = True
    if sys.path[0] != REPO:
        sys.path.insert(0, REPO)
    if os.path.isdir(DEPS) and DEPS not in sys.path:
        sys.path.append(DEPS)
    import spyne
    f = os.path.abspath(spyne.__file__)
    assert f.startswith(REPO + os.sep), (f, REPO)
    return spyne


def ensure_deps():
    """icontract/deal beside the repo's interpreter, from the offline wheelhouse."""
    if os.path.isdir(os.path.join(DEPS, 'icontract')):
        return True
    os.makedirs(DEPS, exist_ok=True)
    lock = os.path.join(DEPS, '.lock')
    import fcntl
    with open(lock, 'w') as lf:
        fcntl.flock(lf, fcntl.LOCK_EX)
        if os.path.isdir(os.path.join(DEPS, 'icontract')):
            return True
        r = subprocess.run([PY, '-m', 'pip', 'install', '-q', '--no-index',
                            '--find-links', '/opt/veriftools/wheels',
                            '--target', DEPS, 'icontract', 'deal'],
                           capture_output=True, text=True)
        return r.returncode == 0 and os.path.isdir(os.path.join(DEPS, 'icontract'))


def tree_identity():
    def git(*a):
        try:
            return subprocess.run(('git', '-C', REPO) + a, capture_output=True,
                                  text=True, timeout=30).stdout.strip()
        except Exception:
            return ''
    return {'path': REPO, 'head': git('rev-parse', 'HEAD'),
            'dirty': bool(git('status', '--porcelain', '--untracked-files=no'))}


def rng_for(seed, prop, shard):
    return random.Random('%s:%s:%s' % (seed, prop, shard))


def sig(*parts):
    return hashlib.sha1(repr(parts).encode()).hexdigest()[:16]


def jsonable(v, depth=0):
    """Best-effort conversion of witnesses into JSON."""
    import datetime
    import decimal
    import uuid
    if depth > 12:
        return '<deep>'
    if v is None or isinstance(v, (bool, int, str)):
        return v
    if isinstance(v, float):
        return v if v == v and v not in (float('inf'), float('-inf')) else repr(v)
    if isinstance(v, bytes):
        return {'b64': __import__('base64').b64encode(v).decode()}
    if isinstance(v, (decimal.Decimal, uuid.UUID, datetime.date, datetime.time,
                      datetime.timedelta)):
        return '%s(%s)' % (type(v).__name__, v if not isinstance(v, datetime.datetime) else v.isoformat())
    if isinstance(v, dict):
        return {str(k): jsonable(x, depth + 1) for k, x in v.items()}
    if isinstance(v, (list, tuple, set, frozenset)):
        return [jsonable(x, depth + 1) for x in v]
    return repr(v)[:300]


class Result:
    """What one shard (or the merge of all shards) observed."""

    def __init__(self):
        self.evaluations = 0
        self.sigs = set()          # distinct non-trivial signatures
        self.violations = []       # dicts: {'mech':…, 'what':…, 'repro':…, …}
        self.samples = []
        self.counters = {}
        self.skips = {}
        self.matrix = {}
        self.notes = []
        self.inconclusive = []     # reasons (case level)

    def count(self, key, n=1):
        self.counters[key] = self.counters.get(key, 0) + n

    def skip(self, reason, n=1):
        self.skips[reason] = self.skips.get(reason, 0) + n

    def cell(self, key, n=1):
        self.matrix[key] = self.matrix.get(key, 0) + n

    def nontrivial(self, *parts):
        self.sigs.add(sig(*parts))

    def sample(self, s, cap=6):
        if len(self.samples) < cap:
            self.samples.append(jsonable(s))

    def violation(self, what, repro=None, **kw):
        v = {'what': what, 'repro': jsonable(repro)}
        v.update({k: jsonable(x) for k, x in kw.items()})
        # cap per mechanism (a flood of one known mechanism must never crowd
        # out a different violation of the same property)
        k = 'viol_by_mech:%s' % v.get('mech')
        self.count(k)
        if self.counters[k] <= 25:
            self.violations.append(v)
        self.count('violations_raw')

    def to_json(self):
        return {'evaluations': self.evaluations, 'sigs': sorted(self.sigs),
                'violations': self.violations, 'samples': self.samples,
                'counters': self.counters, 'skips': self.skips,
                'matrix': self.matrix, 'notes': self.notes,
                'inconclusive': self.inconclusive}

    def merge_json(self, d):
        self.evaluations += d.get('evaluations', 0)
        self.sigs.update(d.get('sigs', ()))
        self.violations += d.get('violations', [])
        for s in d.get('samples', []):
            if len(self.samples) < 8:
                self.samples.append(s)
        for k, n in d.get('counters', {}).items():
            if isinstance(n, (int, float)):
                self.counters[k] = self.counters.get(k, 0) + n
            elif isinstance(n, list):
                self.counters[k] = sorted(set(self.counters.get(k, [])) | set(map(str, n)))
        for k, n in d.get('skips', {}).items():
            self.skips[k] = self.skips.get(k, 0) + n
        for k, n in d.get('matrix', {}).items():
            self.matrix[k] = self.matrix.get(k, 0) + n
        for n in d.get('notes', []):
            if n not in self.notes and len(self.notes) < 40:
                self.notes.append(n)
        self.inconclusive += d.get('inconclusive', [])


def load_findings(prop):
    p = os.path.join(VERIF, 'known_findings.json')
    if not os.path.exists(p):
        return {}
    with open(p) as f:
        data = json.load(f)
    return {e['matcher']: e for e in data.get('findings', [])
            if e.get('property') == prop and e.get('status') == 'known'}


def load_check(prop):
    return importlib.import_module('checks.%s' % prop.lower())


def _worker_env(extra=None):
    env = dict(os.environ)
    env['PYTHONPATH'] = VERIF
    env['PYTHONDONTWRITEBYTECODE'] = '1'
    env.setdefault('PYTHONHASHSEED', '0')
    env[GUARD] = '1'
    env['VERIF_REPO'] = REPO
    if extra:
        env.update(extra)
    return env


def run_shards(prop, specs, timeout, jobs=None, prefix=None):
    """Run worker subprocesses, at most `jobs` at a time. Returns list of
    (spec, result-json or None, reason)."""
    jobs = jobs or NCPU
    os.makedirs(WORK, exist_ok=True)
    tag = '%s-%d-%d' % (prop, os.getpid(), int(time.time() * 1000) % 100000)
    pending = list(enumerate(specs))
    running = []
    out = [None] * len(specs)
    while pending or running:
        while pending and len(running) < jobs:
            i, spec = pending.pop(0)
            sp = os.path.join(WORK, '%s-%d.spec.json' % (tag, i))
            op = os.path.join(WORK, '%s-%d.out.json' % (tag, i))
            with open(sp, 'w') as f:
                json.dump(spec, f)
            cmd = list(prefix or []) + [PY, '-B', '-m', 'vflib.worker', prop, sp, op]
            env = _worker_env(spec.get('env'))
            errp = os.path.join(WORK, '%s-%d.err' % (tag, i))
            p = subprocess.Popen(cmd, cwd=VERIF, env=env, stdout=subprocess.DEVNULL,
                                 stderr=open(errp, 'w'))
            running.append((i, spec, p, sp, op, errp, time.time()))
        time.sleep(0.05)
        still = []
        for (i, spec, p, sp, op, errp, t0) in running:
            rc = p.poll()
            if rc is None:
                if time.time() - t0 > timeout:
                    p.kill()
                    p.wait()
                    out[i] = (spec, None, 'watchdog after %ds' % timeout)
                    _cleanup(sp, op, errp)
                else:
                    still.append((i, spec, p, sp, op, errp, t0))
                continue
            res, reason = None, None
            if os.path.exists(op):
                try:
                    with open(op) as f:
                        res = json.load(f)
                except Exception as e:
                    reason = 'bad worker output: %r' % e
            if res is None and reason is None:
                try:
                    tail = open(errp).read()[-1500:]
                except Exception:
                    tail = ''
                reason = 'worker exit %s: %s' % (rc, tail)
            out[i] = (spec, res, reason)
            _cleanup(sp, op, errp)
        running = still
    return out


def _cleanup(*paths):
    for p in paths:
        try:
            os.unlink(p)
        except OSError:
            pass


def write_replay(prop, v, n):
    d = os.path.join(VERIF, 'replays', prop + ('-drill' if os.environ.get('VERIF_DRILL') else ''))
    os.makedirs(d, exist_ok=True)
    h = hashlib.sha1(json.dumps(v, sort_keys=True, default=str).encode()).hexdigest()[:12]
    p = os.path.join(d, '%s.json' % h)
    with open(p, 'w') as f:
        json.dump(v, f, indent=1, sort_keys=True, default=str)
    return p


def run_check(prop, tier, seed, replay=None):
    t0 = time.time()
    mod = load_check(prop)
    level = getattr(mod, 'LEVEL', 'exploration')
    if replay:
        with open(replay) as f:
            v = json.load(f)
        specs = [{'replay': v, 'tier': tier, 'seed': seed, 'shard': 'replay'}]
    else:
        specs = mod.shards(tier, seed)
    timeout = getattr(mod, 'SHARD_TIMEOUT', {'quick': 600, 'thorough': 3000})[tier]
    prefix = getattr(mod, 'worker_prefix', None)
    shard_out = run_shards(prop, specs, timeout, jobs=getattr(mod, 'JOBS', None))
    total = Result()
    dead = []
    for spec, res, reason in shard_out:
        if res is None:
            dead.append('%s: %s' % (spec.get('shard'), reason))
            continue
        total.merge_json(res)
    if hasattr(mod, 'post_merge'):
        mod.post_merge(total, tier, seed)

    if not replay:
        import shutil
        shutil.rmtree(os.path.join(VERIF, 'replays', prop + ('-drill' if os.environ.get('VERIF_DRILL') else '')), ignore_errors=True)
    known = load_findings(prop)
    classify = getattr(mod, 'classify', lambda v: v.get('mech'))
    matched = {}
    fresh = []
    for v in total.violations:
        m = classify(v)
        if m is not None and m in known:
            matched.setdefault(m, []).append(v)
        else:
            v['mech_unlisted'] = m
            fresh.append(v)

    inconclusive = None
    if dead and len(dead) * 2 > len(specs):
        inconclusive = 'most shards died: ' + '; '.join(dead[:3])
    crashed = [d for d in dead if 'watchdog after' not in d] + [str(x) for x in total.inconclusive if str(x).startswith('harness exception')]
    if crashed and not inconclusive:
        # a shard that died of an exception observed nothing: its part of the workload is undecided, and that must not read as held
        inconclusive = 'shard crashed (%d of %d): %s' % (len(crashed), len(specs), crashed[0][-300:].replace('\n', ' | '))
    req = getattr(mod, 'REQUIRED_COUNTERS', ())
    zero = [k for k in req if not total.counters.get(k)]
    if not replay and zero:
        inconclusive = 'deciding monitor observed nothing: %s' % ','.join(zero)
    if not replay and (total.evaluations < 1 or len(total.sigs) < 2):
        inconclusive = inconclusive or 'too few non-trivial cases (%d/%d)' % (
            total.evaluations, len(total.sigs))

    wall = time.time() - t0
    ev = {
        'property_id': prop, 'tier': tier, 'seed': int(seed), 'level': level,
        'coverage': {
            'evaluations': int(total.evaluations),
            'distinct_nontrivial': len(total.sigs),
            'rule': getattr(mod, 'RULE', ''),
            'samples': total.samples or ['<none>'],
            'exhaustive': False,
            'monitor_counters': total.counters,
            'configuration_matrix': total.matrix,
            'skips_by_reason': total.skips,
            'inconclusive_cases': len(total.inconclusive),
            'inconclusive_reasons': sorted(set(map(str, total.inconclusive)))[:10],
            'dead_shards': dead[:10],
            'shards': len(specs),
            'known_findings_matched': {m: len(vs) for m, vs in matched.items()},
            'notes': total.notes,
            'tree': tree_identity(),
        },
        'assumptions': list(getattr(mod, 'ASSUMPTIONS', [])),
        'wall_s': round(wall, 2),
        'violations': len(fresh),
    }
    if replay is None and not os.environ.get('VERIF_DRILL'):
        os.makedirs(os.path.join(VERIF, 'evidence'), exist_ok=True)
        with open(os.path.join(VERIF, 'evidence', '%s.json' % prop), 'w') as f:
            json.dump(ev, f, indent=1, sort_keys=True, default=str)

    print('%s tier=%s seed=%s evaluations=%d distinct_nontrivial=%d wall=%.1fs' % (
        prop, tier, seed, total.evaluations, len(total.sigs), wall))
    for k in sorted(total.counters):
        if not isinstance(total.counters[k], list):
            print('  counter %s=%s' % (k, total.counters[k]))
    for m, vs in sorted(matched.items()):
        e = known[m]
        print('KNOWN-FINDING: property=%s %s: %s [%d witnesses]' % (
            prop, m, e.get('mechanism', ''), len(vs)))
    # a listed finding whose failing input this run (tier, seed) did not generate is still a listed finding
    for m in sorted(set(known) - set(matched)):
        print('KNOWN-FINDING: property=%s %s: %s [its failing input was not generated by this run]' % (
            prop, m, known[m].get('mechanism', '')))
    if fresh:
        seen = {}
        n = 0
        for v in fresh:
            seen[v.get('mech_unlisted')] = seen.get(v.get('mech_unlisted'), 0) + 1
        print('  unlisted violation mechanisms: %s' % json.dumps(seen, sort_keys=True, default=str))
        done = set()
        for v in fresh:
            key = v.get('mech_unlisted')
            if key in done:
                continue
            done.add(key)
            p = write_replay(prop, v, n)
            n += 1
            print('VIOLATION property=%s replay=%s' % (prop, p))
            print('   %s: %s' % (v.get('mech_unlisted'), str(v.get('what'))[:300]))
            if n >= 25:
                break
        return 1
    if inconclusive:
        print('INCONCLUSIVE property=%s reason=%s' % (prop, inconclusive))
        for d in dead[:5]:
            print('   dead shard: %s' % d[:600])
        return 2
    if dead:
        for d in dead[:5]:
            print('   note: dead shard (inconclusive part): %s' % d[:600])
    print('HELD property=%s on everything observed' % prop)
    return 0
