"""Reference constraint validator (DESIGN.md A.2) and boundary-value generator.

Value trees here may contain two extra markers:
  NIL       an explicit null (xsi:nil="true", JSON null, msgpack nil, YAML ~)
  Raw(text) a literal that is clearly outside the lexical space of the slot
None always means "absent".
"""
import datetime
import decimal
import re

from vflib import gen, lex

D = decimal.Decimal


class _Nil(object):
    def __repr__(self):
        return 'NIL'


NIL = _Nil()


class Raw(object):
    def __init__(self, text):
        self.text = text

    def __repr__(self):
        return 'Raw(%r)' % self.text


def occ_bounds(t):
    """(min_occurs, max_occurs) of a member declaration."""
    mn = t.get('min_occurs', 0)
    if 'seq' in t:
        mx = 10 ** 9 if t['max'] == 'unbounded' else t['max']
        return mn, mx
    return mn, 1


def check_member(ir, t, v, path, out):
    """Member `t` of some parent holds `v` (None = absent, NIL = explicit null,
    list for seq). Appends (path, facet) for every violated constraint."""
    mn, mx = occ_bounds(t)
    if 'seq' in t:
        items = [] if v is None else ([v] if v is NIL else list(v))
        if len(items) < mn:
            out.append((path, 'min_occurs'))
        if len(items) > mx:
            out.append((path, 'max_occurs'))
        for i, it in enumerate(items):
            check_value(ir, t['seq'], it, '%s[%d]' % (path, i), out, nillable=t['seq'].get('nillable', t.get('nillable', True)))
        return
    if v is None:
        if mn >= 1:
            out.append((path, 'min_occurs'))
        return
    check_value(ir, t, v, path, out, nillable=t.get('nillable', True))


def check_value(ir, t, v, path, out, nillable=True):
    if v is NIL:
        if not nillable:
            out.append((path, 'nillable'))
        return
    if v is None:
        return
    if isinstance(v, Raw):
        out.append((path, 'lexical'))
        return
    if 'attr' in t:
        return check_value(ir, t['attr'], v, path, out, True)
    if 'xmldata' in t:
        return check_value(ir, t['xmldata'], v, path, out, True)
    if 'enum' in t:
        if v not in t['enum']:
            out.append((path, 'enumeration'))
        return
    if 'array' in t:
        inner = t['array']
        imn, imx = inner.get('min_occurs', 0), inner.get('max_occurs', 10 ** 9)
        if len(v) < imn:
            out.append((path, 'min_occurs'))
        if len(v) > imx:
            out.append((path, 'max_occurs'))
        for i, it in enumerate(v):
            check_value(ir, inner, it, '%s[%d]' % (path, i), out, inner.get('nillable', True))
        return
    if 'ref' in t:
        cname = v.get('__class__', t['ref']) if isinstance(v, dict) else t['ref']
        for fn, ft in gen.all_fields(ir, cname):
            x = v.get(fn)
            if 'attr' in ft:
                if x is not None:
                    check_value(ir, ft['attr'], x, '%s.@%s' % (path, fn), out, True)
                elif ft['attr'].get('min_occurs', 0) >= 1:
                    out.append(('%s.@%s' % (path, fn), 'min_occurs'))
            elif 'xmldata' in ft:
                if x is not None:
                    check_value(ir, ft['xmldata'], x, '%s.#text' % path, out, True)
            else:
                check_member(ir, ft, x, '%s.%s' % (path, fn), out)
        return
    if 'prim' in t:
        return check_prim(t['prim'], t.get('facets') or {}, v, path, out)
    raise KeyError(t)


def check_prim(kind, f, v, path, out):
    xs = gen.PRIMS[kind]
    if xs in lex.INT_BOUNDS:
        if isinstance(v, bool) or not isinstance(v, int):
            out.append((path, 'lexical'))
            return
        lo, hi = lex.INT_BOUNDS[xs]
        if (lo is not None and v < lo) or (hi is not None and v > hi):
            out.append((path, 'fixed_width'))
        _range(f, v, path, out)
    elif kind == 'Decimal':
        _range({k: D(x) if isinstance(x, str) else x for k, x in f.items()}, v, path, out)
    elif kind in ('DateTime', 'Date', 'Time', 'Double'):
        try:
            _range({k: gen.facet_native(kind, x) for k, x in f.items() if k in ('ge', 'gt', 'le', 'lt')}, v, path, out)
        except TypeError:
            out.append((path, 'lexical'))
    elif kind == 'Unicode':
        if 'min_len' in f and len(v) < f['min_len']:
            out.append((path, 'min_len'))
        if 'max_len' in f and len(v) > f['max_len']:
            out.append((path, 'max_len'))
        if 'pattern' in f and re.fullmatch(f['pattern'], v) is None:
            out.append((path, 'pattern'))
        if 'values' in f and v not in f['values']:
            out.append((path, 'values'))


def _range(f, v, path, out):
    if 'ge' in f and not v >= f['ge']:
        out.append((path, 'ge'))
    if 'gt' in f and not v > f['gt']:
        out.append((path, 'gt'))
    if 'le' in f and not v <= f['le']:
        out.append((path, 'le'))
    if 'lt' in f and not v < f['lt']:
        out.append((path, 'lt'))


def check_call(ir, md, args):
    """All violated constraints of a logical request (list of (path, facet))."""
    out = []
    if md['style'] == 'bare':
        (an, at), = md['args']
        v = args[0]
        if v is None or v is NIL:
            out.append((an, 'bare_argument_missing'))
        else:
            check_value(ir, at, v, an, out, True)
        return out
    for (an, at), v in zip(md['args'], args):
        check_member(ir, at, v, an, out)
    return out


# ----------------------------------------------------------------- dense values & slots

def dense_value(rng, ir, t, depth=3):
    """fully populated conformant value: every optional member present"""
    if 'prim' in t:
        v = None
        for _ in range(20):
            v = gen.gen_prim_value(rng, t['prim'], t.get('facets'))
            if v is not None and not (isinstance(v, (bytes, str)) and len(v) == 0):
                break
        return v
    if 'enum' in t:
        return rng.choice(t['enum'])
    if 'ref' in t:
        req_attr = any('attr' in ft and ft['attr'].get('min_occurs', 0) >= 1 for _, ft in gen.all_fields(ir, t['ref']))
        if depth <= 0 and t.get('min_occurs', 0) == 0 and not req_attr:
            return None          # (a type with required attributes has no valid null spelling under XSD: never null)
        out = {'__class__': t['ref']}
        seen_groups = set()
        for fn, ft in gen.all_fields(ir, t['ref']):
            if 'choice' in ft:
                if ft['choice'] in seen_groups:
                    continue          # one member per choice group
                seen_groups.add(ft['choice'])
            if depth <= 0 and not ('prim' in ft or 'enum' in ft or 'attr' in ft or 'xmldata' in ft) and ft.get('min_occurs', 0) == 0:
                continue
            if depth < -3:
                continue          # (recursion guard for types that require themselves through required attributes)
            x = dense_value(rng, ir, ft, depth - 1)
            if x is not None:
                out[fn] = x
        return out
    if 'array' in t:
        n_ = min(max(rng.randint(1, 2), t['array'].get('min_occurs', 0)), t['array'].get('max_occurs', 10 ** 9))
        return [dense_value(rng, ir, t['array'], depth - 1) for _ in range(n_)]
    if 'seq' in t:
        mx = 2 if t['max'] == 'unbounded' else min(2, t['max'])
        return [dense_value(rng, ir, t['seq'], depth - 1) for _ in range(max(1, mx, t.get('min_occurs', 0)))]
    if 'attr' in t:
        return dense_value(rng, ir, t['attr'], depth)
    if 'xmldata' in t:
        return dense_value(rng, ir, t['xmldata'], depth)
    raise KeyError(t)


def slots(ir, t, v, path=(), position='top'):
    """Yield (path, leaf tspec, position class) for every leaf slot present in dense value v.
    position in {'top', 'field', 'array_member', 'attribute', 'seq_member'}"""
    if v is None:
        return
    if 'prim' in t or 'enum' in t:
        yield path, t, position
        return
    if 'attr' in t:
        yield path, t['attr'], 'attribute'
        return
    if 'xmldata' in t:
        yield path, t['xmldata'], 'field'
        return
    if 'ref' in t:
        yield path, t, position + ':object'
        for fn, ft in gen.all_fields(ir, v.get('__class__', t['ref'])):
            if 'seq' in ft:
                if 'choice' in ft and v.get(fn) is None:
                    continue          # a member of a choice group that another member was chosen for: no slot to fill
                yield path + (fn,), ft, 'seq'
                for i, it in enumerate(v.get(fn) or []):
                    for s in slots(ir, ft['seq'], it, path + (fn, i), 'seq_member'):
                        yield s
            else:
                for s in slots(ir, ft, v.get(fn), path + (fn,), 'field'):
                    yield s
        return
    if 'array' in t:
        yield path, t, position + ':array'
        for i, it in enumerate(v):
            for s in slots(ir, t['array'], it, path + (i,), 'array_member'):
                yield s
        return
    if 'seq' in t:
        yield path, t, 'seq'
        for i, it in enumerate(v):
            for s in slots(ir, t['seq'], it, path + (i,), 'seq_member'):
                yield s
        return


def set_at(root, path, value):
    """Return a copy of root with root[path] = value (None at a dict key = absent)."""
    import copy
    root = copy.deepcopy(root)
    if not path:
        return value
    cur = root
    for k in path[:-1]:
        cur = cur[k]
    k = path[-1]
    if isinstance(cur, dict):
        if value is None:
            cur.pop(k, None)
        else:
            cur[k] = value
    else:
        if value is None:
            del cur[k]
        else:
            cur[k] = value
    return root


def _has_range(f):
    return any(k in f for k in ('ge', 'gt', 'le', 'lt'))


def _bounds(kind, f):
    return [gen.facet_native(kind, f[k]) for k in ('ge', 'gt', 'le', 'lt') if k in f]


def _fullwidth(s):
    """the same text with FULLWIDTH DIGITs: digits to Python's \\d and int(), not to XML Schema"""
    return ''.join(chr(ord(c) - 0x30 + 0xff10) if '0' <= c <= '9' else c for c in s)


def boundary_values(rng, t, exhaustive8=False, lexical=True):
    """[(value, label)] for a leaf slot: on, just inside and just outside every
    boundary of the declaration, plus null / absent / lexically ill-formed."""
    out = [(NIL, 'nil'), (None, 'absent')]
    if 'enum' in t:
        out += [(m, 'member') for m in t['enum']] + [('ZZ', 'non_member'), ('', 'non_member_empty')]
        return out
    if 'seq' in t:
        mx = t['max']
        mn = t.get('min_occurs', 0)
        counts = sorted(set([0, 1, 2, mn - 1, mn, mn + 1])) if mx == 'unbounded' else sorted(set([0, 1, mn - 1, mn, mx - 1, mx, mx + 1, mx + 2]))
        for c in counts:
            if c >= 0:
                out.append((('COUNT', c), 'count_%d' % c))
        return out
    if 'array' in t:
        imn_, imx_ = t['array'].get('min_occurs', 0), t['array'].get('max_occurs')
        for c in sorted(set([0, 1, 3, imn_ - 1, imn_, imn_ + 1] + ([imx_ - 1, imx_, imx_ + 1, imx_ + 2] if imx_ is not None else []))):
            if c >= 0:
                out.append((('COUNT', c), 'count_%d' % c))
        return out
    if 'ref' in t:
        return out
    kind = t['prim']
    f = t.get('facets') or {}
    xs = gen.PRIMS[kind]
    if xs in lex.INT_BOUNDS:
        lo, hi = lex.INT_BOUNDS[xs]
        bs = set()
        for b in (lo, hi, f.get('ge'), f.get('gt'), f.get('le'), f.get('lt')):
            if b is not None:
                bs.update((b - 1, b, b + 1))
        bs.update((0, 1, -1))
        if exhaustive8 and xs in ('byte', 'unsignedByte'):
            bs.update(range(lo - 4, hi + 5))
        out += [(b, 'int') for b in sorted(bs)]
        if lexical:
            out += [(Raw('abc'), 'lexical'), (Raw('1.5'), 'lexical'), (Raw('12x'), 'lexical')]
            # what Python's int() reads and the lexical space of xs:integer does not have: digit separators, digits of other scripts
            out += [(Raw('1_0'), 'lexical_underscore'), (Raw('\u0661\u0662'), 'lexical_arabic_indic_digits'), (Raw('\uff11\uff12'), 'lexical_fullwidth_digits')]
    elif kind == 'Decimal':
        bs = set([D(0)])
        for k in ('ge', 'le'):
            if k in f:
                b = D(f[k])
                bs.update((b - D('0.01'), b, b + D('0.01')))
        out += [(b, 'decimal') for b in sorted(bs)]
        if lexical:
            out += [(Raw('abc'), 'lexical'), (Raw('1,5'), 'lexical')]
            out += [(Raw('1_0'), 'lexical_underscore'), (Raw('\u0661.\u0662'), 'lexical_arabic_indic_digits'), (Raw('\uff11\uff12'), 'lexical_fullwidth_digits')]
    elif kind == 'Unicode':
        if 'values' in f:
            out += [(x, 'member') for x in f['values']] + [('zz-not-a-member', 'non_member')]
            m0 = f['values'][0]
            out += [(m0 + '\n', 'non_member_trailing_lf'), (' ' + m0, 'non_member_leading_space'),
                    (m0.upper() if m0.upper() != m0 and m0.upper() not in f['values'] else m0 + m0 + '~', 'non_member_case')]
        elif 'pattern' in f:
            for _ in range(3):
                out.append((gen._from_pattern(rng, f['pattern']), 'pattern_match'))
            out += [('!!', 'pattern_mismatch'), (gen._from_pattern(rng, f['pattern']) + '!', 'pattern_mismatch_suffix'),
                    ('!' + gen._from_pattern(rng, f['pattern']), 'pattern_mismatch_prefix')]
            # whitespace around a conforming value: the facet applies to the whole value ($ vs \Z, strip() slips)
            for ws, tag in (('\n', 'lf'), (' ', 'space'), ('\t', 'tab'), ('\n\n', 'lflf')):
                out.append((gen._from_pattern(rng, f['pattern']) + ws, 'pattern_mismatch_trailing_' + tag))
            out += [('\n' + gen._from_pattern(rng, f['pattern']), 'pattern_mismatch_leading_lf'),
                    (gen._from_pattern(rng, f['pattern']) + '\n' + gen._from_pattern(rng, f['pattern']), 'pattern_mismatch_embedded_lf')]
        else:
            mn, mx = f.get('min_len', 0), f.get('max_len')
            lens = set([mn, mn + 1])
            if mn > 0:
                lens.add(mn - 1)
            if mx is not None:
                lens.update((mx - 1, mx, mx + 1))
            out += [('a' * n, 'len_%d' % n) for n in sorted(lens) if n >= 0]
            # length is counted in code points, and whitespace counts
            out += [('\u0394' * n, 'len_%d_nonascii' % n) for n in sorted(lens) if n > 0]
            out += [('a' * (n - 1) + '\n', 'len_%d_trailing_lf' % n) for n in sorted(lens) if n > 0]
    elif kind == 'Boolean':
        out += [(True, 'bool'), (False, 'bool')]
        if lexical:
            out += [(Raw('maybe'), 'lexical')]
    elif kind == 'Double':
        out += [(1.5, 'double')] if not _has_range(f) else []
        out += [(float('nan'), 'double_nan'), (float('inf'), 'double_inf'), (float('-inf'), 'double_neginf')]     # values of xs:double
        for b in _bounds(kind, f):
            out += [(b - 0.25, 'double_bound'), (b, 'double_bound'), (b + 0.25, 'double_bound')]
        if lexical:
            out += [(Raw('abc'), 'lexical')]
            out += [(Raw('1_0'), 'lexical_underscore'), (Raw('\u0661\u0662'), 'lexical_arabic_indic_digits'), (Raw('\uff11.\uff12'), 'lexical_fullwidth_digits')]
    elif kind == 'DateTime':
        out += [(datetime.datetime(2020, 1, 2, 3, 4, 5), 'datetime')] if not _has_range(f) else []
        for b in _bounds(kind, f):
            out += [(b - datetime.timedelta(seconds=1), 'datetime_bound'), (b, 'datetime_bound'), (b + datetime.timedelta(seconds=1), 'datetime_bound'),
                    (b + datetime.timedelta(microseconds=1), 'datetime_bound'), (b - datetime.timedelta(microseconds=1), 'datetime_bound')]
        if lexical:
            out += [(Raw('2020-13-01T00:00:00'), 'lexical'), (Raw('yesterday'), 'lexical'),
                    (Raw(_fullwidth('2020-01-02T03:04:05')), 'lexical_fullwidth_digits'), (Raw(_fullwidth('2020-01-02T03:04:05.5+01:00')), 'lexical_fullwidth_digits'),
                    (Raw('2020-01-02T03:04:05+\uff10\uff11:00'), 'lexical_fullwidth_digits')]
    elif kind == 'Date':
        out += [(datetime.date(2020, 1, 2), 'date')] if not _has_range(f) else []
        for b in _bounds(kind, f):
            out += [(b - datetime.timedelta(days=1), 'date_bound'), (b, 'date_bound'), (b + datetime.timedelta(days=1), 'date_bound')]
        if lexical:
            out += [(Raw('2020-13-01'), 'lexical'), (Raw('01/02/2020'), 'lexical'), (Raw(_fullwidth('2020-01-02')), 'lexical_fullwidth_digits'),
                    (Raw('2020-01-0\u0662'), 'lexical_arabic_indic_digits')]
    elif kind == 'Time':
        out += [(datetime.time(3, 4, 5), 'time')] if not _has_range(f) else []
        for b in _bounds(kind, f):
            base = datetime.datetime.combine(datetime.date(2000, 1, 1), b)
            out += [((base - datetime.timedelta(seconds=1)).time(), 'time_bound'), (b, 'time_bound'), ((base + datetime.timedelta(seconds=1)).time(), 'time_bound')]
        if lexical:
            out += [(Raw('25:00:00'), 'lexical'), (Raw(_fullwidth('03:04:05')), 'lexical_fullwidth_digits'), (Raw('03:04:0\u0665'), 'lexical_arabic_indic_digits')]
    elif kind == 'Duration':
        out += [(datetime.timedelta(seconds=5), 'duration')]
        if lexical:
            out += [(Raw('5 seconds'), 'lexical'), (Raw(_fullwidth('P1DT2H')), 'lexical_fullwidth_digits'), (Raw('PT1.\uff15S'), 'lexical_fullwidth_digits')]
    elif kind == 'Uuid':
        import uuid
        out += [(uuid.UUID(int=5), 'uuid')]
        if lexical:
            out += [(Raw('1234'), 'lexical'), (Raw('zzzzzzzz-zzzz-zzzz-zzzz-zzzzzzzzzzzz'), 'lexical')]
    elif kind == 'ByteArray':
        out += [(b'ab', 'bytes')]
    elif kind == 'AnyUri':
        out += [('http://x/', 'uri')]
    if lexical:
        # a literal of the type with something before, after or inside it; the delimiters of the type alone
        around = {'DateTime': ['2020-01-02T03:04:05', '2020-01-02T03:04:05Z', '2020-01-02T03:04:05+01:00', '2020-01-02T03:04:05.5'],
                  'Date': ['2020-01-02', '2020-01-02Z', '2020-01-02+01:00'], 'Time': ['03:04:05', '03:04:05Z', '03:04:05+01:00', '03:04:05.5'],
                  'Duration': ['P1DT2H', 'PT5S', '-P1Y', 'PT1.5S'], 'Uuid': ['12345678-1234-1234-1234-123456789012'], 'Boolean': ['true', '0'],
                  'Double': ['1.5', '1e3', 'INF'], 'Decimal': ['1.5', '-2'], 'Integer': ['12'], 'Integer32': ['12'], 'UnsignedInteger8': ['12']}.get(kind, [])
        for lit in around:
            # characters that Python's str.strip() and \s take for white space and XML Schema does not (its white space is #x20 #x9 #xD #xA)
            out += [(Raw(sp_ + lit), 'lexical_other_space_before') for sp_ in ('\u00a0', '\u2003', '\u3000', '\u0085', '\x0b', '\x0c', '\u2028', '\x1f')[:3 if not exhaustive8 else 8]]
            out += [(Raw(lit + sp_), 'lexical_other_space_after') for sp_ in ('\u00a0', '\u202f', '\ufeff', '\x1c')]
            out += [(Raw(lit + 'junk'), 'lexical_trailing_text'), (Raw('junk' + lit), 'lexical_leading_text'), (Raw(lit + ' ' + lit), 'lexical_twice'),
                    (Raw(lit + '\n.'), 'lexical_trailing_line')]
        out += [(Raw(x), 'lexical_degenerate') for x in {'Duration': ['P', 'PT', '-P', 'P1D2H', 'PT1.S', 'P1DT', 'P-1D', 'PT1H1D', 'P1.5D'],
                                                         'DateTime': ['2020-01-02T03:04:05.5.5', '2020-01-02T03:04:05.', '2020-01-02T03:04', '2020-01-02T', '2020-01-02',
                                                                      '2020-01-02T03:04:05+01', '2020-01-02T03:04:05+0100', '2020-01-02T03:04:05z'],
                                                         'Date': ['2020-01-02T00:00:00', '2020-1-2', '20200102', '2020-01-02+01'],
                                                         'Time': ['03:04', '3:04:05', '03:04:05.', '030405'], 'Boolean': ['yes', 'tru', '01'],
                                                         'Double': ['1.5.5', '1e', 'e3', '1,5', '0x1p3'],
                                                         'Decimal': ['1.5.5', '1,5', '--1', '1-', 'INF', 'NaN'], 'Integer': ['1-', '--1', '+-1', '0x10', '1e3', '1.0']}.get(kind, [])]
        # spellings that are not in the lexical space but denote the same values to every reader of the language spyne is written in
        out += [(Raw(x), 'lexical_spelling_other_case') for x in {'Boolean': ['TRUE', 'True', 'False', 'FALSE']}.get(kind, [])]
        out += [(Raw(x), 'lexical_spelling_python_float') for x in {'Double': ['inf', '-inf', 'nan', 'Infinity', '-Infinity', 'NAN']}.get(kind, [])]
    for v_, _ in out:
        if isinstance(v_, Raw):
            v_.kind = kind          # (what the text was meant to be)
    return out
