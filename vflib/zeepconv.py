"""Value trees <-> zeep call arguments / results, guided by the IR for structure
and by the published schema (refxml.Schema) for member names."""
import datetime
import decimal
import uuid

from vflib import gen, refxml


class ZeepCannot(Exception):
    """value class zeep cannot represent (decided per type before execution)"""


def representable(t, v):
    """False for values that zeep's own lexical layer is known not to carry."""
    if v is None:
        return True
    if 'prim' in t:
        k = t['prim']
        if k == 'Duration':
            return v.microseconds == 0 and v >= datetime.timedelta(0)     # isodate: no fractional seconds / sign quirks
        if k == 'Time':
            return True
        if k == 'DateTime':
            return v.year >= 1000
        if k == 'Date':
            return v.year >= 1000
        if k == 'Double':
            return v == v and v not in (float('inf'), float('-inf'))
        if k == 'Decimal':
            return v == v.normalize() or True
    return True


def all_representable(ir, t, v):
    if v is None:
        return True
    if 'ref' in t:
        cname = v.get('__class__', t['ref'])
        td = [x for x in ir['types'] if x['name'] == cname][0]
        if td.get('base') and not td['fields'] and any('attr' in ft for _, ft in gen.all_fields(ir, cname)):
            # zeep 4.3 gives an extension without a content model a spurious '_value_1' member and renders the attributes it
            # inherits as the literal 'NotSet' (checked against zeep directly with a valid schema): not usable as a second opinion
            return False
        return all(all_representable(ir, ft, v.get(fn)) for fn, ft in gen.all_fields(ir, cname))
    for k in ('array', 'seq'):
        if k in t:
            return all(all_representable(ir, t[k], x) for x in v)
    for k in ('attr', 'xmldata'):
        if k in t:
            return all_representable(ir, t[k], v)
    return representable(t, v)


def to_zeep(S, ir, t, v, tq):
    if v is None:
        return None
    if 'prim' in t:
        if t['prim'] == 'Uuid':
            return str(v)
        if t['prim'] == 'ByteArray':
            return v
        return v
    if 'enum' in t:
        return v
    if 'seq' in t:
        return [to_zeep(S, ir, t['seq'], x, tq) for x in v]
    if 'array' in t:
        attrs, elems, simple = S.content(tq)
        d = elems[0]
        return {d['name']: [to_zeep(S, ir, t['array'], x, d['type']) for x in v]}
    if 'ref' in t:
        cname = v.get('__class__', t['ref'])
        attrs, elems, simple = S.content(tq)
        be = {e['name']: e for e in elems}
        ba = {a['name']: a for a in attrs}
        out = {}
        for fn, ft in gen.all_fields(ir, cname):
            x = v.get(fn)
            if 'attr' in ft:
                if x is not None:
                    out[fn] = to_zeep(S, ir, ft['attr'], x, ba[fn]['type'])
            elif 'xmldata' in ft:
                out['_value_1'] = to_zeep(S, ir, ft['xmldata'], x, simple) if x is not None else ''
            else:
                if x is not None:
                    out[fn] = to_zeep(S, ir, ft, x, be[fn]['type'])
        return out
    raise KeyError(t)


def from_zeep(S, ir, t, o, tq):
    if o is None:
        return None
    if 'prim' in t:
        k = t['prim']
        if k == 'Uuid':
            return uuid.UUID(o) if isinstance(o, str) else o
        if k == 'Duration' and not isinstance(o, datetime.timedelta):
            try:
                return o.totimedelta(start=datetime.datetime(2000, 1, 1))
            except Exception:
                return o
        return o
    if 'enum' in t:
        return o
    if 'seq' in t:
        if not isinstance(o, (list, tuple)):
            o = [o]
        return [from_zeep(S, ir, t['seq'], x, tq) for x in o] or None
    if 'array' in t:
        attrs, elems, simple = S.content(tq)
        d = elems[0]
        if isinstance(o, (list, tuple)):
            items = o
        else:
            items = getattr(o, d['name'], None)
            if items is None:
                try:
                    items = o[d['name']]
                except Exception:
                    items = None
        if items is None:
            items = []
        return [from_zeep(S, ir, t['array'], x, d['type']) for x in items]
    if 'ref' in t:
        cname = t['ref']
        attrs, elems, simple = S.content(tq)
        be = {e['name']: e for e in elems}
        ba = {a['name']: a for a in attrs}
        out = {'__class__': cname}
        fl = gen.all_fields(ir, cname)
        xt = getattr(o, '_xsd_type', None)
        foreign = xt is not None and getattr(xt, 'qname', None) is not None and str(xt.qname) != tq
        if (foreign or (not hasattr(o, '__values__') and not isinstance(o, dict))) and len(fl) == 1 and 'attr' not in fl[0][1] \
                and 'xmldata' not in fl[0][1]:
            # zeep unwraps types with a single member recursively
            fn, ft = fl[0]
            out[fn] = from_zeep(S, ir, ft, o, be[fn]['type'])
            return out
        if not hasattr(o, '__values__') and not isinstance(o, dict) and any('xmldata' in ft for _, ft in fl):
            # simpleContent without attributes set: zeep hands over the bare text value
            for fn, ft in fl:
                out[fn] = from_zeep(S, ir, ft['xmldata'], o, simple) if 'xmldata' in ft else None
            return out
        for fn, ft in fl:
            if 'attr' in ft:
                x = _get(o, fn)
                out[fn] = from_zeep(S, ir, ft['attr'], x, ba[fn]['type']) if x is not None else None
            elif 'xmldata' in ft:
                x = _get(o, '_value_1')
                out[fn] = from_zeep(S, ir, ft['xmldata'], x, simple) if x is not None else None
            else:
                x = _get(o, fn)
                out[fn] = from_zeep(S, ir, ft, x, be[fn]['type'])
        return out
    raise KeyError(t)


def _get(o, name):
    try:
        return getattr(o, name)
    except AttributeError:
        try:
            return o[name]
        except Exception:
            return None


def znorm(ir, t, v):
    """zeep cannot tell an empty wrapped array or an empty string from an absent/nil
    one: identify them (for the zeep comparisons only)."""
    if v is None:
        return None
    if 'array' in t:
        out = [znorm(ir, t['array'], x) for x in v]
        return out or None
    if 'seq' in t:
        out = [znorm(ir, t['seq'], x) for x in v]
        return out or None
    if 'ref' in t:
        if not isinstance(v, dict):
            return v
        out = dict(v)
        some = False
        for fn, ft in gen.all_fields(ir, v.get('__class__', t['ref'])):
            out[fn] = znorm(ir, ft, v.get(fn))
            some = some or out[fn] is not None
        return out if some else None      # zeep unwraps an empty element to None
    for k in ('attr', 'xmldata'):
        if k in t:
            return znorm(ir, t[k], v)
    if 'prim' in t and t['prim'] in ('Unicode', 'AnyUri') and v == '':
        return None
    if 'prim' in t and t['prim'] == 'ByteArray':
        if isinstance(v, (list, tuple)):
            v = b''.join(bytes(x) for x in v)          # the native form is a sequence of chunks
        if v == b'':
            return None
    return v
