"""C05 - soft validation enforces exactly the declared constraints, in every protocol.

For every logical request (a dense conformant call with one leaf slot replaced
by a boundary / outside / null / absent / ill-formed value) and every protocol
family {XmlDocument, Soap11, JsonDocument, YamlDocument, MessagePackDocument,
HttpRpc} with validator='soft':
    user function entered  <=>  the reference validator (DESIGN A.2) accepts,
rejections carry a Client.ValidationError-family fault (HTTP 400 for non-SOAP),
and hence the verdict is the same over all protocols. 8-bit types are swept
exhaustively (16-bit in the thorough tier).
"""
import base64
import decimal
import json

from vflib import core, drive, gen, refdict, refflat, refval, refxml
from checks import c01

PROP = 'C05'
LEVEL = 'exploration'
RULE = ('random universes; per method a dense conformant call, every leaf slot (top-level argument, nested field, array member, repeated '
        'member, XML attribute) x boundary values of its declaration (on / just inside / just outside every facet bound, null, absent, '
        'occurrence counts 0..max+2, lexically ill-formed text) x 6 protocol families; plus exhaustive sweeps of the 8-bit (thorough: 16-bit) '
        'integer types at 4 positions; non-trivial = a request that reached soft validation and got a verdict; distinct by '
        '(protocol, position class, leaf type shape, value label, verdict).'
        ' Also: a facet matrix of ~45 leaf declarations at 5 positions, a three-level inheritance universe, repeated members with min_occurs 1..3, Double ranges open on one side, prefix-alternation patterns, mandatory tag bodies, public names differing from attribute names.')
ASSUMPTIONS = [
    'reference validator vflib/refval.py implements DESIGN.md A.2; facets a carrier cannot express (explicit null or empty string in a query string, XML attributes outside XML) are skipped for that carrier only',
    'patterns come from a regex subset on which XSD and Python agree; total_digits/fraction_digits are not part of the statement',
    'only clearly ill-formed literals are used on the reject side (borderline lexical forms belong to C08)',
]
REQUIRED_COUNTERS = ('verdicts_compared', 'accepted_cases', 'rejected_cases', 'exhaustive_values')
SHARD_TIMEOUT = {'quick': 900, 'thorough': 3000}
FAMILIES = ('xml', 'soap11', 'json', 'yaml', 'msgpack', 'httprpc')
VALIDATION_FAULT = ('Client.ValidationError', 'Client.SchemaValidationError')


def shards(tier, seed):
    n = 15 if tier == 'quick' else 46
    per = 2 if tier == 'quick' else 6
    out = [{'shard': 'u%d' % i, 'mode': 'universe', 'tier': tier, 'seed': seed, 'first': i * per, 'count': per} for i in range(n)]
    out.append({'shard': 'exh8', 'mode': 'exhaustive', 'bits': 8, 'tier': tier, 'seed': seed, 'families': list(FAMILIES)})
    # facet matrix: every boundary value of a fixed list of leaf declarations, at every position, in every family
    nm = len(MATRIX_LEAVES)
    step = 4 if tier == 'quick' else 2
    for i in range(0, nm, step):
        out.append({'shard': 'mx%d' % i, 'mode': 'matrix', 'tier': tier, 'seed': seed, 'first': i, 'count': step})
    out += [{'shard': 'inh/%s' % fam, 'mode': 'inheritance', 'family': fam, 'tier': tier, 'seed': seed} for fam in FAMILIES]
    if tier == 'thorough':
        # 16-bit sweep: one shard per (family, signedness) so that it finishes in minutes
        for fam in FAMILIES:
            for signed in (True, False):
                out.append({'shard': 'exh16/%s/%s' % (fam, 's' if signed else 'u'), 'mode': 'exhaustive', 'bits': 16, 'tier': tier,
                            'seed': seed, 'families': [fam], 'signed': signed})
    return out


def universe(seed, uid):
    rng = core.rng_for(seed, PROP, 'uni%d' % uid)
    o = gen.Opts(max_types=3, nested_arrays=0.0, styles=('wrapped',), multi_return=False, methods=(1, 3), services=(1, 1), sub_names=True, seq_min=True, array_item_occ=True)
    return gen.rand_universe(rng, o, uid=uid)


class Family(object):
    """one application per protocol family, validator='soft'"""

    def __init__(self, ir, fam, rng):
        from spyne.server.wsgi import WsgiApplication
        self.fam = fam
        self.ir = ir
        if fam in ('xml', 'soap11'):
            self.C = c01.Ctx(ir, fam, 'soft', rng)
            self.B = self.C.B
            self.W = refxml.Wire(self.B, self.C.wsdl, rng, strict=False)
            self.wsgi = self.C.get_wsgi()
        else:
            from spyne.protocol.json import JsonDocument
            from spyne.protocol.yaml import YamlDocument
            from spyne.protocol.msgpack import MessagePackDocument
            from spyne.protocol.http import HttpRpc
            self.B = gen.Built(ir)
            inp = {'json': JsonDocument, 'yaml': YamlDocument, 'msgpack': MessagePackDocument, 'httprpc': HttpRpc}[fam](validator='soft')
            outp = JsonDocument() if fam == 'httprpc' else type(inp)()
            app = self.B.app(inp, outp)
            self.wsgi = WsgiApplication(app)
            if fam != 'httprpc':
                self.conf = refdict.Conf(fam, True, 'dict', False)
                self.codec = refdict.Codec(ir, self.conf, strict=False)

    def expressible(self, md, args, pos, val):
        """can this carrier spell the mutated request at all?"""
        if self.fam not in ('xml', 'soap11') and uses_xml_only(self.ir, md, args):
            return False
        if self.fam == 'httprpc':
            try:
                if any(refflat.has_unspellable_items(self.ir, t, v) or refflat.unspellable_none(self.ir, t, v)
                       for (_, t), v in zip(md['args'], args) if not _has_marker(v)):
                    return False
            except Exception:
                pass
            if val is refval.NIL:
                return False
            if isinstance(val, str) and val == '':
                return False
            if isinstance(val, refval.Raw) and val.text == '':
                return False
            if isinstance(val, refval.Raw) and (val.text == 'maybe' or getattr(val, 'kind', None) == 'Boolean'):
                return False      # HttpRpc documents HTML form semantics for booleans (checked/on; anything else is off)
        return True

    def send(self, md, args):
        """-> (entered names, status code, fault code or None, escaped exception or None)"""
        fam = self.fam
        B = self.B
        if fam in ('xml', 'soap11'):
            el = self.W.request_element(md, args)
            data = self.W.serialize(el if fam == 'xml' else self.W.envelope(el, 11))
            env, inp = drive.make_environ('POST', '/', '', data, 'text/xml; charset=utf-8')
        elif fam == 'httprpc':
            pairs = refflat.request_pairs(self.ir, md, args, '.')
            if getattr(self, 'indexed_spelling', False):
                # the other accepted spelling of a repeated primitive member: explicit indexes instead of repeated keys
                seen, out = {}, []
                multi = set(k for k, _ in pairs if sum(1 for k2, _ in pairs if k2 == k) > 1)
                for k, v in pairs:
                    if k in multi:
                        out.append(('%s[%d]' % (k, seen.get(k, 0)), v))
                        seen[k] = seen.get(k, 0) + 1
                    else:
                        out.append((k, v))
                pairs = out
            data = refflat.query_string(pairs).encode()
            env, inp = drive.make_environ('GET', '/' + md['name'], data.decode(), b'', None)
        else:
            data = self.codec.dumps(self.codec.request(md, args))
            env, inp = drive.make_environ('POST', '/', '', data, 'application/octet-stream')
        B.calls[:] = []
        B.returns.clear()
        w = drive.call_wsgi(self.wsgi, env, inp)
        names = [c[0] for c in B.calls]
        fault = None
        if w.exc is None and w.code is not None and w.code >= 400:
            fault = self.fault_code(w.body)
        return names, w.code, fault, w.exc, data

    def fault_code(self, body):
        from vflib import miniapp
        fam = self.fam
        if fam in ('xml', 'soap11'):
            f = miniapp.decode_fault(fam, body)
            code = f[0] if f else None
            if code and ':' in code:
                code = code.split(':', 1)[1]
            return code
        if fam == 'httprpc':
            f = miniapp.decode_fault('json', body)
            return f[0] if f else None
        try:
            f = refdict.fault_of(self.conf, self.codec.loads(body))
        except Exception:
            f = None
        c = f[0] if f else None
        return c.decode() if isinstance(c, bytes) else c


def _has_marker(v):
    if v is refval.NIL or isinstance(v, refval.Raw):
        return True
    if isinstance(v, dict):
        return any(_has_marker(x) for x in v.values())
    if isinstance(v, (list, tuple)):
        return any(_has_marker(x) for x in v)
    return False


def uses_xml_only(ir, md, args):
    def walk(t):
        if 'xmldata' in t:
            return True
        if 'attr' in t:
            return False      # an attribute member is an ordinary member of a dict document
        if 'ref' in t:
            return any(walk(ft) for _, ft in gen.all_fields(ir, t['ref']))
        for k in ('array', 'seq'):
            if k in t:
                return walk(t[k])
        return False
    return any(walk(t) for _, t in md['args'])


def judge(R, F, md, args, pos, label, lt, repro):
    fam = F.fam
    if fam == 'httprpc' and label.startswith('count') and not getattr(F, 'indexed_spelling', False):
        F.indexed_spelling = True
        try:
            judge(R, F, md, args, pos, label + '_indexed', lt, dict(repro, spelling='indexed'))
        finally:
            F.indexed_spelling = False
    try:
        names, code, fault, exc, data = F.send(md, args)
    except (refxml.NotConformant, refxml.SchemaMismatch, refflat.NotExpressible, KeyError, TypeError, ValueError, AttributeError, OverflowError) as e:
        R.skip('%s: request not expressible (%s)' % (fam, type(e).__name__))
        return None
    R.evaluations += 1
    viol = refval.check_call(F.ir, md, args)
    expected_accept = not viol
    facets = sorted(set(f for _, f in viol))
    case = dict(repro, family=fam, position=pos, label=label, facets=facets, request_b64=base64.b64encode(data[:3000]).decode())
    if exc is not None:
        R.skip('an exception escaped (C10 matter)')
        R.count('escapes_seen')
        return None
    entered = names == [md['name']]
    R.count('verdicts_compared')
    if entered != expected_accept:
        who = 'accepted_invalid' if entered else 'rejected_valid'
        R.violation('%s: %s request (%s at %s; violated per reference: %s; fault %s)' % (
            fam, 'invalid accepted' if entered else 'valid rejected', label, repro.get('slot'), facets or 'nothing', fault), case,
            mech=mech(who, fam, facets, lt, label, pos))
        return entered
    if entered:
        R.count('accepted_cases')
    else:
        R.count('rejected_cases')
        if fault is None or not any(str(fault).startswith(p) for p in VALIDATION_FAULT):
            R.violation('%s: invalid request rejected with fault %r, not a Client.ValidationError-family fault' % (fam, fault), case,
                        mech='wrong_fault_family:%s:%s' % (fam, str(fault).split('.')[0] if fault else 'none'))
        elif fam != 'soap11' and code != 400:
            R.violation('%s: validation failure answered with HTTP %s, not 400' % (fam, code), case, mech='validation_status:%s' % fam)
    R.nontrivial(fam, pos.split(':')[0], gen.shape(lt)[:30] if lt else None, label.split('_')[0], entered)
    R.cell('%s|%s' % (fam, 'accept' if entered else 'reject'))
    return entered


def mech(who, fam, facets, lt, label, pos):
    kind = gen.shape(lt)[:28] if lt else ''
    if who == 'accepted_invalid' and facets == ['min_occurs'] and lt and 'array' in lt and fam == 'httprpc':
        return 'dictdoc_array_min_occurs_not_enforced'
    if who == 'accepted_invalid' and facets == ['lexical'] and label in ('lexical_spelling_other_case', 'lexical_spelling_python_float'):
        return 'lenient_spelling_accepted:%s' % label[len('lexical_spelling_'):]
    return '%s:%s:%s:%s' % (who, fam, '+'.join(facets) or label.split('_')[0], kind)


def run_universe(R, seed, uid, tier):
    ir = universe(seed, uid)
    rng = core.rng_for(seed, PROP, 'vals%d' % uid)
    fams = {}
    for fam in FAMILIES:
        try:
            fams[fam] = Family(ir, fam, rng)
        except Exception as e:
            R.skip('%s: universe rejected at construction: %s' % (fam, type(e).__name__))
    budget = 40 if tier == 'quick' else 200
    n = 0
    for sd in ir['services']:
        for md in sd['methods']:
            args = [refval.dense_value(rng, ir, t) for _, t in md['args']]
            if any(a is None for a in args):
                continue
            if refval.check_call(ir, md, args):
                R.skip('dense base value not conformant')
                continue
            # the unmutated request must be accepted everywhere
            for fam, F in fams.items():
                if F.expressible(md, args, 'base', None):
                    judge(R, F, md, args, 'base', 'conformant', None, {'seed': seed, 'uid': uid, 'method': md['name'], 'slot': '-'})
            for ai, ((an, at), av) in enumerate(zip(md['args'], args)):
                sl = list(refval.slots(ir, at, av, (), 'top'))
                rng.shuffle(sl)
                for path, lt, pos in sl[:5 if tier == 'quick' else 20]:
                    vals = refval.boundary_values(rng, lt)
                    rng.shuffle(vals)
                    for val, label in vals[:8 if tier == 'quick' else 40]:
                        if n >= budget:
                            return
                        if isinstance(val, tuple) and val and val[0] == 'COUNT':
                            cur = av
                            try:
                                for k in path:
                                    cur = cur[k]
                            except (KeyError, IndexError, TypeError):
                                continue
                            if not cur:
                                continue
                            val = [cur[i % len(cur)] for i in range(val[1])]
                        if val is refval.NIL and (pos == 'attribute' or is_xmldata_path(ir, at, path)):
                            continue
                        if val is None and is_xmldata_path(ir, at, path):
                            continue
                        mutated = list(args)
                        try:
                            mutated[ai] = refval.set_at(av, path, val)
                        except (KeyError, IndexError, TypeError):
                            continue
                        n += 1
                        slot = '%s%s' % (an, ''.join('[%r]' % (p,) for p in path))
                        verdicts = {}
                        for fam, F in fams.items():
                            if not F.expressible(md, mutated, pos, val):
                                R.skip('%s cannot express this facet' % fam)
                                continue
                            v = judge(R, F, md, mutated, pos, label, lt, {'seed': seed, 'uid': uid, 'method': md['name'], 'slot': slot})
                            if v is not None:
                                verdicts[fam] = v
                        if len(R.samples) < 3 and len(verdicts) >= 4:
                            R.sample({'uid': uid, 'method': md['name'], 'slot': slot, 'label': label, 'verdicts': verdicts})


def is_xmldata_path(ir, t, path):
    cur = t
    try:
        for k in path:
            if isinstance(k, int):
                cur = cur.get('array') or cur.get('seq')
            else:
                cur = dict(gen.all_fields(ir, cur['ref']))[k]
    except (KeyError, TypeError):
        return False
    return 'xmldata' in cur


def run_exhaustive(R, spec):
    """every value of the fixed-width types (and a margin outside) at four positions, every family"""
    bits = spec['bits']
    rng = core.rng_for(spec['seed'], PROP, spec['shard'])
    sk, uk = 'Integer%d' % bits, 'UnsignedInteger%d' % bits
    T = {'name': 'T0', 'ns': 'urn:vf:c05x', 'base': None, 'has_xmldata': False,
         'fields': [['s', {'prim': sk, 'facets': {}}], ['u', {'prim': uk, 'facets': {}}], ['sa', {'attr': {'prim': sk, 'facets': {}}}],
                    ['ua', {'attr': {'prim': uk, 'facets': {}}}], ['sl', {'array': {'prim': sk, 'facets': {}}}],
                    ['ul', {'seq': {'prim': uk, 'facets': {}}, 'max': 'unbounded'}]]}
    Tn = dict(T, name='T1', fields=[f for f in T['fields'] if 'attr' not in f[1]])
    ir = {'uid': 5000 + bits, 'tns': 'urn:vf:c05x', 'types': [T, Tn], 'services': [{'name': 'S', 'methods': [
        {'name': 'mx', 'args': [['a', {'prim': sk, 'facets': {}}], ['b', {'prim': uk, 'facets': {}}], ['o', {'ref': 'T0'}]], 'returns': [], 'style': 'wrapped'},
        {'name': 'mn', 'args': [['a', {'prim': sk, 'facets': {}}], ['b', {'prim': uk, 'facets': {}}], ['o', {'ref': 'T1'}]], 'returns': [], 'style': 'wrapped'}]}]}
    fams = {fam: Family(ir, fam, rng) for fam in spec.get('families', FAMILIES)}
    lo_s, hi_s = -2 ** (bits - 1), 2 ** (bits - 1) - 1
    lo_u, hi_u = 0, 2 ** bits - 1
    margin = 4
    sv = list(range(lo_s - margin, hi_s + margin + 1))
    uv = list(range(lo_u - margin, hi_u + margin + 1))
    if bits == 16 and spec['tier'] == 'quick':
        return
    base = {'mx': [1, 1, {'__class__': 'T0', 's': 1, 'u': 1, 'sa': 1, 'ua': 1, 'sl': [1], 'ul': [1]}],
            'mn': [1, 1, {'__class__': 'T1', 's': 1, 'u': 1, 'sl': [1], 'ul': [1]}]}
    for fam, F in fams.items():
        mname = 'mx' if fam in ('xml', 'soap11') else 'mn'
        md = [m for m in ir['services'][0]['methods'] if m['name'] == mname][0]
        positions = [('top', 0, (), sv), ('top', 1, (), uv), ('field', 2, ('s',), sv), ('field', 2, ('u',), uv),
                     ('array_member', 2, ('sl', 0), sv), ('seq_member', 2, ('ul', 0), uv)]
        if mname == 'mx':
            positions += [('attribute', 2, ('sa',), sv), ('attribute', 2, ('ua',), uv)]
        if 'signed' in spec:
            positions = [p for p in positions if (p[3] is sv) == spec['signed']]
        for pos, ai, path, values in positions:
            for v in values:
                args = list(base[mname])
                args[ai] = refval.set_at(args[ai], path, v) if path else v
                lt = {'prim': sk if values is sv else uk, 'facets': {}}
                judge(R, F, md, args, pos, 'exh%d' % bits, lt, {'seed': spec['seed'], 'uid': ir['uid'], 'method': mname,
                                                                   'slot': '%d%s=%d' % (ai, path, v)})
                R.count('exhaustive_values')
    R.counters['exhaustive_bits_%d' % bits] = 1


MATRIX_LEAVES = [{'prim': 'Unicode', 'facets': {'pattern': p}} for p in gen.PATTERNS] + [
    {'prim': 'Unicode', 'facets': {'values': ['a', 'bb', 'c c']}},
    {'prim': 'Unicode', 'facets': {'values': ['\u0394', '0', 'None']}},
    {'prim': 'Unicode', 'facets': {'min_len': 2, 'max_len': 5}},
    {'prim': 'Unicode', 'facets': {'max_len': 3}},
    {'prim': 'Unicode', 'facets': {'min_len': 1}},
    {'prim': 'Integer', 'facets': {'ge': -3, 'le': 7}},
    {'prim': 'Integer', 'facets': {'gt': -3, 'lt': 7}},
    {'prim': 'Integer', 'facets': {'ge': 0}},
    {'prim': 'Integer32', 'facets': {'gt': 10}},
    {'prim': 'UnsignedInteger16', 'facets': {'le': 100}},
    {'prim': 'Integer64', 'facets': {}},
    {'prim': 'UnsignedInteger64', 'facets': {}},
    {'prim': 'UnsignedInteger', 'facets': {}},
    {'prim': 'Decimal', 'facets': {'ge': '-1.5', 'le': '2.25'}},
    {'prim': 'Decimal', 'facets': {}},
    {'prim': 'Double', 'facets': {}}, {'prim': 'Boolean', 'facets': {}}, {'prim': 'DateTime', 'facets': {}},
    {'prim': 'Date', 'facets': {}}, {'prim': 'Time', 'facets': {}}, {'prim': 'Duration', 'facets': {}},
    {'prim': 'Uuid', 'facets': {}}, {'prim': 'AnyUri', 'facets': {}},
    {'enum': ['Red', 'Green', 'Blue'], 'name': 'Colour'},
    # an inclusive and an exclusive bound on the same side: every declared bound applies
    {'prim': 'Integer', 'facets': {'gt': 0, 'ge': 3, 'le': 7, 'lt': 10}, 'ok': 5},
    {'prim': 'Integer', 'facets': {'ge': 0, 'gt': 3, 'lt': 7, 'le': 10}, 'ok': 5},
    {'prim': 'Decimal', 'facets': {'gt': '0', 'ge': '1.5', 'le': '2.5', 'lt': '4'}, 'ok': '2'},
    {'prim': 'Double', 'facets': {'ge': '0.0', 'lt': '1.0'}, 'ok': 0.5},
    # open on one side: the infinity of that side is a value of the type, the other one is not
    {'prim': 'Double', 'facets': {'le': '10.0'}, 'ok': 0.5}, {'prim': 'Double', 'facets': {'gt': '-10.0'}, 'ok': 0.5},
    {'prim': 'Double', 'facets': {'gt': '0.0', 'ge': '1.0', 'le': '2.0', 'lt': '3.0'}, 'ok': 1.5},
    {'prim': 'DateTime', 'facets': {'ge': '2020-01-01T00:00:00', 'lt': '2021-01-01T00:00:00'}, 'ok': '2020-06-15T12:00:00'},
    {'prim': 'DateTime', 'facets': {'gt': '2020-01-01T00:00:00', 'ge': '2020-06-01T00:00:00', 'le': '2020-09-01T00:00:00', 'lt': '2021-01-01T00:00:00'},
     'ok': '2020-07-01T00:00:00'},
    {'prim': 'Date', 'facets': {'ge': '2020-01-10', 'le': '2020-01-20'}, 'ok': '2020-01-15'},
    {'prim': 'Date', 'facets': {'gt': '2020-01-01', 'ge': '2020-01-10', 'le': '2020-01-20', 'lt': '2020-01-30'}, 'ok': '2020-01-15'},
    {'prim': 'Time', 'facets': {'ge': '08:00:00', 'lt': '17:00:00'}, 'ok': '12:00:00'},
    {'prim': 'Time', 'facets': {'gt': '06:00:00', 'ge': '08:00:00', 'le': '17:00:00', 'lt': '19:00:00'}, 'ok': '12:00:00'},
]


def run_matrix(R, spec):
    """all boundary values of one leaf declaration x {top, field, array member, seq member, attribute} x every family"""
    rng = core.rng_for(spec['seed'], PROP, spec['shard'])
    for li in range(spec['first'], min(len(MATRIX_LEAVES), spec['first'] + spec['count'])):
        lt = MATRIX_LEAVES[li]
        run_matrix_leaf(R, spec, rng, li, lt)


def run_matrix_leaf(R, spec, rng, li, lt):
    lt = dict(lt)
    given_ok = lt.pop('ok', None)
    leaf = lambda **kw: dict(json.loads(json.dumps(lt)), **kw)
    ns = 'urn:vf:c05m'
    fields = [['f', leaf()], ['fl', {'array': leaf()}], ['fs', {'seq': leaf(), 'max': 'unbounded'}]]
    T1 = {'name': 'T1', 'ns': ns, 'base': None, 'has_xmldata': False, 'fields': fields}
    T0 = {'name': 'T0', 'ns': ns, 'base': None, 'has_xmldata': False, 'fields': fields + [['fa', {'attr': leaf()}]]}
    ir = {'uid': 7000 + li, 'tns': ns, 'types': [T0, T1], 'services': [{'name': 'S', 'methods': [
        {'name': 'mx', 'args': [['a', leaf()], ['o', {'ref': 'T0'}]], 'returns': [], 'style': 'wrapped'},
        {'name': 'mn', 'args': [['a', leaf()], ['o', {'ref': 'T1'}]], 'returns': [], 'style': 'wrapped'}]}]}
    if 'enum' in lt:
        ir['enums'] = {lt['name']: lt['enum']}
    fams = {}
    for fam in FAMILIES:
        try:
            fams[fam] = Family(ir, fam, rng)
        except Exception as e:
            R.skip('%s: matrix universe rejected at construction: %s' % (fam, type(e).__name__))
    ok = None
    if given_ok is not None:
        ok = decimal.Decimal(given_ok) if lt['prim'] == 'Decimal' else gen.facet_native(lt['prim'], given_ok)
        if refval.check_call(ir, {'name': 'p', 'args': [['a', lt]], 'returns': [], 'style': 'wrapped'}, [ok]):
            ok = None
    for _ in range(0 if ok is not None else 20):
        v = refval.dense_value(rng, ir, lt)
        if v is not None and not refval.check_call(ir, {'name': 'p', 'args': [['a', lt]], 'returns': [], 'style': 'wrapped'}, [v]):
            ok = v
            break
    if ok is None:
        R.skip('no conformant base value for matrix leaf')
        return
    vals = refval.boundary_values(rng, lt)
    for fam, F in fams.items():
        mname = 'mx' if fam in ('xml', 'soap11') else 'mn'
        md = [m for m in ir['services'][0]['methods'] if m['name'] == mname][0]
        obj = {'__class__': 'T0' if mname == 'mx' else 'T1', 'f': ok, 'fl': [ok], 'fs': [ok]}
        if mname == 'mx':
            obj['fa'] = ok
        base = [ok, obj]
        positions = [('top', 0, ()), ('field', 1, ('f',)), ('array_member', 1, ('fl', 0)), ('seq_member', 1, ('fs', 0))]
        if mname == 'mx':
            positions.append(('attribute', 1, ('fa',)))
        for pos, ai, path in positions:
            for val, label in vals:
                if val is refval.NIL and pos == 'attribute':
                    continue
                if val is None and pos in ('array_member', 'seq_member'):
                    continue          # removing the only item is a count case, covered by the universes
                args = [base[0], json_copy(base[1])]
                try:
                    args[ai] = refval.set_at(args[ai], path, val) if path else val
                except (KeyError, IndexError, TypeError):
                    continue
                if not F.expressible(md, args, pos, val):
                    R.skip('%s cannot express this facet' % fam)
                    continue
                judge(R, F, md, args, pos, label, lt, {'seed': spec['seed'], 'uid': ir['uid'], 'method': mname,
                                                       'slot': '%d%s' % (ai, ''.join('[%r]' % (k,) for k in path))})
                R.count('matrix_values')


def run_inheritance(R, spec):
    """every slot x every boundary value of the fixed three-level class tree (gen.inheritance_ir), one family per shard"""
    ir = gen.inheritance_ir(uid=9200)
    for sd in ir['services']:
        sd['methods'] = [m for m in sd['methods'] if m['style'] == 'wrapped']
    rng = core.rng_for(spec['seed'], PROP, spec['shard'])
    F = Family(ir, spec['family'], rng)
    for md in ir['services'][0]['methods']:
        for rep in range(1 if spec['tier'] == 'quick' else 3):
            args = [refval.dense_value(rng, ir, t) for _, t in md['args']]
            if any(a is None for a in args) or refval.check_call(ir, md, args):
                continue
            for ai, ((an, at), av) in enumerate(zip(md['args'], args)):
                for path, lt, pos in refval.slots(ir, at, av, (), 'top'):
                    for val, label in refval.boundary_values(rng, lt):
                        if isinstance(val, tuple) and val and val[0] == 'COUNT':
                            cur = av
                            try:
                                for k in path:
                                    cur = cur[k]
                            except (KeyError, IndexError, TypeError):
                                continue
                            if not cur:
                                continue
                            val = [cur[i % len(cur)] for i in range(val[1])]
                        if val is refval.NIL and pos == 'attribute':
                            continue
                        mutated = list(args)
                        try:
                            mutated[ai] = refval.set_at(av, path, val)
                        except (KeyError, IndexError, TypeError):
                            continue
                        if not F.expressible(md, mutated, pos, val):
                            R.skip('%s cannot express this facet' % F.fam)
                            continue
                        slot = '%s%s' % (an, ''.join('[%r]' % (p,) for p in path))
                        judge(R, F, md, mutated, pos, label, lt, {'seed': spec['seed'], 'uid': ir['uid'], 'method': md['name'], 'slot': slot,
                                                                   'family_shard': spec['family']})
                        R.count('inheritance_values')


def json_copy(v):
    if isinstance(v, dict):
        return {k: json_copy(x) for k, x in v.items()}
    if isinstance(v, list):
        return [json_copy(x) for x in v]
    return v


def run(spec, R):
    if spec['mode'] == 'exhaustive':
        run_exhaustive(R, spec)
        return
    if spec['mode'] == 'inheritance':
        R.count('exhaustive_values', 0)
        run_inheritance(R, spec)
        return
    if spec['mode'] == 'matrix':
        R.count('exhaustive_values', 0)
        run_matrix(R, spec)
        return
    R.count('exhaustive_values', 0)
    for uid in range(spec['first'], spec['first'] + spec['count']):
        run_universe(R, spec['seed'], uid, spec['tier'])


def post_merge(total, tier, seed):
    total.counters.setdefault('exhaustive_values', 0)


def replay(v, R):
    c = v['repro']
    if c.get('uid', 0) == 9200:
        run_inheritance(R, {'seed': c['seed'], 'shard': 'inh/%s' % c['family'], 'family': c['family'], 'tier': 'thorough', 'mode': 'inheritance'})
    elif c.get('uid', 0) >= 7000:
        run_matrix(R, {'seed': c['seed'], 'shard': 'mx%d' % (c['uid'] - 7000), 'tier': 'thorough', 'first': c['uid'] - 7000, 'count': 1})
    elif c.get('uid', 0) >= 5000:
        run_exhaustive(R, {'bits': c['uid'] - 5000, 'seed': c['seed'], 'shard': 'exh%d' % (c['uid'] - 5000), 'tier': 'thorough',
                           'families': [c.get('family')] if c.get('family') else list(FAMILIES)})
    else:
        run_universe(R, c['seed'], c['uid'], 'thorough')
    for x in R.violations[:10]:
        print('replayed:', x.get('mech'), x.get('what')[:300])


def classify(v):
    return v.get('mech')
