"""C06 - the published XML Schema is truthful about the wire.

(1) the schema of every generated universe compiles (libxml2);
(2) every response the server emits and every request the loopback spyne client
    emits, for conformant and near-boundary-inside values, is valid against it;
(3) for boundary documents that use only declared fields in declared order,
    validator='lxml' and validator='soft' reach the same accept/reject verdict
    for {nillable, occurrence, ranges, fixed-width bounds, length, pattern,
    enumeration}.
"""
import base64
import copy

from lxml import etree

import itertools

from vflib import core, drive, gen, refxml, refval, clients
from checks import c01

PROP = 'C06'
LEVEL = 'exploration'
RULE = ('random universes (multi-namespace, inheritance, attributes/XmlData, choice groups, declared defaults, restrictions on every primitive) x {XmlDocument, Soap11, '
        'Soap12}: schema compilation; libxml2 validation of every document spyne emitted (server responses, loopback-client requests); '
        'lxml-vs-soft verdict pairs over boundary values at every leaf slot of dense requests, and over EVERY slot and boundary value of a fixed three-level class tree (inherited mandatory, bounded-repeat, array and faceted members); non-trivial = an emitted document that was '
        'validated, or a boundary document that reached both validators; distinct by (protocol, emitter/slot position, facet, value label).'
        ' Also: documents emitted for the fixed class tree, message-level nil / empty request elements, choice groups incl. repeated members, classes that contain themselves, Double ranges (NaN with bounds is not judged by libxml2).')
ASSUMPTIONS = [
    'libxml2 (lxml) is the schema processor; the schema is compiled by spyne.interface.xml_schema build_validation_schema from the documents spyne writes',
    'boundary documents are built by the reference encoder in non-strict mode from the published schema: only declared members in declared order',
    'lexically ill-formed literals are not part of the lxml-vs-soft comparison (C05/C08 judge them)',
]
REQUIRED_COUNTERS = ('schemas_compiled', 'emitted_documents_validated', 'verdict_pairs_compared')
SHARD_TIMEOUT = {'quick': 900, 'thorough': 3000}


def shards(tier, seed):
    n = 16 if tier == 'quick' else 48
    per = 2 if tier == 'quick' else 8
    out = [{'shard': 'u%d' % i, 'tier': tier, 'seed': seed, 'first': i * per, 'count': per} for i in range(n)]
    # fixed three-level class tree: occurrence and facet boundaries of inherited members, every slot, every XML protocol
    out += [{'shard': 'inh/%s' % k, 'mode': 'inheritance', 'kind': k, 'tier': tier, 'seed': seed} for k in c01.PROTOCOLS]
    out.append({'shard': 'named_chains', 'mode': 'named_chains', 'tier': tier, 'seed': seed})
    return out


def universe(seed, uid):
    rng = core.rng_for(seed, PROP, 'uni%d' % uid)
    o = gen.Opts(max_types=4, namespaces=3, choice_groups=True, defaults=True, sub_names=True, seq_min=True, self_refs=True, cross_ns_inheritance=True)
    return gen.rand_universe(rng, o, uid=uid)


def compile_mech(e, ir):
    s = str(e)
    if 'simple type definition' in s and any('xmldata' in ft for t in ir['types'] for _, ft in t['fields']):
        return 'xmldata_type_not_published'
    return 'schema_does_not_compile:%s' % type(e).__name__


def body_of(kind, W, data):
    if kind == 'xml':
        return etree.fromstring(data)
    header, kids = W.open_envelope(data, 11 if kind == 'soap11' else 12)
    return kids[0] if kids else None


def run_universe(R, seed, uid, tier):
    ir = universe(seed, uid)
    rng = core.rng_for(seed, PROP, 'vals%d' % uid)
    repro = {'seed': seed, 'uid': uid}
    kinds = [rng.choice(c01.PROTOCOLS)] if tier == 'quick' else list(c01.PROTOCOLS)
    for kind in kinds:
        try:
            C = c01.Ctx(ir, kind, 'soft', rng)
        except Exception as e:
            if type(e).__name__ == 'XMLSchemaParseError':
                R.evaluations += 1
                R.violation('the published schema does not compile: %s' % str(e)[:300], dict(repro, kind=kind), mech=compile_mech(e, ir))
            else:
                R.skip('universe rejected at construction: %s' % type(e).__name__)
            continue
        R.evaluations += 1
        if C.schema_validator is None:
            R.violation('the published schema does not compile: %s' % getattr(C, 'schema_error', '?')[:300], dict(repro, kind=kind),
                        mech=compile_mech(getattr(C, 'schema_error', ''), ir))
            continue
        R.count('schemas_compiled')
        R.nontrivial('compiled', kind, len(ir['types']), len(set(t['ns'] for t in ir['types'])))
        emitted(R, C, ir, kind, rng, tier, dict(repro, kind=kind))
        verdict_pairs(R, C, ir, kind, rng, tier, dict(repro, kind=kind))


def emitted(R, C, ir, kind, rng, tier, repro):
    """(2) documents spyne itself emits are valid against the schema."""
    B = C.B
    V = C.schema_validator
    # loopback client: a second Application over the same services, seen from the client
    try:
        inp, outp = c01.make_protocols(kind, None)
        capp = B.app(inp, outp, name='Client%d' % ir['uid'])
        ctype = 'application/soap+xml; charset=utf-8' if kind == 'soap12' else 'text/xml; charset=utf-8'
        client = clients.make_loopback_client(capp, clients.wsgi_sender(C.get_wsgi(), ctype))
    except Exception as e:
        client = None
        R.notes.append('loopback client not constructible: %r' % e)
    for sd in ir['services']:
        for md in sd['methods']:
            for k in range(2 if tier == 'quick' else 5):
                dense = k % 2 == 0
                args = [(refval.dense_value(rng, ir, t) if dense else gen.gen_value(rng, ir, t, top=(md['style'] == 'bare')))
                        for _, t in md['args']]
                rets = [(refval.dense_value(rng, ir, t) if dense else gen.gen_value(rng, ir, t, top=(md['style'] != 'wrapped')))
                        for t in md['returns']]
                sp = [B.to_spyne(t, v) for t, v in zip(md['returns'], rets)]
                B.returns[md['name']] = sp[0] if len(sp) == 1 else (tuple(sp) if sp else None)
                # server response to a reference request
                try:
                    req = C.W.request_element(md, args)
                except (refxml.NotConformant, refxml.SchemaMismatch):
                    R.skip('request not expressible')
                    continue
                data = C.W.serialize(req if kind == 'xml' else C.W.envelope(req, 11 if kind == 'soap11' else 12))
                B.calls[:] = []
                r = drive.drive_server(C.server, data)
                R.evaluations += 1
                if r.exc is None and r.error is None and r.out:
                    try:
                        el = body_of(kind, C.W, r.out)
                    except Exception:
                        el = None
                    if el is not None:
                        R.count('emitted_documents_validated')
                        if not V.validate(el):
                            R.violation('response emitted by the server is not valid against the published schema: %s' % str(V.error_log.last_error)[:250],
                                        dict(repro, method=md['name'], response=r.out[:1500].decode('utf8', 'replace')),
                                        mech='emitted_response_invalid:%s' % err_kind(V.error_log.last_error, r.out))
                        else:
                            R.nontrivial('response', kind, md['style'], tuple(gen.shape(t) for t in md['returns']), tuple(gen.vclass(x) for x in rets))
                            R.cell('%s|response' % kind)
                # request emitted by the spyne client (wrapped call style only)
                if client is not None and md['style'] == 'wrapped' and not md.get('operation_name'):
                    sargs = [B.to_spyne(t, v) for (_, t), v in zip(md['args'], args)]
                    try:
                        getattr(client.service, md['name'])(*sargs)
                    except Exception as e:
                        R.skip('loopback client call raised %s' % type(e).__name__)
                    creq = client.last_request
                    client.last_request = None
                    if creq:
                        try:
                            el = body_of(kind, C.W, creq)
                        except Exception:
                            el = None
                        if el is not None:
                            R.evaluations += 1
                            R.count('emitted_documents_validated')
                            R.count('client_requests_validated')
                            if not V.validate(el):
                                R.violation('request emitted by the spyne client is not valid against the published schema: %s' % str(V.error_log.last_error)[:250],
                                            dict(repro, method=md['name'], request=creq[:1500].decode('utf8', 'replace')),
                                            mech='emitted_request_invalid:%s' % err_kind(V.error_log.last_error, creq))
                            else:
                                R.nontrivial('client_request', kind, tuple(gen.shape(t) for _, t in md['args']), tuple(gen.vclass(x) for x in args))
                                R.cell('%s|client_request' % kind)
    if len(R.samples) < 2:
        R.sample({'uid': ir['uid'], 'kind': kind, 'types': [[t['name'], t['ns'], t['base'], len(t['fields'])] for t in ir['types']]})


def err_kind(err, doc):
    s = str(err)
    import re
    m = re.search(r"'([^']*)' is not a valid value of the (local )?atomic type", s)
    if m and re.fullmatch(r'-?[0-9]+(\.[0-9]+)?E[+-]?[0-9]+', m.group(1)):
        return 'decimal_exponent_print'
    for key in ('not a valid value of the atomic type', 'is not a valid value of the local atomic type', 'This element is not expected',
                'Missing child element', 'is not allowed', 'facet'):
        if key in s:
            return key.replace(' ', '_')[:40]
    return 'other'


def verdict_pairs(R, C, ir, kind, rng, tier, repro, exhaustive=False):
    """(3) lxml vs soft verdicts on boundary documents."""
    from spyne.server import ServerBase
    B = C.B
    try:
        Bl = gen.Built(ir)
        inp, outp = c01.make_protocols(kind, 'lxml')
        appl = Bl.app(inp, outp)
        srv_lxml = ServerBase(appl)
    except Exception as e:
        R.skip('lxml application not constructible: %s' % type(e).__name__)
        return
    Wn = refxml.Wire(B, C.wsdl, rng, strict=False)
    budget = 60 if tier == 'quick' else 400
    if exhaustive:
        budget = 10 ** 6
    n = 0
    for sd in ir['services']:
        for md in sd['methods']:
            if md['style'] == 'bare' and 'ref' not in md['args'][0][1]:
                continue
            args = [refval.dense_value(rng, ir, t) for _, t in md['args']]
            if any(a is None for a in args):
                continue
            # the request element itself nilled / emptied: the two validators have to agree on that document as on any other
            if md['style'] == 'wrapped':
                try:
                    base_el = Wn.request_element(md, args)
                except (refxml.NotConformant, refxml.SchemaMismatch, KeyError, TypeError, AttributeError):
                    base_el = None
                for label in (('message_nil', 'message_empty', 'message_nil_with_children') if base_el is not None else ()):
                    el = copy.deepcopy(base_el)
                    if label != 'message_nil_with_children':
                        for c in list(el):
                            el.remove(c)
                    if label != 'message_empty':
                        el.set('{%s}nil' % refxml.XSI, 'true')
                    data = Wn.serialize(el if kind == 'xml' else Wn.envelope(el, 11 if kind == 'soap11' else 12))
                    R.evaluations += 1
                    outs = []
                    for srv, built in ((C.server, B), (srv_lxml, Bl)):
                        built.calls[:] = []
                        built.returns.clear()
                        r = drive.drive_server(srv, data)
                        outs.append('escape' if r.exc is not None else 'reject' if (r.error is not None and not built.calls) else
                                    'accept' if built.calls else 'other')
                    R.count('message_level_documents')
                    if 'escape' in outs:
                        R.skip('an exception escaped (C10 matter)')
                    elif outs[0] != outs[1]:
                        R.violation('soft validation says %s, schema validation says %s for a request whose message element is %s' % (
                            outs[0], outs[1], label), dict(repro, method=md['name'], label=label, request_b64=base64.b64encode(data).decode()),
                            mech='verdicts_disagree:%s:soft_%ss' % (label, outs[0]))
                    else:
                        R.nontrivial('pair', kind, 'message', label, outs[0])
            for ai, ((an, at), av) in enumerate(zip(md['args'], args)):
                sl = list(refval.slots(ir, at, av, (), 'top'))
                rng.shuffle(sl)
                for path, lt, pos in (sl if exhaustive else sl[:6 if tier == 'quick' else 30]):
                    for val, label in refval.boundary_values(rng, lt, lexical=False):
                        if n >= budget:
                            return
                        if isinstance(val, tuple) and val and val[0] == 'COUNT':
                            cur = av
                            try:
                                for k in path:
                                    cur = cur[k]
                            except (KeyError, IndexError, TypeError):
                                continue
                            if not cur:
                                continue
                            val = [cur[i % len(cur)] for i in range(val[1])]
                        if md['style'] == 'bare' and not path and (val is None or val is refval.NIL):
                            continue
                        if label == 'double_nan' and any(k in (lt.get('facets') or {}) for k in ('ge', 'gt', 'le', 'lt')):
                            # XSD 1.0 part 2, 3.2.4/3.2.5: a bounding facet excludes NaN from the value space. libxml2 lets it through;
                            # on this one input lxml is not the schema's word
                            R.count('nan_with_bounds_not_judged')
                            continue
                        if val is refval.NIL and (pos == 'attribute' or is_xmldata(ir, at, path)):
                            continue          # an attribute / text content cannot be nil
                        if val is refval.NIL and has_required_attribute(ir, lt):
                            continue          # whether a nilled element must still carry its required attributes is XSD's rule, not a declared facet
                        if val is None and is_xmldata(ir, at, path):
                            continue
                        mutated = list(args)
                        try:
                            mutated[ai] = refval.set_at(av, path, val)
                        except (KeyError, IndexError, TypeError):
                            continue
                        try:
                            req = Wn.request_element(md, mutated)
                        except (refxml.NotConformant, refxml.SchemaMismatch, KeyError, TypeError, AttributeError):
                            R.skip('boundary request not expressible')
                            continue
                        data = Wn.serialize(req if kind == 'xml' else Wn.envelope(req, 11 if kind == 'soap11' else 12))
                        n += 1
                        R.evaluations += 1
                        outs = []
                        for srv, built in ((C.server, B), (srv_lxml, Bl)):
                            built.calls[:] = []
                            built.returns.clear()
                            r = drive.drive_server(srv, data)
                            if r.exc is not None:
                                outs.append(('escape', type(r.exc).__name__))
                            elif r.error is not None and not built.calls:
                                outs.append(('reject', str(getattr(r.error, 'faultcode', ''))))
                            elif built.calls:
                                outs.append(('accept', ''))
                            else:
                                outs.append(('other', ''))
                        R.count('verdict_pairs_compared')
                        viol = refval.check_call(ir, md, mutated)
                        facets = sorted(set(f for _, f in viol))
                        case = dict(repro, method=md['name'], slot='%s%s' % (an, ''.join('[%r]' % (p,) for p in path)), label=label,
                                    facets=facets, request_b64=base64.b64encode(data).decode(), position=pos)
                        if outs[0][0] == 'escape' or outs[1][0] == 'escape':
                            R.skip('an exception escaped (C10 matter)')
                            continue
                        label_is_xmldata[0] = is_xmldata(ir, at, path)
                        if outs[0][0] != outs[1][0]:
                            R.violation('soft validation says %s, schema validation says %s for %s at %s (violated facets per reference: %s)' % (
                                outs[0][0], outs[1][0], label, case['slot'], facets or 'none'), case,
                                mech='verdicts_disagree:%s' % disagree_kind(outs, facets, lt, label, pos))
                        else:
                            R.nontrivial('pair', kind, pos.split(':')[0], gen.shape(lt), label.split('_')[0], outs[0][0])
                            R.cell('%s|pairs|%s' % (kind, outs[0][0]))


def has_required_attribute(ir, t):
    t = t.get('seq') or t.get('array') or t
    if 'ref' not in t:
        return False
    return any('attr' in ft and ft['attr'].get('min_occurs', 0) >= 1 for _, ft in gen.all_fields(ir, t['ref']))


def is_xmldata(ir, t, path):
    cur = t
    for k in path:
        if isinstance(k, int):
            cur = cur.get('array') or cur.get('seq')
        else:
            fields = dict(gen.all_fields(ir, cur['ref']))
            cur = fields[k]
    return 'xmldata' in cur


label_is_xmldata = [False]


def disagree_kind(outs, facets, lt, label, pos):
    who = 'soft_accepts' if outs[0][0] == 'accept' else 'soft_rejects'
    if pos == 'attribute' and who == 'soft_accepts':
        return 'soft_validation_skips_xml_attributes'
    if label_is_xmldata[0] and who == 'soft_accepts':
        return 'soft_validation_skips_xmldata_text'
    return '%s:%s:%s' % (who, '+'.join(facets) or 'none', gen.shape(lt)[:24])


def run_inheritance(R, spec):
    ir = gen.inheritance_ir()
    kind = spec['kind']
    rng = core.rng_for(spec['seed'], PROP, spec['shard'])
    repro = {'seed': spec['seed'], 'uid': ir['uid'], 'kind': kind}
    C = c01.Ctx(ir, kind, 'soft', rng)
    R.evaluations += 1
    if C.schema_validator is None:
        R.violation('the published schema does not compile: %s' % getattr(C, 'schema_error', '?')[:300], repro, mech='schema_compile:inheritance_universe')
        return
    R.count('schemas_compiled')
    # what spyne writes for objects of a three-level class tree (members at every level) is valid against the schema it publishes
    for rep in range(2 if spec['tier'] == 'quick' else 8):
        emitted(R, C, ir, kind, rng, spec['tier'], repro)
    for rep in range(1 if spec['tier'] == 'quick' else 4):
        verdict_pairs(R, C, ir, kind, rng, spec['tier'], repro, exhaustive=True)
    R.count('inheritance_universe_runs')


def named_chains(R, spec):
    """Simple types derived in several steps, some of them given a name (type_name=) and some not: the schema must compile, and every step's
    constraint must be in it - a value that breaks the constraint of any ancestor is refused by the schema exactly as by the soft validator."""
    import decimal as _d
    from lxml import etree
    from spyne import Application, Service, rpc, Unicode, Integer, Decimal, ComplexModel, Array
    from spyne.server import ServerBase
    ns = 'urn:vf:c06:chains'
    # (base type, [(kwargs of one step, a literal this step refuses)], a literal every step accepts)
    families = [
        (Unicode, [(dict(pattern='[a-z]+'), 'ABC'), (dict(max_len=5), 'abcdefgh'), (dict(min_len=2), 'a')], 'abc'),
        (Integer, [(dict(ge=0), '-1'), (dict(le=100), '101'), (dict(gt=1), '1')], '50'),
        (Decimal, [(dict(ge=_d.Decimal('0.5')), '0.25'), (dict(le=_d.Decimal('9.5')), '10'), (dict(gt=_d.Decimal('1')), '1')], '2.5'),
        (Unicode, [(dict(values=['aa', 'bb', 'cccccc']), 'zz'), (dict(max_len=4), 'cccccc')], 'aa'),
        # an inclusive and an exclusive bound of the same value on one side, given in one step or in two, in either order
        (Integer, [(dict(ge=5), '4'), (dict(gt=5), '5')], '6'),
        (Integer, [(dict(gt=5), '5'), (dict(ge=5), '4')], '6'),
        (Integer, [(dict(le=10), '11'), (dict(lt=10), '10')], '9'),
        (Integer, [(dict(lt=10), '10'), (dict(le=10), '11')], '9'),
        (Integer, [(dict(ge=5, gt=5), '5')], '6'),
        (Integer, [(dict(le=10, lt=10), '10')], '9'),
        (Decimal, [(dict(lt=_d.Decimal('2.5')), '2.5'), (dict(le=_d.Decimal('2.5')), '2.6')], '1.5'),
        (Decimal, [(dict(ge=_d.Decimal('0.5'), gt=_d.Decimal('0.5')), '0.5'), (dict(le=_d.Decimal('9.5'), lt=_d.Decimal('9.5')), '9.5')], '2.5'),
    ]
    n = 0
    for base, steps, good in families:
        for k in range(1, len(steps) + 1):
            for named in itertools.product((False, True), repeat=k):
                n += 1
                R.evaluations += 1
                t = base
                for i, ((kw, _), nm) in enumerate(zip(steps[:k], named)):
                    t = t.customize(**(dict(kw, type_name='N%d_%d' % (n, i)) if nm else kw)) if t is not base else base(**(dict(kw, type_name='N%d_%d' % (n, i)) if nm else kw))
                case = {'scenario': 'named_chains', 'seed': spec['seed'], 'base': base.__name__, 'steps': [sorted(kw) for kw, _ in steps[:k]], 'named': list(named)}
                H = type('H%d' % n, (ComplexModel,), {'__namespace__': ns, 'v': t, 'vs': Array(t)})
                S = type('ChainSvc%d' % n, (Service,), {'f': rpc(t, H, _returns=t)(lambda ctx, a, h: a)})
                verdicts = {}
                for validator in ('soft', 'lxml'):
                    try:
                        inp, outp = c01.make_protocols('xml', validator)
                        srv = ServerBase(Application([S], ns, name='Chain%d' % n, in_protocol=inp, out_protocol=outp))
                    except Exception as e:
                        R.violation('application with a %d-step chain (named: %s) of %s cannot be built with validator=%s: %s: %s' % (k, list(named), base.__name__, validator,
                                    type(e).__name__, str(e)[:160]), case, mech='named_chain:schema_does_not_compile' if 'XMLSchema' in type(e).__name__ else
                                    'named_chain:construction:%s' % type(e).__name__)
                        verdicts = None
                        break
                    for label, lit in [('good', good)] + [('breaks_step_%d' % i, bad) for i, (_, bad) in enumerate(steps[:k])]:
                        for slot in ('arg', 'member'):
                            inner = {'arg': '<t:a>%s</t:a><t:h><t:v>%s</t:v></t:h>' % (lit, good), 'member': '<t:a>%s</t:a><t:h><t:v>%s</t:v></t:h>' % (good, lit),
                                     'item': '<t:a>%s</t:a><t:h><t:v>%s</t:v><t:vs><t:X>%s</t:X></t:vs></t:h>' % (good, good, lit)}[slot]
                            if slot == 'item':
                                # the item element is named after the type: ask the application
                                item_name = list(H._type_info['vs']._type_info.keys())[0]
                                inner = inner.replace('t:X', 't:' + item_name)
                            r = drive.drive_server(srv, ('<t:f xmlns:t="%s">%s</t:f>' % (ns, inner)).encode())
                            verdicts[(validator, label, slot)] = 'escape' if r.exc is not None else 'refused' if r.error is not None else 'accepted'
                if verdicts is None:
                    continue
                R.count('named_chains_built')
                for (validator, label, slot), v in sorted(verdicts.items()):
                    want = 'accepted' if label == 'good' else 'refused'
                    R.count('named_chain_verdicts')
                    if v != want:
                        R.violation('%d-step chain of %s (named: %s), %s validator, %s at %s: %s, expected %s' % (k, base.__name__, list(named), validator, label, slot, v, want),
                                    dict(case, validator=validator, label=label, slot=slot), mech='named_chain:%s:%s_%s' % (validator, label.split('_')[0], v))
                R.nontrivial('named_chains', base.__name__, k, named)


def run(spec, R):
    if spec.get('mode') == 'named_chains':
        named_chains(R, spec)
        for k in REQUIRED_COUNTERS:
            R.count(k, 0)
        return
    if spec.get('mode') == 'inheritance':
        run_inheritance(R, spec)
        for k in REQUIRED_COUNTERS:
            R.count(k, 0)
        return
    for uid in range(spec['first'], spec['first'] + spec['count']):
        run_universe(R, spec['seed'], uid, spec['tier'])


def replay(v, R):
    c = v['repro']
    if c.get('scenario') == 'named_chains':
        named_chains(R, {'seed': c['seed']})
        for x in R.violations[:10]:
            print('replayed:', x.get('mech'), x.get('what')[:300])
        return
    if c.get('uid') == 9100:
        run_inheritance(R, {'seed': c['seed'], 'kind': c['kind'], 'shard': 'inh/%s' % c['kind'], 'tier': 'thorough'})
    else:
        run_universe(R, c['seed'], c['uid'], 'thorough')
    for x in R.violations[:10]:
        print('replayed:', x.get('mech'), x.get('what')[:300])


def classify(v):
    return v.get('mech')
