"""C04 - user code only ever receives values of the declared types.

Valid requests (reference codecs) are mutated type-directedly: every element
retagged with xsi:type = every class of the interface and a set of xs builtins;
in dict documents every position replaced by values of every other kind
(scalar / map / list / null) and wrapper keys renamed to every known type name.
A type-tree walker inspects what user code received: the only acceptable
outcomes are {function ran and every node is None / of the declared native
type / a registered subclass / a list of such} or {function did not run and a
Client.*ValidationError-family fault}.
"""
import base64
import copy
import datetime
import decimal
import uuid

from lxml import etree

from vflib import core, drive, gen, refdict, refval, refxml
from checks import c01

PROP = 'C04'
LEVEL = 'exploration'
RULE = ('random universes; dense valid requests; mutations: xsi:type retag of every element with every published class and xs builtins '
        '(validators None, soft, lxml), the same retagging on the declared SOAP request header and its descendants (what user code reads as '
        'ctx.in_header; Soap11/Soap12, validators None, soft, lxml), kind swaps scalar/map/list/null at every position of JSON, YAML and MessagePack requests and '
        'wrapper-key renames (validator soft); non-trivial = a mutated request that was processed and classified; distinct by '
        '(protocol, validator, mutation kind, declared slot shape, substituted kind, outcome).'
        ' Also: JsonRpc(\'spyne\') as input protocol, attribute-bearing classes in the dict families, one member and one attribute of every primitive kind x every substitute kind (incl. chunk sequences that mix kinds), two unrelated hierarchies with legitimate traffic first; every mutation run is preceded by the unmutated request, which has to be served.')
ASSUMPTIONS = [
    'native types: int for the integer family, Decimal, float, bool, str, datetime/date/time/timedelta, UUID, list/tuple of bytes for ByteArray, str member name for Enum',
    'an exception escaping the pipeline is also a C10 matter; it is a C04 violation here because the request was not answered with a validation fault',
]
REQUIRED_COUNTERS = ('mutations_sent', 'type_trees_walked', 'rejections_classified', 'headers_walked')
SHARD_TIMEOUT = {'quick': 900, 'thorough': 3000}
OK_FAULTS = ('Client.ValidationError', 'Client.SchemaValidationError')


def shards(tier, seed):
    n = 16 if tier == 'quick' else 48
    per = 2 if tier == 'quick' else 5
    return [{'shard': 'u%d' % i, 'tier': tier, 'seed': seed, 'first': i * per, 'count': per} for i in range(n)]


def universe(seed, uid, attrs=False):
    rng = core.rng_for(seed, PROP, 'uni%d%s' % (uid, 'a' if attrs else ''))
    o = gen.Opts(sub_names=True, bare_prims=True, max_types=4, nested_arrays=0.0, styles=('wrapped', 'wrapped', 'bare'), multi_return=False, methods=(1, 3), services=(1, 1),
                 attrs=attrs)
    ir = gen.rand_universe(rng, o, uid=uid)
    if uid % 3 == 2:
        # members and arguments that hold partial objects (novalidate_freq()): nothing but the occurrence counts is waived there
        for c in ir['types']:
            for fn, ft in c['fields']:
                if 'ref' in ft and rng.random() < .6:
                    ft['novalidate_freq'] = True
        for sd in ir['services']:
            for md in sd['methods']:
                for an, at in md['args']:
                    if 'ref' in at and md['style'] != 'bare' and rng.random() < .6:
                        at['novalidate_freq'] = True
    return ir


NATIVE = {'integer': int, 'decimal': (decimal.Decimal, int), 'double': (float, int), 'boolean': bool, 'string': str, 'dateTime': datetime.datetime,
          'date': datetime.date, 'time': datetime.time, 'duration': datetime.timedelta, 'uuid': uuid.UUID}


def typecheck(B, t, o, path, out):
    """append (path, problem) for every node that is not of the declared type"""
    if o is None:
        return
    if 'attr' in t:
        return typecheck(B, t['attr'], o, path, out)
    if 'xmldata' in t:
        return typecheck(B, t['xmldata'], o, path, out)
    if 'prim' in t:
        kind = t['prim']
        if kind == 'ByteArray':
            if isinstance(o, (bytes, bytearray, memoryview)):
                return
            if isinstance(o, (list, tuple)) and all(isinstance(x, (bytes, bytearray, memoryview)) for x in o):
                return
            if isinstance(o, tuple) and len(o) == 1 and (isinstance(o[0], str) or (
                    isinstance(o[0], (list, tuple)) and all(isinstance(c, (str, bytes, bytearray, memoryview)) for c in o[0]))):
                # text, or a sequence of text / binary chunks, handed over undecoded inside a one-element tuple
                out.append((path, 'ByteArray slot holds undecoded text or chunks in a tuple'))
                return
            out.append((path, 'ByteArray slot holds %s %r' % (type(o).__name__, repr(o)[:60])))
            return
        ek = gen.eqkind(kind)
        want = NATIVE[ek]
        if ek in ('integer', 'decimal', 'double') and isinstance(o, bool):
            return      # bool is an int in Python: recorded by the caller, not judged
        if ek == 'date' and isinstance(o, datetime.datetime):
            out.append((path, 'Date slot holds datetime'))
            return
        if not isinstance(o, want):
            out.append((path, '%s slot holds %s %r' % (kind, type(o).__name__, str(o)[:40])))
        return
    if 'enum' in t:
        if str(o) not in t['enum']:
            out.append((path, 'Enum slot holds %s %r' % (type(o).__name__, str(o)[:40])))
        return
    if 'array' in t or 'seq' in t:
        inner = t.get('array') or t.get('seq')
        if isinstance(o, (str, bytes, dict)) or not hasattr(o, '__iter__'):
            out.append((path, 'array slot holds %s' % type(o).__name__))
            return
        for i, x in enumerate(o):
            typecheck(B, inner, x, '%s[%d]' % (path, i), out)
        return
    if 'ref' in t:
        cls = B.classes[t['ref']]
        if not isinstance(o, cls):
            out.append((path, '%s slot holds instance of %s' % (t['ref'], type(o).__name__)))
            return
        # runtime class may be a registered subclass: walk its own fields
        cname = t['ref']
        for n, c in B.classes.items():
            if type(o) is c or getattr(type(o), '__orig__', None) is c:
                cname = n
        for fn, ft in B.all_fields(cname):
            typecheck(B, ft, getattr(o, ft.get('py', fn), None), '%s.%s' % (path, fn), out)
        return


def classify_outcome(R, B, md, r_exc, r_exc_stage, fault, case, what):
    """common verdict for one mutated request"""
    R.count('mutations_sent')
    names = [c[0] for c in B.calls]
    if r_exc is not None:
        R.violation('%s: %s raised %s: %s' % (what, r_exc_stage, type(r_exc).__name__, str(r_exc)[:120]), case,
                    mech='escape:%s:%s:%s' % (case['family'], type(r_exc).__name__, drive.innermost_spyne_frame(r_exc)))
        return 'escape'
    if names:
        if names != [md['name']]:
            R.violation('%s: functions entered %r' % (what, names), case, mech='invocation_count')
            return 'bad'
        probs = []
        R.count('type_trees_walked')
        for (an, at), o in zip(md['args'], B.calls[0][1]):
            typecheck(B, at, o, an, probs)
        if probs:
            mech = 'untyped_value_delivered:%s:%s' % (case['family'], case['mutation'])
            if case['family'].startswith('msgpack') and all('ByteArray slot holds undecoded text or chunks in a tuple' in p[1] for p in probs):
                mech = 'msgpack_bytearray_chunks_not_bytes'
            R.violation('%s: user code received %s' % (what, '; '.join('%s: %s' % p for p in probs[:3])), case, mech=mech)
            return 'bad'
        return 'entered_typed'
    R.count('rejections_classified')
    code = fault or ''
    if not any(code.startswith(p) for p in OK_FAULTS):
        R.violation('%s: rejected with %r, not a client-side validation fault' % (what, fault), case,
                    mech='wrong_rejection:%s:%s:%s' % (case['family'], case['mutation'], (code or 'none').split('.')[0] + ('.' + code.split('.')[1] if '.' in code else '')))
        return 'bad'
    return 'rejected'


# ---------------------------------------------------------------- XML: xsi:type retagging

def xml_mutations(R, ir, kind, validator, rng, tier, repro):
    try:
        C = c01.Ctx(ir, kind, validator, rng)
    except Exception as e:
        R.skip('universe rejected at construction: %s' % type(e).__name__)
        return
    B, W = C.B, C.W
    S = W.schema
    cands = []
    for tq, (k, node, tns) in S.types.items():
        cands.append(tq)
    cands = sorted(cands)
    rng.shuffle(cands)
    cands = cands[:6 if tier == 'quick' else 40]
    builtins = ['string', 'int', 'integer', 'date', 'anyType', 'boolean', 'base64Binary', 'decimal']
    budget = 60 if tier == 'quick' else 500
    n = 0
    for md in ir['services'][0]['methods']:
        args = [refval.dense_value(rng, ir, t) for _, t in md['args']]
        if any(a is None for a in args):
            continue
        try:
            root = W.request_element(md, args)
        except (refxml.NotConformant, refxml.SchemaMismatch):
            continue
        elements = [e for e in root.iter() if isinstance(e.tag, str)]
        rng.shuffle(elements)
        for el in elements[:8 if tier == 'quick' else 60]:
            path = root.getroottree().getelementpath(el)
            subs = [('class', tq) for tq in cands] + [('builtin', Q) for Q in builtins]
            rng.shuffle(subs)
            for skind, target in subs[:5 if tier == 'quick' else 30]:
                if n >= budget:
                    return
                doc = copy.deepcopy(root)
                e2 = doc if el is root else doc.find(path)
                if e2 is None:
                    continue
                if skind == 'class':
                    ns, _, local = target[1:].partition('}')
                    pfx = [p for p, u in doc.nsmap.items() if u == ns and p]
                    if not pfx:
                        continue
                    e2.set('{%s}type' % refxml.XSI, '%s:%s' % (pfx[0], local))
                else:
                    e2.set('{%s}type' % refxml.XSI, 'xs:%s' % target)
                    etree.cleanup_namespaces(doc)
                    doc.set('{%s}dummy' % refxml.XS, 'x') if False else None
                data = W.serialize(doc if kind == 'xml' else W.envelope(doc, 11 if kind == 'soap11' else 12))
                if skind == 'builtin':
                    data = data.replace(b'xmlns:xsi=', b'xmlns:xs="http://www.w3.org/2001/XMLSchema" xmlns:xsi=', 1)
                n += 1
                R.evaluations += 1
                B.calls[:] = []
                B.returns.clear()
                r = drive.drive_server(C.server, data)
                fault = r.error.faultcode if r.error is not None else None
                if fault and ':' in fault:
                    fault = fault.split(':', 1)[1]
                case = dict(repro, family=kind, validator=validator, mutation='xsi_type_%s' % skind, target=str(target), at=path,
                            request_b64=base64.b64encode(data[:5000]).decode())
                out = classify_outcome(R, B, md, r.exc, r.exc_stage, fault, case, 'xsi:type=%s on %s' % (target, path))
                if out in ('entered_typed', 'rejected'):
                    R.nontrivial(kind, validator, 'xsi_type', skind, out, len(path.split('/')))
                    R.cell('%s|%s|xsi_type|%s' % (kind, validator, out))
                    if len(R.samples) < 2 and out == 'rejected':
                        R.sample({'kind': kind, 'validator': validator, 'xsi_type': str(target), 'at': path, 'fault': fault})


# ---------------------------------------------------------------- SOAP headers: xsi:type retagging

def universe_h(seed, uid):
    rng = core.rng_for(seed, PROP, 'unih%d' % uid)
    o = gen.Opts(sub_names=True, max_types=4, nested_arrays=0.0, styles=('wrapped',), multi_return=False, methods=(2, 3), services=(1, 1), attrs=False, headers=True)
    ir = gen.rand_universe(rng, o, uid=uid)
    hc = [t['name'] for t in ir['types'] if not t.get('has_xmldata') and t['fields']]
    for md in ir['services'][0]['methods']:
        md.pop('throws', None)
        md.pop('out_header', None)
        if hc and not md.get('in_header'):
            md['in_header'] = rng.choice(hc)
    ir.pop('faults', None)
    return ir


def header_mutations(R, ir, kind, validator, rng, tier, repro):
    """the declared SOAP request header is what user code reads as ctx.in_header: retag it and its descendants"""
    try:
        C = c01.Ctx(ir, kind, validator, rng)
    except Exception as e:
        R.skip('universe rejected at construction: %s' % type(e).__name__)
        return
    B, W = C.B, C.W
    S = W.schema
    cands = sorted(S.types)
    rng.shuffle(cands)
    cands = cands[:8 if tier == 'quick' else 40]
    builtins = ['string', 'int', 'anyType', 'date']
    tds = {t['name']: t for t in ir['types']}
    for md in ir['services'][0]['methods']:
        hname = md.get('in_header')
        if not hname:
            continue
        args = [refval.dense_value(rng, ir, t) for _, t in md['args']]
        hval = refval.dense_value(rng, ir, {'ref': hname})
        if any(a is None for a in args) or hval is None:
            continue
        heq = refxml.Q(tds[hname]['ns'], hname)
        if heq not in S.elements:
            R.skip('header class has no global element in the published schema')
            continue
        try:
            body = W.request_element(md, args)
            hroot = etree.Element(heq, nsmap=W.nsmap)
            W.codec.fill(hroot, S.elements[heq][0], {'ref': hname}, hval)
        except (refxml.NotConformant, refxml.SchemaMismatch):
            continue
        ver = 11 if kind == 'soap11' else 12

        def send(hdoc, mutation, target, path):
            data = W.serialize(W.envelope(copy.deepcopy(body), ver, [hdoc]))
            if mutation == 'xsi_type_builtin':
                data = data.replace(b'xmlns:xsi=', b'xmlns:xs="http://www.w3.org/2001/XMLSchema" xmlns:xsi=', 1)
            R.evaluations += 1
            B.calls[:] = []
            B.returns.clear()
            r = drive.drive_server(C.server, data)
            fault = r.error.faultcode if r.error is not None else None
            if fault and ':' in fault:
                fault = fault.split(':', 1)[1]
            case = dict(repro, family=kind, validator=validator, mutation='header_' + mutation, target=str(target), at=path, header=True,
                        request_b64=base64.b64encode(data[:5000]).decode())
            out = classify_outcome(R, B, md, r.exc, r.exc_stage, fault, case, 'header %s=%s on %s' % (mutation, target, path))
            if out == 'entered_typed':
                hdr = getattr(B.calls[0][2], 'in_header', None)
                probs = []
                R.count('headers_walked')
                for h in (hdr if isinstance(hdr, (list, tuple)) else [hdr]):
                    typecheck(B, {'ref': hname}, h, 'in_header', probs)
                if probs:
                    R.violation('header %s=%s on %s: user code received %s' % (mutation, target, path, '; '.join('%s: %s' % p for p in probs[:3])), case,
                                mech='untyped_header_delivered:%s:%s' % (kind, mutation))
                    return
            if out in ('entered_typed', 'rejected'):
                R.nontrivial(kind, validator, 'header', mutation, out, len(path.split('/')))
                R.cell('%s|%s|header|%s' % (kind, validator, out))
        send(copy.deepcopy(hroot), 'valid', '-', '.')
        elements = [e for e in hroot.iter() if isinstance(e.tag, str)]
        rng.shuffle(elements)
        elements = [hroot] + [e for e in elements if e is not hroot]
        for el in elements[:4 if tier == 'quick' else 30]:
            path = hroot.getroottree().getelementpath(el)
            subs = [('class', tq) for tq in cands] + [('builtin', q) for q in builtins]
            rng.shuffle(subs)
            for skind, target in subs[:6 if tier == 'quick' else 40]:
                doc = copy.deepcopy(hroot)
                e2 = doc if el is hroot else doc.find(path)
                if e2 is None:
                    continue
                if skind == 'class':
                    ns, _, local = target[1:].partition('}')
                    pfx = [p_ for p_, u in doc.nsmap.items() if u == ns and p_]
                    if not pfx:
                        continue
                    e2.set('{%s}type' % refxml.XSI, '%s:%s' % (pfx[0], local))
                else:
                    e2.set('{%s}type' % refxml.XSI, 'xs:%s' % target)
                send(doc, 'xsi_type_' + skind, target, path)


# ---------------------------------------------------------------- dict documents: kind swaps and wrapper renames

SUBST = [('null', None), ('int', 5), ('str', 'text'), ('bool', True), ('float', 1.5), ('empty_map', {}), ('map', {'x': 1}), ('empty_list', []),
         ('list', [1, 'a']), ('list_of_maps', [{'a': 1}]), ('nested_list', [[1]]),
         # kinds only some carriers can spell (the others skip them): binary that is not UTF-8, integers beyond 64 bits, NaN / infinities,
         # native dates (YAML), zero-like values of every kind
         ('bin_not_utf8', b'\xff\xfe'), ('bigint', 2 ** 70), ('negbigint', -2 ** 70), ('nan', float('nan')), ('inf', float('inf')),
         ('date', datetime.date(2020, 1, 2)), ('datetime', datetime.datetime(2020, 1, 2, 3, 4, 5)), ('zero', 0), ('false', False), ('empty_str', ''),
         ('zero_float', 0.0),
         # sequences that hold a genuine chunk of text / binary next to something else (a binary value may travel as a sequence of chunks)
         ('chunks_bytes_int', [b'ab', 5]), ('chunks_map_bytes', [{'x': 1}, b'cd']), ('chunks_str_float', ['YWI=', 5.5]),
         ('chunks_bytes_list', [b'ab', [b'cd']]), ('chunks_bytes_null', [b'ab', None]), ('chunks_bytes_bool', [b'ab', True])]


def positions(doc, path=()):
    """all positions (paths) inside a request structure, below the method key"""
    yield path
    if isinstance(doc, dict):
        for k, v in doc.items():
            for p in positions(v, path + (k,)):
                yield p
    elif isinstance(doc, list):
        for i, v in enumerate(doc):
            for p in positions(v, path + (i,)):
                yield p


def set_path(doc, path, value):
    doc = copy.deepcopy(doc)
    if not path:
        return value
    cur = doc
    for k in path[:-1]:
        cur = cur[k]
    cur[path[-1]] = value
    return doc


def kind_of(v):
    if v is None:
        return 'null'
    if isinstance(v, bool):
        return 'bool'
    if isinstance(v, dict):
        return 'map'
    if isinstance(v, (list, tuple)):
        return 'list'
    if isinstance(v, (int, float)):
        return 'number'
    if isinstance(v, str):
        return 'text'
    if isinstance(v, (bytes, bytearray)):
        return 'binary'
    return 'scalar'


def dict_mutations(R, ir, fmt, wrappers, rng, tier, repro):
    from spyne.server import ServerBase
    from checks import c02
    conf = refdict.Conf(fmt, not wrappers, 'dict', False)
    try:
        B = gen.Built(ir)
        inp, outp = c02.make_protocols(conf, 'soft')
        if fmt == 'jsonrpc':
            from spyne.protocol.json import JsonDocument
            outp = JsonDocument()
        app = B.app(inp, outp)
        server = ServerBase(app)
    except Exception as e:
        R.skip('universe rejected at construction: %s' % type(e).__name__)
        return
    codec = refdict.Codec(ir, conf)
    budget = 80 if tier == 'quick' else 600
    n = 0
    type_names = [t['name'] for t in ir['types']]
    for md in ir['services'][0]['methods']:
        args = [refval.dense_value(rng, ir, t) for _, t in md['args']]
        if any(a is None for a in args):
            continue
        try:
            doc = codec.request(md, args)
        except Exception:
            continue
        (mkey, body), = doc.items()
        # the request as it is has to be served: a mutation of a request that is refused anyway shows nothing
        B.calls[:] = []
        r0 = drive.drive_server(server, codec.dumps(doc))
        if r0.error is not None or r0.exc is not None or not B.calls:
            R.skip('the unmutated request is not served (%s)' % (getattr(r0.error, 'faultcode', None) or type(r0.exc).__name__))
            R.count('baseline_requests_refused')
            continue
        R.count('baseline_requests_served')
        pos = list(positions(body))
        rng.shuffle(pos)
        muts = []
        for p in pos[:10 if tier == 'quick' else 80]:
            cur = body
            for k in p:
                cur = cur[k]
            for sname, sval in SUBST:
                if kind_of(sval) == kind_of(cur) and sname not in ('list', 'map', 'list_of_maps', 'nested_list') and not sname.startswith('chunks_'):
                    continue
                muts.append(('kind_swap:%s->%s' % (kind_of(cur), sname), p, sval))
            if wrappers and isinstance(cur, dict) and len(cur) == 1 and list(cur)[0] in type_names:
                for tn in type_names + ['NoSuchType', mkey]:
                    if tn != list(cur)[0]:
                        muts.append(('wrapper_rename', p, {tn: list(cur.values())[0]}))
        rng.shuffle(muts)
        for mname, p, sval in muts[:25 if tier == 'quick' else 200]:
            if n >= budget:
                return
            try:
                mdoc = {mkey: set_path(body, p, sval)}
                data = codec.dumps(mdoc)
            except Exception:
                continue
            n += 1
            R.evaluations += 1
            B.calls[:] = []
            B.returns.clear()
            r = drive.drive_server(server, data)
            fault = r.error.faultcode if r.error is not None else None
            case = dict(repro, family=fmt + ('+wrappers' if wrappers else ''), validator='soft', mutation=mname.split(':')[0], detail=mname,
                        at=repr(p), request=repr(mdoc)[:1500])
            out = classify_outcome(R, B, md, r.exc, r.exc_stage, fault, case, '%s at %r' % (mname, p))
            if out in ('entered_typed', 'rejected'):
                R.nontrivial(fmt, wrappers, mname, out, len(p))
                R.cell('%s|%s|%s' % (fmt, mname.split(':')[0], out))
                if len(R.samples) < 4 and out == 'rejected':
                    R.sample({'format': fmt, 'mutation': mname, 'at': repr(p), 'fault': fault})


def jsonrpc_header_mutations(R, ir, rng, tier, repro):
    """JsonRpc('spyne') carries request headers next to the body ("head"): what user code reads as ctx.in_header, value kinds swapped"""
    import json
    from spyne.server import ServerBase
    from checks import c02
    conf = refdict.Conf('jsonrpc', True, 'dict', False)
    try:
        B = gen.Built(ir)
        inp, outp = c02.make_protocols(conf, 'soft')
        server = ServerBase(B.app(inp, outp))
    except Exception as e:
        R.skip('universe rejected at construction: %s' % type(e).__name__)
        return
    codec = refdict.Codec(ir, conf)
    for md in ir['services'][0]['methods']:
        hname = md.get('in_header')
        if not hname or isinstance(hname, (list, tuple)):
            continue
        args = [refval.dense_value(rng, ir, t) for _, t in md['args']]
        hval = refval.dense_value(rng, ir, {'ref': hname})
        if any(a is None for a in args) or hval is None:
            continue
        try:
            doc = codec.request(md, args)
            head = codec.enc({'ref': hname}, hval)
        except Exception:
            continue

        def send(h):
            B.calls[:] = []
            B.returns.clear()
            return drive.drive_server(server, json.dumps({'ver': 1, 'head': h, 'body': doc}).encode('utf8'))
        r0 = send(head)
        if r0.error is not None or r0.exc is not None or not B.calls:
            R.skip('the unmutated request with a header is not served (%s)' % (getattr(r0.error, 'faultcode', None) or type(r0.exc).__name__))
            R.count('baseline_requests_refused')
            continue
        R.count('baseline_requests_served')
        pos = [p for p in positions(head)]
        rng.shuffle(pos)
        muts = []
        for p in pos[:8 if tier == 'quick' else 60]:
            cur = head
            for k in p:
                cur = cur[k]
            for sname, sval in SUBST:
                if kind_of(sval) == kind_of(cur) and sname not in ('list', 'map', 'list_of_maps', 'nested_list') and not sname.startswith('chunks_'):
                    continue
                muts.append(('kind_swap:%s->%s' % (kind_of(cur), sname), p, sval))
        rng.shuffle(muts)
        for mname, p, sval in muts[:30 if tier == 'quick' else 250]:
            try:
                mhead = set_path(head, p, sval)
                json.dumps(mhead)
            except Exception:
                continue
            R.evaluations += 1
            r = send(mhead)
            fault = r.error.faultcode if r.error is not None else None
            case = dict(repro, family='jsonrpc', validator='soft', mutation='header_' + mname.split(':')[0], detail=mname, at=repr(p), header=True,
                        request=repr(mhead)[:1200])
            out = classify_outcome(R, B, md, r.exc, r.exc_stage, fault, case, 'header %s at %r' % (mname, p))
            if out == 'entered_typed':
                hdr = getattr(B.calls[0][2], 'in_header', None)
                probs = []
                R.count('headers_walked')
                for h in (hdr if isinstance(hdr, (list, tuple)) else [hdr]):
                    typecheck(B, {'ref': hname}, h, 'in_header', probs)
                if probs:
                    R.violation('header %s at %r: user code received %s' % (mname, p, '; '.join('%s: %s' % q for q in probs[:3])), case,
                                mech='untyped_header_delivered:jsonrpc:%s' % mname.split(':')[0])
                    continue
            if out in ('entered_typed', 'rejected'):
                R.nontrivial('jsonrpc', 'header', mname, out, len(p))
                R.cell('jsonrpc|header|%s' % out)


def two_hierarchies_ir():
    ns = 'urn:vf:c04h'
    I = lambda: {'prim': 'Integer', 'facets': {}}
    U = lambda: {'prim': 'Unicode', 'facets': {}}
    T = lambda name, base, fields: {'name': name, 'ns': ns, 'base': base, 'has_xmldata': False, 'fields': fields}
    types = [T('A0', None, [['a', I()]]), T('A1', 'A0', [['b', U()]]), T('A2', 'A1', [['c', I()]]),
             T('B0', None, [['x', U()]]), T('B1', 'B0', [['y', I()]]),
             T('Hold', None, [['one', {'ref': 'A0'}], ['other', {'ref': 'B0'}], ['many', {'array': {'ref': 'A0'}}], ['others', {'array': {'ref': 'B0'}}]])]
    M_ = lambda name, args: {'name': name, 'args': args, 'returns': [], 'style': 'wrapped'}
    return {'uid': 9300, 'tns': ns, 'types': types, 'services': [{'name': 'S', 'methods': [
        M_('ma', [['p', {'ref': 'A0'}]]), M_('mb', [['q', {'ref': 'B0'}]]), M_('mh', [['h', {'ref': 'Hold'}]]),
        M_('mab', [['p', {'ref': 'A1'}], ['q', {'ref': 'B0'}]])]}]}


def hierarchy_workload(R, fmt, validator, rng, tier, repro):
    """two unrelated class hierarchies, wrappers kept (the wrapper key is the type marker): legitimate subclass instances
    first - whatever the protocol instance memoises about markers is memoised - then every marker renamed to every other
    class, twice over the same protocol instance"""
    from spyne.server import ServerBase
    from checks import c02
    ir = two_hierarchies_ir()
    conf = refdict.Conf(fmt, False, 'dict', False)
    B = gen.Built(ir)
    inp, outp = c02.make_protocols(conf, validator)
    for p_ in (inp, outp):
        try:
            p_.polymorphic = True
        except Exception:
            pass
    app = B.app(inp, outp)
    server = ServerBase(app)
    codec = refdict.Codec(ir, conf)
    type_names = [t['name'] for t in ir['types']]
    for rnd in range(2):
        for md in ir['services'][0]['methods']:
            for k in range(2 if tier == 'quick' else 6):
                args = [gen.gen_value(rng, ir, t, top=True, subclass_ok=True) for _, t in md['args']]
                try:
                    doc = codec.request(md, args)
                except Exception:
                    continue
                (mkey, body), = doc.items()
                # the legitimate request
                B.calls[:] = []
                R.evaluations += 1
                r = drive.drive_server(server, codec.dumps(doc))
                R.count('hierarchy_valid_requests')
                muts = []
                for p in positions(body):
                    cur = body
                    for kk in p:
                        cur = cur[kk]
                    if isinstance(cur, dict) and len(cur) == 1 and list(cur)[0] in type_names:
                        for tn in type_names:
                            if tn != list(cur)[0]:
                                muts.append((p, {tn: list(cur.values())[0]}))
                for p, sval in muts:
                    try:
                        mdoc = {mkey: set_path(body, p, sval)}
                        data = codec.dumps(mdoc)
                    except Exception:
                        continue
                    R.evaluations += 1
                    B.calls[:] = []
                    B.returns.clear()
                    r = drive.drive_server(server, data)
                    fault = r.error.faultcode if r.error is not None else None
                    case = dict(repro, family=fmt + '+wrappers', validator=validator, mutation='wrapper_rename', hierarchy=True, round=rnd, at=repr(p),
                                request=repr(mdoc)[:1500])
                    out = classify_outcome(R, B, md, r.exc, r.exc_stage, fault, case, 'marker %s at %r' % (list(sval)[0], p))
                    if out in ('entered_typed', 'rejected'):
                        R.nontrivial(fmt, validator, 'hierarchy_rename', out, len(p), rnd)
                        R.cell('%s|hierarchy_rename|%s' % (fmt, out))


def run_universe(R, seed, uid, tier):
    if uid % 8 == 0 or tier != 'quick':
        rngh = core.rng_for(seed, PROP, 'hier%d' % uid)
        for fmt in ('json', 'yaml', 'msgpack'):
            for validator in ('soft', None):
                hierarchy_workload(R, fmt, validator, rngh, tier, {'seed': seed, 'uid': uid})
    ir = universe(seed, uid)
    rng = core.rng_for(seed, PROP, 'vals%d' % uid)
    repro = {'seed': seed, 'uid': uid}
    xml_confs = [(k, v) for k in ('xml', 'soap11', 'soap12') for v in (None, 'soft', 'lxml')]
    if tier == 'quick':
        xml_confs = rng.sample(xml_confs, 3)
    for kind, validator in xml_confs:
        xml_mutations(R, ir, kind, validator, rng, tier, repro)
    irh = universe_h(seed, uid)
    hconfs = [(k, v) for k in ('soap11', 'soap12') for v in (None, 'soft', 'lxml')]
    if tier == 'quick':
        hconfs = [('soap11', 'lxml'), rng.choice(hconfs)]
    for kind, validator in hconfs:
        header_mutations(R, irh, kind, validator, rng, tier, dict(repro, headers=True))
    dconfs = [(f, w) for f in ('json', 'yaml', 'msgpack') for w in (False, True)]
    if tier == 'quick':
        dconfs = rng.sample(dconfs, 2)
    for fmt, wrappers in dconfs:
        dict_mutations(R, ir, fmt, wrappers, rng, tier, repro)
    # classes with XmlAttribute / XmlData members, which the dict protocols treat as ordinary members of the wrapped type
    ira = universe(seed, uid, attrs=True)
    for fmt, wrappers in (dconfs[:1] if tier == 'quick' else dconfs):
        dict_mutations(R, ira, fmt, wrappers, rng, tier, dict(repro, attrs=True))
    # JsonRpc('spyne'): the JSON conventions inside a versioned envelope, as input protocol
    if uid % 2 == 0 or tier != 'quick':
        dict_mutations(R, ir, 'jsonrpc', False, rng, tier, repro)
        jsonrpc_header_mutations(R, irh, rng, tier, dict(repro, headers=True))


def run(spec, R):
    for uid in range(spec['first'], spec['first'] + spec['count']):
        run_universe(R, spec['seed'], uid, spec['tier'])
    si = spec['first'] // max(spec['count'], 1) if spec.get('count') else spec.get('kinds_family', 99)
    if si < 6:
        # one member and one attribute of every primitive kind: every slot x every substitute kind, one family per shard
        from checks import c10
        fams = [(f, w) for f in ('json', 'yaml', 'msgpack') for w in (False, True)]
        fmt, wrappers = fams[si]
        rng = core.rng_for(spec['seed'], PROP, 'kinds%d' % si)
        ir = c10.all_kinds_universe()
        ir['services'][0]['methods'] = ir['services'][0]['methods'][:1]        # mk(a: KK): members and attributes
        for td in ir['types']:
            # (the members that C10 keeps for malformed binary text would make every request of this check invalid from the start)
            td['fields'] = [f for f in td['fields'] if f[0] not in ('kx', 'ku')]
        dict_mutations(R, ir, fmt, wrappers, rng, 'thorough', {'seed': spec['seed'], 'uid': 9200, 'all_kinds': True})
        R.count('all_kinds_families')


def replay(v, R):
    c = v['repro']
    if c.get('all_kinds'):
        for k in range(6):
            run({'first': 0, 'count': 0, 'kinds_family': k, 'seed': c['seed'], 'tier': 'quick'}, R)
    else:
        run_universe(R, c['seed'], c['uid'], 'thorough')
    for x in R.violations[:10]:
        print('replayed:', x.get('mech'), x.get('what')[:300])


def classify(v):
    return v.get('mech')
