"""C13 - WSGI response protocol and request-size limit.

Fault enumeration: request kinds x CONTENT_LENGTH classes x chunked x
(max_content_length, block_length) grid x client abort after k chunks, through
the real WsgiApplication, under a recording start_response / wsgi.input /
iterator-close monitor on one logical sequence counter, plus the stdlib's own
PEP 3333 checker (wsgiref.validate) as a second monitor.
"""
import re

from vflib import core, drive, miniapp as M

PROP = 'C13'
LEVEL = 'fault_enumeration'
RULE = ('enumeration of request kind x CONTENT_LENGTH class x chunked x (max_content_length, block_length) x '
        'abort-after-k for 9 protocol configurations; a case is non-trivial when start_response was observed and '
        'distinct by (protocol, request kind, CL class, chunked, limit class, abort point, status).'
        ' Request kinds incl. generators and streams failing before/after k items (generator functions and iterator objects), methods choosing the protocol of their own answer, faults the output protocol cannot write, Ignored from multi-return methods, ?wsdl with a rewriting listener and with injected build faults; CONTENT_LENGTH classes incl. text, negative, 5000 digits; lean environs without QUERY_STRING / PATH_INFO / CONTENT_TYPE.')
ASSUMPTIONS = [
    'no clocks: "closed not before the body was handed over" is judged on the logical order of recorded events',
    'when CONTENT_LENGTH is absent or understates the body only the read bound is judged (a server cannot know the real length)',
    'non-numeric / negative CONTENT_LENGTH is outside the quantifier',
    'HttpRpc POST form bodies need werkzeug (absent): HttpRpc is driven with GET',
]
REQUIRED_COUNTERS = ('start_response_seen', 'chunks_seen', 'ctx_close_seen', 'too_long_cases')

KINDS = ('soap11', 'soap12', 'xml', 'json', 'yaml', 'msgpack', 'msgpackrpc', 'httprpc-json', 'httprpc')

REQUESTS = [
    ('ok', 'echo', [('n', 5)]),
    ('ok_text', 'echo_text', [('s', 'héllo')]),
    ('ok_big', 'repeat', [('n', 700)]),
    ('gen', 'count', [('n', 4)]),
    ('gen0', 'count', [('n', 0)]),
    ('chunks', 'chunks', [('n', 5), ('size', 3)]),
    ('chunks0', 'chunks', [('n', 0), ('size', 3)]),
    ('fault_client', 'fail', [('code', 'Client.Custom'), ('msg', 'm1')]),
    ('fault_server', 'fail', [('code', 'Server.Custom'), ('msg', 'm2')]),
    ('exc', 'boom', [('token', 'TOK')]),
    ('gen_exc', 'gboom', [('token', 'TOK')]),          # a generator function that raises before its first yield
    ('gen_late_exc', 'gboom_late', [('token', 'TOK')]),    # ... and one that raises after it
    ('stream', 'stream', [('n', 4), ('fail_after', 9), ('how', '')]),
    ('stream_fault', 'stream', [('n', 4), ('fail_after', 2), ('how', 'fault')]),
    ('stream_exc', 'stream', [('n', 4), ('fail_after', 1), ('how', 'exc')]),
    ('stream_exc0', 'stream', [('n', 4), ('fail_after', 0), ('how', 'exc')]),
    ('lazy', 'lazy', [('n', 4), ('fail_after', 9), ('how', '')]),
    ('lazy_fault', 'lazy', [('n', 4), ('fail_after', 2), ('how', 'fault')]),
    ('lazy_exc', 'lazy', [('n', 4), ('fail_after', 1), ('how', 'exc')]),
    ('lazy_exc0', 'lazy', [('n', 4), ('fail_after', 0), ('how', 'exc')]),
    ('lazy_always', 'lazy', [('n', 4), ('fail_after', 1), ('how', 'always')]),
    ('pair', 'pair', [('n', 3)]), ('pair_ignored', 'pair', [('n', -1)]), ('pair_empty', 'pair', [('n', -2)]), ('pair_short', 'pair', [('n', -3)]),
    ('pair_none', 'pair', [('n', -4)]), ('pair_scalar', 'pair', [('n', -5)]),
    ('fault_odd_ctl', 'fail_odd', [('which', 'ctl')]), ('fault_odd_badkey', 'fail_odd', [('which', 'badkey')]),
    ('fault_odd_decimal', 'fail_odd', [('which', 'decimal')]), ('fault_odd_custom', 'fail_odd', [('which', 'custom')]),
    ('fault_odd_detailstr', 'fail_odd', [('which', 'detailstr')]), ('fault_odd_nonecode', 'fail_odd', [('which', 'nonecode')]),
    ('fault_odd_nonemsg', 'fail_odd', [('which', 'nonemsg')]), ('fault_odd_bytesmsg', 'fail_odd', [('which', 'bytesmsg')]),
    ('fault_odd_surrogate', 'fail_odd', [('which', 'surrogate')]),
    # the method redirects (the transport writes the answer itself)
    ('redirect_301', 'redirect', [('code', 301), ('where', '')]), ('redirect_302', 'redirect', [('code', 302), ('where', '')]),
    ('redirect_303', 'redirect', [('code', 303), ('where', 'http://example.com/caf\xe9')]), ('redirect_307', 'redirect', [('code', 307), ('where', '/relative')]),
    # response headers set by the method (HTTP headers when HttpRpc writes the answer)
    ('hdr_single', 'hdr', [('how', 'single')]), ('hdr_multi_text', 'hdr', [('how', 'multi_text')]), ('hdr_multi_int', 'hdr', [('how', 'multi_int')]),
    ('hdr_array_int', 'hdr', [('how', 'array_int')]), ('hdr_multi_dt', 'hdr', [('how', 'multi_dt')]), ('hdr_all', 'hdr', [('how', 'all')]),
    ('hdr_scalars', 'hdr', [('how', 'scalars')]), ('hdr_empty', 'hdr', [('how', 'empty')]),
    # the method picks the protocol of its own answer (a fresh instance per request)
    ('negotiate_json', 'negotiate', [('fmt', 'json'), ('how', 'ok')]),
    ('negotiate_xml', 'negotiate', [('fmt', 'xml'), ('how', 'ok')]),
    ('negotiate_yaml_fault', 'negotiate', [('fmt', 'yaml'), ('how', 'fault')]),
    ('negotiate_json_fault', 'negotiate', [('fmt', 'json'), ('how', 'fault')]),
    ('ded_toolong', 'dedicated', [('which', 'toolong')]),
    ('ded_notfound', 'dedicated', [('which', 'notfound')]),
    ('ded_notallowed', 'dedicated', [('which', 'notallowed')]),
    ('ded_creds', 'dedicated', [('which', 'creds')]),
    ('invalid', 'echo', [('n', 'abc')]),
    ('unknown', 'nosuchmethod', [('n', 1)]),
    ('noargs', 'noargs', []),
]


def shards(tier, seed):
    out = []
    for kind in KINDS:
        for chunked in (True, False):
            out.append({'shard': '%s/%s' % (kind, 'chunked' if chunked else 'unchunked'), 'kind': kind,
                        'chunked': chunked, 'tier': tier, 'seed': seed})
    return out


def limit_grid(blen, tier, rng):
    """(max_content_length, block_length) settings relative to the body length."""
    g = [(2 * 1024 * 1024, 8 * 1024), (max(blen, 1), 7), (max(blen - 1, 1), 7), (blen + 1, 1000),
         (64, 16), (64, 100), (max(blen, 1), max(blen, 1))]
    if tier == 'thorough':
        g += [(max(blen // 2, 1), 3), (blen + 5, 1), (1, 1), (blen * 2 + 1, blen or 1), (max(blen, 1), 1)]
        for _ in range(4):
            g.append((rng.randint(1, max(2 * blen, 4)), rng.randint(1, max(blen, 2))))
    g = sorted(set(g))
    return [x for x in g if x[0] > 10000] + [x for x in g if x[0] <= 10000]   # unlimited first: it is the reference


def cl_classes(blen, maxlen):
    c = [('absent', None), ('empty', ''), ('equal', str(blen))]
    if blen > 1:
        c.append(('smaller', str(blen // 2)))
    c.append(('larger_than_body', str(blen + 10)))
    c.append(('larger_than_limit', str(maxlen + 1)))
    c.append(('at_limit', str(maxlen)))
    # what a client can put in the header and a gateway passes on unread
    c += [('not_a_number', 'abc'), ('negative', '-5'), ('too_many_digits', '9' * 5000), ('padded', ' %d ' % blen),
          ('fraction', '%d.0' % blen)]
    return c


def build_wsgi(kind, chunked, maxlen, block, rec, events_box):
    from spyne.server.wsgi import WsgiApplication
    app = M.build_app(kind, rec, validator='soft', behaviours={'files': True} if kind == 'httprpc' else None)
    w = WsgiApplication(app, chunked=chunked, max_content_length=maxlen, block_length=block)

    def on_closed(ctx):
        if events_box[0] is not None:
            events_box[0].add('ctx_closed')

    def on_wsgi_close(ctx):
        if events_box[0] is not None:
            events_box[0].add('wsgi_close')
    app.event_manager.add_listener('method_context_closed', on_closed)
    w.event_manager.add_listener('wsgi_close', on_wsgi_close)
    return w


STATUS_RE = re.compile(r'^[0-9]{3} \S')


def judge(res, case, r, rec, maxlen, declared, blen, full_chunks, R):
    """All oracles of the statement over one observed execution."""
    ev = r.events
    viol = []
    kind = case['kind']

    def v(mech, what):
        viol.append((mech, what))

    # a body that is streamed while user code is still producing it can fail after the status line has gone out: raising
    # out of the iteration, which makes the server drop the connection, is then the one way left to say so
    midstream = (r.exc is not None and r.exc_stage == 'iterate' and len(r.sr_calls) == 1 and r.closed
                 and case['req'] in ('stream_fault', 'stream_exc', 'gen_late_exc', 'lazy_fault', 'lazy_exc', 'lazy_exc0', 'stream_exc0', 'lazy_always'))
    if midstream:
        R.count('midstream_failures_seen')
    elif r.exc is not None:
        frame = drive.innermost_spyne_frame(r.exc)
        v('escape:%s:%s:%s' % (r.exc_stage, type(r.exc).__name__, frame),
          'exception escaped the WSGI callable (%s): %r' % (r.exc_stage, r.exc))
    # start_response exactly once, before any chunk
    n_sr = len(r.sr_calls)
    if n_sr != 1 and r.exc is None:
        v('start_response_count', 'start_response called %d times' % n_sr)
    if n_sr:
        R.count('start_response_seen')
        if any(c[3] > 0 for c in r.sr_calls):
            v('start_response_after_chunk', 'start_response after %d chunks' % max(c[3] for c in r.sr_calls))
        i_sr = ev.index('start_response')
        i_ch = ev.index('chunk')
        if i_ch is not None and i_sr is not None and i_ch < i_sr:
            v('start_response_after_chunk', 'first chunk delivered before start_response')
        for status, headers, _, _ in r.sr_calls:
            if not isinstance(status, str) or not STATUS_RE.match(status):
                v('status_line_form', 'status %r is not a "NNN reason" str' % (status,))
            if not isinstance(headers, list):
                v('headers_not_list', 'headers object is %s' % type(headers).__name__)
            for h in headers:
                if not (isinstance(h, tuple) and len(h) == 2 and isinstance(h[0], str) and isinstance(h[1], str)):
                    v('header_not_str_pair', 'header %r is not a (str, str) tuple' % (h,))
                    break
    # chunks are bytes
    for c in r.chunks:
        if not isinstance(c, bytes):
            v('chunk_not_bytes', 'body chunk of type %s' % type(c).__name__)
            break
    if r.chunks:
        R.count('chunks_seen', len(r.chunks))
    # Content-Length
    cls_ = [h[1] for h in r.headers if isinstance(h, tuple) and isinstance(h[0], str) and h[0].lower() == 'content-length']
    if len(cls_) > 1:
        v('content_length_duplicated', 'Content-Length sent %d times' % len(cls_))
    if cls_ and r.exc is None and r.aborted_after is None and all(isinstance(c, bytes) for c in r.chunks):
        R.count('content_length_checked')
        try:
            ok = int(cls_[0]) == sum(len(c) for c in r.chunks)
        except (TypeError, ValueError):
            ok = False
        if not ok:
            v('content_length_mismatch', 'Content-Length %r but %d body bytes' % (cls_[0], sum(len(c) for c in r.chunks)))
    # an answer whose protocol the method chose itself is a document of that protocol
    if case['req'].startswith('negotiate') and r.exc is None and r.aborted_after is None and all(isinstance(c, bytes) for c in r.chunks) \
            and rec.calls and rec.calls[0][0] == 'negotiate' and tuple(rec.calls[0][1])[:1] == (case['req'].split('_')[1],):
        # (the method ran with the format that was sent: a truncated request can still parse, as something else)
        fmt = case['req'].split('_')[1]
        R.count('negotiated_answers')
        try:
            if fmt == 'json':
                import json
                doc = json.loads(r.body.decode('utf8'))
            elif fmt == 'yaml':
                import yaml
                doc = yaml.safe_load(r.body.decode('utf8'))
            else:
                from lxml import etree
                doc = etree.tostring(etree.fromstring(r.body)).decode()
            if 'Negotiated' not in str(doc) and 'answer in %s' % fmt not in str(doc):
                v('negotiated_answer_content', 'answer negotiated as %s does not carry the result: %r' % (fmt, r.body[:100]))
        except Exception as e:
            v('negotiated_answer_not_%s' % fmt, 'answer negotiated as %s is not a %s document (%s): %r status=%r calls=%r events=%s' % (
                fmt, fmt, type(e).__name__, r.body[:100], r.status, rec.calls[:3], ' '.join(ev.names())[:300]))
    # request-size limit
    nread = r.input.nread if r.input is not None else 0
    if nread > maxlen:
        v('read_beyond_limit', 'read %d bytes from wsgi.input with max_content_length=%d' % (nread, maxlen))
    if declared is not None and declared > maxlen:
        R.count('too_long_cases')
        if rec.calls:
            v('user_code_ran_for_too_long_request', 'declared %d > limit %d but %r ran' % (declared, maxlen, rec.calls[0][0]))
        if r.exc is None:
            want = 500 if kind in ('soap11', 'soap12') else 413   # SOAP: always 500 (C09's documented mapping)
            if r.code != want:
                v('too_long_status', 'declared %d > limit %d answered %r' % (declared, maxlen, r.status))
            elif r.aborted_after is None:
                f = M.decode_fault(kind, r.body) if kind != 'httprpc' else (r.body.decode('utf8', 'replace'),)
                if f is None or 'RequestTooLong' not in str(f[0]):
                    v('too_long_fault_malformed', 'declared %d > limit %d: 413 but body is not the request-too-long fault: %r' % (declared, maxlen, r.body[:80]))
    # context closed exactly once, not before hand-over
    n_closed = ev.count('ctx_closed')
    if r.exc is None or midstream:
        R.count('ctx_close_seen', n_closed)
        if n_closed != 1:
            v('ctx_closed_count', 'request context closed %d times by the time the response was handed over' % n_closed)
        else:
            i_cl = ev.index('ctx_closed')
            last_chunk = max([i for i, e in enumerate(ev.seq) if e[0] == 'chunk'] or [-1])
            i_ret = ev.index('returned')
            early = False
            if last_chunk >= 0 and i_cl < last_chunk:
                early = True
            if full_chunks and full_chunks > 0 and i_ret is not None and i_cl < i_ret:
                early = True
            if early:
                v('ctx_closed_before_handover' if not case['req'].startswith('wsdl') else 'wsdl_ctx_closed_before_handover',
                  'method_context_closed fired at event %d, before the body was handed over (events: %s)' % (
                      i_cl, ' '.join(ev.names())))
        nwc = ev.count('wsgi_close')
        if not case['req'].startswith('wsdl') and nwc != 1:
            v('wsgi_close_count', 'wsgi_close fired %d times' % nwc)
    return viol


def run_case(R, case, w, rec, box, body_req, maxlen, cl, abort_after, validate, full_chunks=None):
    ev = drive.Events()
    box[0] = ev
    rec.reset(ev)
    env, inp = drive.make_environ(body_req['method'], body_req['path'], body_req['qs'], body_req['body'],
                                  body_req['content_type'], content_length=cl)
    if case.get('lean'):
        # the environ a gateway hands over when it leaves out what PEP 3333 lets it leave out: QUERY_STRING, SCRIPT_NAME and
        # PATH_INFO "may be empty or absent", CONTENT_TYPE "may be empty or absent"
        if not env.get('QUERY_STRING'):
            env.pop('QUERY_STRING', None)
        env.pop('SCRIPT_NAME', None)
        if env.get('PATH_INFO') in ('/', ''):
            env.pop('PATH_INFO', None)
        if case['lean'] == 'no_content_type':
            env.pop('CONTENT_TYPE', None)
        # how a gateway splits the URL between SCRIPT_NAME and PATH_INFO when the application is mounted at the root or below it
        if case['lean'] == 'script_slash' and env.get('PATH_INFO', '/') in ('/', ''):
            env['SCRIPT_NAME'], env['PATH_INFO'] = '/', ''
        if case['lean'] == 'script_prefix' and env.get('PATH_INFO', '/') in ('/', ''):
            env['SCRIPT_NAME'], env['PATH_INFO'] = '/app', ''
        if case['lean'] == 'empty_path' and env.get('PATH_INFO', '/') in ('/', ''):
            env['SCRIPT_NAME'], env['PATH_INFO'] = '', ''
    r = drive.call_wsgi(w, env, inp, events=ev, abort_after=abort_after, validate=validate)
    box[0] = None
    blen = len(body_req['body'])
    declared = None
    if cl is not None and cl != '':
        try:
            declared = int(cl) if len(cl) < 100 else None
        except ValueError:
            declared = None         # the header is not a length: only the protocol clauses are judged
    R.evaluations += 1
    viol = judge(R, case, r, rec, maxlen, declared, blen, full_chunks, R)
    return r, viol


def rewrite_wsdl(ctx):
    ctx.transport.wsdl = ctx.transport.wsdl.replace(b'http://', b'https://') + b'<!-- served by a proxy -->'


def run(spec, R):
    rng = core.rng_for(spec['seed'], PROP, spec['shard'])
    kind, chunked, tier = spec['kind'], spec['chunked'], spec['tier']
    rec = M.Recorder()
    box = [None]
    wsgis = {}

    def get_w(maxlen, block):
        k = (maxlen, block)
        if k not in wsgis:
            wsgis[k] = build_wsgi(kind, chunked, maxlen, block, rec, box)
        return wsgis[k]

    reqs = []
    for rname, meth, args in REQUESTS:
        if kind == 'httprpc' and rname in ('gen', 'gen0', 'gen_late_exc', 'pair', 'pair_ignored', 'pair_empty', 'pair_short', 'pair_none', 'pair_scalar'):
            continue        # HttpRpc as *output* protocol only serialises primitives
        reqs.append((rname, M.encode_request(kind, meth, args)))
    if kind == 'httprpc':
        # File return values in each of the forms File.Value takes (HttpRpc writes them as the body)
        for how in ('chunks', 'one_chunk', 'empty', 'path', 'handle', 'rolled_over', 'mmap_tuple', 'nosuch'):
            reqs.append(('file_' + how, M.encode_request(kind, 'file_out', [('how', how)])))
    if kind not in ('httprpc', 'httprpc-json'):
        reqs.append(('malformed', dict(method='POST', path='/', qs='', body=M.malformed_body(kind),
                                       content_type=reqs[0][1]['content_type'])))
        reqs.append(('empty_body', dict(method='POST', path='/', qs='', body=b'', content_type=reqs[0][1]['content_type'])))
    reqs.append(('wsdl', dict(method='GET', path='/', qs='wsdl', body=b'', content_type=None)))
    # injected faults on the ?wsdl path: the interface document cannot be built / there is none
    reqs.append(('wsdl_build_fails', dict(method='GET', path='/', qs='wsdl', body=b'', content_type=None)))
    reqs.append(('wsdl_disabled', dict(method='GET', path='/', qs='wsdl', body=b'', content_type=None)))
    # a listener on the documented 'wsdl' event rewrites the document (the reverse-proxy recipe): first and cached answer
    reqs.append(('wsdl_rewritten', dict(method='GET', path='/', qs='wsdl', body=b'', content_type=None)))
    reqs.append(('wsdl_rewritten_path', dict(method='GET', path='/svc.wsdl', qs='', body=b'', content_type=None)))
    if tier == 'thorough':
        for i in range(6):
            n = rng.randint(0, 900)
            reqs.append(('ok_big', M.encode_request(kind, 'repeat', [('n', n)])))
            reqs.append(('chunks', M.encode_request(kind, 'chunks', [('n', rng.randint(0, 9)), ('size', rng.randint(1, 40))])))

    for rname, breq in reqs:
        blen = len(breq['body'])
        reference = None
        grid = limit_grid(blen, tier, rng) if blen else [(2 * 1024 * 1024, 8 * 1024), (64, 16)]
        for maxlen, block in grid:
            w = get_w(maxlen, block)
            if rname.startswith('wsdl_rewritten'):
                w = build_wsgi(kind, chunked, maxlen, block, rec, box)
                w.event_manager.add_listener('wsdl', rewrite_wsdl)
                R.count('wsdl_listeners_attached')
            if rname in ('wsdl_build_fails', 'wsdl_disabled'):
                w = build_wsgi(kind, chunked, maxlen, block, rec, box)      # an application of its own: the fault stays with it
                if rname == 'wsdl_build_fails':
                    def failing_build(url):
                        raise RuntimeError('injected: interface document cannot be built')
                    w.doc.wsdl11.build_interface_document = failing_build
                else:
                    w.doc.wsdl11 = None
                R.count('wsdl_faults_injected')
            cls_list = cl_classes(blen, maxlen) if breq['method'] == 'POST' else [('absent', None)]
            for clname, cl in cls_list:
                case = {'kind': kind, 'chunked': chunked, 'req': rname, 'max': maxlen, 'block': block, 'cl': clname,
                        'cl_value': cl}
                # full run first: learn the chunk count
                r, viol = run_case(R, case, w, rec, box, breq, maxlen, cl, None, False)
                full = len(r.chunks)
                report(R, case, None, r, viol, breq)
                # a request that fits the limit is answered exactly as without a limit
                if clname == 'equal' and r.exc is None:
                    obs = (r.status, r.body if (r.code or 0) < 400 or kind == 'httprpc'
                           else (M.decode_fault(kind, r.body) or (r.body,))[0])
                    if maxlen > 10000:
                        reference = obs
                    elif reference is not None and blen <= maxlen:
                        R.count('fitting_request_compared')
                        if obs != reference:
                            R.violation('request of %d bytes under max_content_length=%d answered %r, without limit %r'
                                        % (blen, maxlen, r.status, reference[0]), dict(case, abort_after=None, request=breq),
                                        mech='limit_changes_fitting_request')
                # the stdlib's PEP 3333 checker as a second monitor
                # (it also checks the environ, and refuses one whose CONTENT_LENGTH is not a non-negative integer:
                #  those requests are judged by this file's own oracles only)
                if clname not in ('not_a_number', 'negative', 'too_many_digits', 'padded', 'fraction'):
                    r2, viol2 = run_case(R, case, w, rec, box, breq, maxlen, cl, None, True, full)
                    vv = [x for x in viol2 if x[0].startswith('escape') and 'AssertionError' in x[0]]
                    for mech, what in vv:
                        R.violation('wsgiref.validate: ' + what, dict(case, validate=True), mech='wsgiref_validate:' + str(r2.exc)[:60])
                    R.count('wsgiref_validated')
                # aborts after k chunks
                for k in range(0, full + 1):
                    r3, viol3 = run_case(R, case, w, rec, box, breq, maxlen, cl, k, False, full)
                    report(R, case, k, r3, viol3, breq)
                if clname in ('equal', 'absent') and maxlen > 10000:
                    for lean in ('minimal', 'no_content_type', 'script_slash', 'script_prefix', 'empty_path'):
                        lcase = dict(case, lean=lean)
                        r4, viol4 = run_case(R, lcase, w, rec, box, breq, maxlen, cl, None, False, full)
                        report(R, lcase, None, r4, viol4, breq)
                        R.count('lean_environs')
                limit_class = ('huge' if maxlen > 10000 else 'eq' if maxlen == blen else 'lt' if maxlen < blen else 'gt',
                               'block>max' if block > maxlen else 'block<=max')
                if r.sr_calls:
                    R.nontrivial(kind, chunked, rname, clname, limit_class, r.code, full > 1)
                    R.cell('%s|%s|%s' % (kind, 'chunked' if chunked else 'unchunked', rname))
                if len(R.samples) < 4 and r.sr_calls:
                    R.sample({'case': case, 'status': r.status, 'chunks': full, 'events': r.events.names(),
                              'bytes_read': r.input.nread})


def report(R, case, abort, r, viol, breq):
    for mech, what in viol:
        R.violation(what, dict(case, abort_after=abort, request=breq), mech=mech, status=r.status)


def replay(v, R):
    c = v['repro']
    rec = M.Recorder()
    box = [None]
    w = build_wsgi(c['kind'], c['chunked'], c['max'], c['block'], rec, box)
    if c['req'].startswith('wsdl_rewritten'):
        w.event_manager.add_listener('wsdl', rewrite_wsdl)
    breq = c['request']
    body = breq['body']
    if isinstance(body, dict):
        import base64
        breq = dict(breq, body=base64.b64decode(body['b64']))
    case = {k: c[k] for k in ('kind', 'chunked', 'req', 'max', 'block', 'cl', 'cl_value', 'lean') if k in c}
    r0, _ = run_case(R, case, w, rec, box, breq, c['max'], c['cl_value'], None, False)
    r, viol = run_case(R, case, w, rec, box, breq, c['max'], c['cl_value'], c.get('abort_after'), bool(c.get('validate')),
                       len(r0.chunks))
    report(R, case, c.get('abort_after'), r, viol, breq)
    print('replayed: status=%r events=%s violations=%r' % (r.status, r.events.names(), viol))


def classify(v):
    return v.get('mech')
