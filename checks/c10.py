"""C10 - hostile or malformed requests end in a client fault, never a crash.

Per input protocol and validator: random bytes, EVERY prefix of valid requests,
structure-aware mutations (hostile leaf literals, deletion, duplication, unknown
members, wrong value kinds, wrong nesting, empty bodies, wrong charset) of valid
requests built by the reference codecs. Monitors: stage-attributed escape
monitor (ServerBase stages and the WSGI callable + its iterator), fault decoder
of the OUTPUT protocol, fault-code family, HTTP class, call recorder. User
functions are pure sinks that cannot fail, so any fault must be the client's.
Bounded progress: 20 s of process-virtual time per request.
"""
import base64
import copy
import re
import json
import signal

from lxml import etree

from vflib import core, drive, gen, refdict, refflat, refval, refxml, miniapp as M
from checks import c01, c02

PROP = 'C10'
LEVEL = 'exploration'
RULE = ('per (protocol, validator): random byte strings; every prefix of N valid requests (N=3 quick, 40 thorough); structure-aware '
        'mutations of valid requests (type-hostile leaf literals, member deletion/duplication, unknown members, kind swaps, wrong nesting, '
        'empty body/envelope, wrong charset, junk attributes, bad percent-encoding); ServerBase and WSGI; non-trivial = an input that was '
        'processed to a verdict; distinct by (protocol, validator, driver, input class, outcome, fault code / rejection site).'
        ' Also: 13 mixed in/out protocol configurations, hostile names, raw literals beyond interpreter limits, deep nesting, multipart bodies, the same application behind a 160-byte request limit, hostile Content-Length headers, the every-kind leaf and key sweep (each leaf x hostile literals and all one-edit neighbours of the valid literal; binary members in three encodings), multi-ref graphs, chains of a class that contains itself up to 20000 levels and YAML recursive aliases.')
ASSUMPTIONS = [
    'user functions return nothing and cannot fail: every fault observed is attributable to the request',
    'a watchdog firing (wall clock) is inconclusive; exceeding 20 s of process-virtual CPU time for one request is a violation',
    'HttpRpc is driven with GET only (werkzeug missing)',
]
REQUIRED_COUNTERS = ('inputs_processed', 'prefixes_tried', 'faults_decoded', 'normal_responses')
SHARD_TIMEOUT = {'quick': 900, 'thorough': 3000}

CONFIGS = [('xml', None), ('xml', 'soft'), ('xml', 'lxml'), ('soap11', None), ('soap11', 'soft'), ('soap11', 'lxml'), ('soap12', 'soft'),
           ('json', None), ('json', 'soft'), ('yaml', None), ('yaml', 'soft'), ('msgpack', None), ('msgpack', 'soft'), ('msgpackrpc', 'soft'),
           ('httprpc', None), ('httprpc', 'soft'), ('jsonrpc', None), ('jsonrpc', 'soft')]

HOSTILE = ['\x00', 'a\x08b', '\ud800', '\ufffe', ']]>', '<x>&', 'P99999999999Y', 'PT999999999999999999999H', '-P1Y999999999999999D', 'zz', 'abc',
           '9' * 5000, '-' + '9' * 5000, '1e5000', '1E-5000', '0.' + '0' * 5000 + '1', ' 1', '1 ', '+1', '0x', '1_0', '٣', 'Infinity', '-INF', 'nan',
           '9999-12-31T23:59:59+14:00', '0001-01-01T00:00:00-14:00', '10000-01-01', '-0001-01-01', '2020-01-01T24:00:00', '00:00:60', 'AA=A', '=AAA', 'AAAAA',
           'abc', '', ' ', '1e999', '-1e999', 'NaN', 'INF', '-', '+', '0x10', '9' * 400, '2020-13-01', '2020-02-30', '2020-02-30T00:00:00',
           '24:00:00', '25:61:61', 'P', 'PT', 'P1Y', '-P', '!!!', 'AA=', '%%%', '１２', 'true ', 'TRUE', 'null', 'None', '{}', '[]', 'é' * 50,
           '0000-00-00', '12:00', '1.2.3', '1,5', '--1', '00000000-0000-0000-0000-00000000000', 'zzzzzzzz-zzzz-zzzz-zzzz-zzzzzzzzzzzz',
           '2020-02-30+01:00', '2020-02-30Z', '2020-13-01Z', '2020-00-10-05:00', '2021-02-29T00:00:00Z', '2020-01-01T25:00:00Z', '12:60:00Z', '24:00:01+01:00',
           '2020-01-01T00:00:00+99:99', '2020-01-01T00:00:00.1234567890123Z', 'PT1.5.5S', ' ', 'a' * 5000]


# "a well-formed fault document of the OUTPUT protocol": applications whose output protocol differs from the input protocol
MIXED = [('json', 'soft', 'xml'), ('json', None, 'soap11'), ('yaml', 'soft', 'xml'), ('msgpack', 'soft', 'soap11'), ('httprpc', 'soft', 'xml'),
         ('json', 'soft', 'msgpack'), ('json', 'soft', 'httprpc'), ('msgpack', None, 'yaml'), ('xml', 'lxml', 'httprpc'), ('xml', 'lxml', 'json'),
         ('soap11', 'lxml', 'json'), ('xml', 'soft', 'msgpack'), ('soap11', 'soft', 'yaml')]

HOSTILE_NAMES = ['\x00', 'op\x08', 'a\x1fb', '\ud800', 'x\udfffy', '\ufffe', '\x7f', 'n' * 5000, '<a>', ']]>', '&amp;', '"', "'", '\xe9',
                 '\U0001d4b3', 'a b', 'a\r\nb', '', '{urn:x}y', '%s', '%(a)s', '{0}']


def shards(tier, seed):
    out = [{'shard': '%s/%s' % c, 'kind': c[0], 'validator': c[1], 'tier': tier, 'seed': seed} for c in CONFIGS]
    out += [{'shard': '%s/%s/out=%s' % c, 'kind': c[0], 'validator': c[1], 'out': c[2], 'tier': tier, 'seed': seed} for c in MIXED]
    return out


def universe(seed, uid):
    rng = core.rng_for(seed, PROP, 'uni%d' % uid)
    o = gen.Opts(sub_names=True, bare_prims=True, max_types=3, nested_arrays=0.0, styles=('wrapped', 'wrapped', 'bare'), multi_return=False, methods=(2, 3), services=(1, 1),
                 attrs=True, defaults=True)
    ir = gen.rand_universe(rng, o, uid=uid)
    for sd in ir['services']:
        for md in sd['methods']:
            md['returns'] = []          # sinks: nothing to serialize, nothing that can fail
            if md['style'] == 'out_bare':
                md['style'] = 'wrapped'
    return ir


def inheritance_universe():
    ir = gen.inheritance_ir()
    for sd in ir['services']:
        for md in sd['methods']:
            md['returns'] = []
    return ir


SMALL_LIMIT = 160


def all_kinds_universe(other_encodings=True):
    """one member (and one attribute) of every primitive kind: the text of each is swept with every hostile literal"""
    ns = 'urn:vf:c10k'
    fields = [['k%d' % i, {'prim': k, 'facets': {}}] for i, k in enumerate(sorted(gen.PRIMS))]
    if other_encodings:
        # binary members in the two other encodings (the reference request carries base64 text there: one more malformed input).
        # Not for the XML families: the reference writer follows the published schema, which says xs:hexBinary for the first
        fields += [['kx', {'prim': 'ByteArray', 'facets': {'encoding': 'hex'}}], ['ku', {'prim': 'ByteArray', 'facets': {'encoding': 'urlsafe_base64'}}]]
    attrs = [['a%d' % i, {'attr': {'prim': k, 'facets': {}}}] for i, k in enumerate(sorted(gen.PRIMS)) if k != 'ByteArray']
    KK = {'name': 'KK', 'ns': ns, 'base': None, 'has_xmldata': False, 'fields': fields + attrs}
    KE = {'name': 'KE', 'ns': ns, 'base': None, 'has_xmldata': False, 'fields': fields}
    return {'uid': 9200, 'tns': ns, 'types': [KK, KE], 'services': [{'name': 'S', 'methods': [
        {'name': 'mk', 'args': [['a', {'ref': 'KK'}]], 'returns': [], 'style': 'wrapped'},
        {'name': 'me', 'args': [['a', {'ref': 'KE'}], ['l', {'array': {'ref': 'KE'}}]], 'returns': [], 'style': 'wrapped'}]}]}


def chain_universe():
    """a class that contains itself: a request can be nested as deeply as its size allows"""
    ns = 'urn:vf:c10c'
    I = {'prim': 'Integer', 'facets': {}}
    N = {'name': 'Node', 'ns': ns, 'base': None, 'has_xmldata': False,
         'fields': [['v', dict(I)], ['next', {'ref': 'Node'}], ['kids', {'array': {'ref': 'Node'}}]]}
    return {'uid': 9300, 'tns': ns, 'types': [N], 'services': [{'name': 'S', 'methods': [
        {'name': 'walk', 'args': [['n', {'ref': 'Node'}]], 'returns': [], 'style': 'wrapped'}]}]}


def chain_bodies(kind, tns):
    """valid requests for walk(n) whose argument is a chain of d nodes (d = 40 .. 20000), through `next` and through `kids`;
    for YAML also a node that is its own successor (a recursive alias)"""
    out = []
    for d in (40, 400, 1200, 5000, 20000):
        for member in ('next', 'kids'):
            if kind == 'json' or kind == 'yaml':
                if kind == 'yaml' and d > 1200:
                    continue
                inner_open = '{"v": 1, "%s": ' % member + ('[' if member == 'kids' else '')
                inner_close = (']' if member == 'kids' else '') + '}'
                body = '{"walk": {"n": ' + inner_open * d + '{"v": 2}' + inner_close * d + '}}'
                out.append(('deep_chain:%s:%d' % (member, d), body.encode()))
            elif kind in ('msgpack', 'msgpackrpc'):
                node_open = b'\x82\xa1v\x01' + bytes([0xa0 + len(member)]) + member.encode() + (b'\x91' if member == 'kids' else b'')
                arg = node_open * d + b'\x81\xa1v\x02'
                if kind == 'msgpack':
                    body = b'\x81\xa4walk\x81\xa1n' + arg
                else:
                    body = b'\x94\x00\x01\xa4walk\x91' + arg
                out.append(('deep_chain:%s:%d' % (member, d), body))
            elif kind in ('xml', 'soap11', 'soap12'):
                o = '<v>1</v><%s>' % member + ('<Node>' if member == 'kids' else '')
                c = ('</Node>' if member == 'kids' else '') + '</%s>' % member
                inner = '<walk xmlns="%s"><n>' % tns + o * d + '<v>2</v>' + c * d + '</n></walk>'
                if kind != 'xml':
                    env = M.S11 if kind == 'soap11' else M.S12
                    inner = '<e:Envelope xmlns:e="%s"><e:Body>%s</e:Body></e:Envelope>' % (env, inner)
                out.append(('deep_chain:%s:%d' % (member, d), inner.encode()))
    if kind in ('soap11', 'soap12'):
        # depth by reference: each value holds a reference to the next one, so the parser never sees more than two levels - the tree has
        # as many once the references are resolved (padding attributes raise what resolving may add to the request)
        env = M.S11 if kind == 'soap11' else M.S12
        for hops, pad in ((100, 0), (300, 0), (500, 0), (500, 150000), (3000, 0), (1000, 300000)):
            vals = ''.join('<t:Node id="i%d"><t:v>%d</t:v><t:next href="#i%d"/></t:Node>' % (i, i, i + 1) for i in range(hops)) + '<t:Node id="i%d"><t:v>0</t:v></t:Node>' % hops
            padding = '<t:pad %s/>' % ' '.join('a%d=""' % i for i in range(pad)) if pad else ''
            doc = ('<e:Envelope xmlns:e="%s" xmlns:t="%s"><e:Body><t:walk><t:n href="#i0"/></t:walk>%s%s</e:Body></e:Envelope>' % (env, tns, vals, padding))
            out.append(('deep_chain_by_reference:%d:%d' % (hops, pad), doc.encode()))
    if kind == 'yaml':
        out.append(('recursive_alias', b'walk:\n  n: &a\n    v: 1\n    next: *a\n'))
        out.append(('recursive_alias_kids', b'walk:\n  n: &a\n    v: 1\n    kids: [*a, *a]\n'))
    return out


def near_literals(text):
    """literals one edit away from a valid one"""
    import re
    out = []
    for i in range(min(len(text), 40)):
        out.append(text[:i] + 'x' + text[i + 1:])
        out.append(text[:i] + text[i + 1:])
    out += [text + z for z in ('Z', '+01:00', '-14:00', '+99:99', 'junk', ' ', '\n', '.5', '0' * 400)]
    out += ['x' + text, ' ' + text, '-' + text, '+' + text, text * 2]
    out.append(re.sub(r'\d+', '9' * 4400, text, count=1))
    m = list(re.finditer(r'\d+', text))
    for mm in m[:8]:
        out.append(text[:mm.start()] + '99' + text[mm.end():])
        out.append(text[:mm.start()] + '00' + text[mm.end():])
        out.append(text[:mm.start()] + '9' * 4400 + text[mm.end():])
        out.append(text[:mm.start()] + '99' + text[mm.end():] + 'Z')
        out.append(text[:mm.start()] + '00' + text[mm.end():] + '+01:00')
    return out


def cut_literals(text):
    """a valid literal cut short at every position (alone, and followed by a time zone), and with its head cut off: always tried, in every tier"""
    out = []
    for i in range(1, min(len(text), 48)):
        out += [text[:i], text[:i] + 'Z', text[:i] + '+02:00', text[i:]]
    return out


def leaf_sweep(R, T, rng, data, struct, repro, tier, drivers):
    """every leaf of a valid request x (the hostile literals + the literals one edit away from the valid one)"""
    kind = T.kind
    frac = 1.0 if tier == 'thorough' else 0.34
    n = 0
    if kind in ('xml', 'soap11', 'soap12'):
        els = [e for e in struct.iter() if isinstance(e.tag, str)]
        sites = [('text', i, None) for i, e in enumerate(els) if len(e) == 0 and e.text] + \
                [('attr', i, k) for i, e in enumerate(els) for k in e.attrib if 'XMLSchema-instance' not in k]
        for how, i, k in sites:
            cur = els[i].text if how == 'text' else els[i].get(k)
            always = set(cut_literals(cur))
            for lit in HOSTILE + near_literals(cur) + sorted(always):
                if lit not in always and rng.random() > frac:
                    continue
                d = copy.deepcopy(struct)
                e = [x for x in d.iter() if isinstance(x.tag, str)][i]
                try:
                    if how == 'text':
                        e.text = lit
                    else:
                        e.set(k, lit)
                    m = etree.tostring(d)
                except (ValueError, TypeError):
                    continue
                process(R, T, m, drivers[n % len(drivers)], 'sweep:' + how, repro)
                n += 1
    elif kind == 'httprpc':
        path, pairs = data
        for i, (k, v) in enumerate(pairs):
            always = set(cut_literals(v))
            for lit in HOSTILE + near_literals(v) + sorted(always):
                if lit not in always and rng.random() > frac:
                    continue
                ps = list(pairs)
                ps[i] = (k, lit)
                from urllib.parse import quote
                qs = '&'.join('%s=%s' % (quote(a.encode('utf8', 'surrogatepass'), safe=''), quote(b.encode('utf8', 'surrogatepass'), safe=''))
                              for a, b in ps)
                process(R, T, b'', 'wsgi', 'sweep:pair', repro, path=path, qs=qs)
                n += 1
            # ... and the key: every index written every hostile way, an index where there is none
            import re
            keys = set()
            for idx in ('9' * 4400, '-1', 'x', '', '٣', '1e3', '99999999999', '0x1', ' 0', '0]['):
                keys.add(re.sub(r'\[\d+\]', lambda m: '[%s]' % idx, k, count=1))
                keys.add(re.sub(r'\[\d+\]$', lambda m: '[%s]' % idx, k))
                keys.add(k + '[%s]' % idx)
                keys.add(k.replace('.', '[%s].' % idx, 1))
            for k2 in sorted(keys - {k}):
                ps = list(pairs)
                ps[i] = (k2, v)
                from urllib.parse import quote
                qs = '&'.join('%s=%s' % (quote(a.encode('utf8', 'surrogatepass'), safe=''), quote(b.encode('utf8', 'surrogatepass'), safe=''))
                              for a, b in ps)
                process(R, T, b'', 'wsgi', 'sweep:key', repro, path=path, qs=qs)
                n += 1
    else:
        from checks.c04 import positions, set_path
        (mkey, body), = struct.items() if isinstance(struct, dict) else ((None, struct),)
        for pth in positions(body):
            cur = body
            try:
                for kk in pth:
                    cur = cur[kk]
            except (KeyError, IndexError, TypeError):
                continue
            if isinstance(cur, (dict, list)):
                continue
            base = cur if isinstance(cur, str) else None
            always = set(cut_literals(base)) if base else set()
            for lit in HOSTILE + (near_literals(base) if base else []) + sorted(always):
                if lit not in always and rng.random() > frac:
                    continue
                try:
                    m = set_path(body, pth, lit)
                    blob = T.codec.dumps({mkey: m} if mkey is not None else m)
                except Exception:
                    continue
                process(R, T, blob, drivers[n % len(drivers)], 'sweep:value', repro)
                n += 1
    R.count('leaf_sweep_inputs', n)


class Target(object):
    def __init__(self, ir, kind, validator, rng, outkind=None):
        from spyne.server import ServerBase
        from spyne.server.wsgi import WsgiApplication
        self.kind = kind
        self.outkind = outkind or kind
        self.ir = ir
        if kind in ('xml', 'soap11', 'soap12'):
            self.C = c01.Ctx(ir, kind, validator, rng)
            self.B = self.C.B
            self.server = self.C.server
            self.W = self.C.W
            if outkind:
                # the same services behind an application whose output protocol is another one
                inp = c01.make_protocols(kind, validator)[0]
                app2 = self.B.app(inp, M.make_protocols(outkind, None)[1], name='Mixed%d' % ir['uid'])
                self.server = ServerBase(app2)
                self.wsgi = WsgiApplication(app2)
            else:
                self.wsgi = self.C.get_wsgi()
        else:
            self.B = gen.Built(ir)
            if kind == 'httprpc':
                from spyne.protocol.http import HttpRpc
                from spyne.protocol.json import JsonDocument
                app = self.B.app(HttpRpc(validator=validator), M.make_protocols(outkind, None)[1] if outkind else JsonDocument())
                self.server = None
            else:
                self.conf = refdict.Conf(kind, True, 'dict', False)
                inp, outp = c02.make_protocols(self.conf, validator)
                if outkind:
                    outp = M.make_protocols(outkind, None)[1]
                app = self.B.app(inp, outp)
                self.server = ServerBase(app)
                self.codec = refdict.Codec(ir, self.conf)
            self.wsgi = WsgiApplication(app)

    def small(self):
        """the same application behind a transport that accepts only short requests, reading them 7 bytes at a time"""
        if getattr(self, '_small', None) is None:
            from spyne.server.wsgi import WsgiApplication
            self._small = WsgiApplication(self.wsgi.app, max_content_length=SMALL_LIMIT, block_length=7)
        return self._small

    def valid_request(self, rng, md):
        """(bytes body or query, structure for mutation)"""
        ir = self.ir
        args = [refval.dense_value(rng, ir, t) for _, t in md['args']]
        if any(a is None for a in args):
            return None
        k = self.kind
        if k in ('xml', 'soap11', 'soap12'):
            el = self.W.request_element(md, args)
            doc = el if k == 'xml' else self.W.envelope(el, 11 if k == 'soap11' else 12)
            return self.W.serialize(doc), doc
        if k == 'httprpc':
            if any(uses_xml_only(t) for _, t in md['args']):
                return None
            if md['style'] == 'bare' and 'ref' not in md['args'][0][1]:
                return None      # HttpRpc says of itself that it does not read bare arguments that are not objects (NotImplementedError)
            pairs = refflat.request_pairs(ir, md, args, '.')
            return ('/' + md['name'], pairs), pairs
        if any(uses_xml_only_deep(ir, t) for _, t in md['args']):
            return None
        doc = self.codec.request(md, args)
        return self.codec.dumps(doc), doc

    def fault_of(self, body):
        k = self.kind
        if self.outkind != k:
            return self.fault_of_out(body)
        if k in ('xml', 'soap11', 'soap12'):
            f = M.decode_fault(k, body)
            code = f[0] if f else None
            if code and ':' in code:
                code = code.split(':', 1)[1]
            if k == 'soap12' and code:
                first, dot, rest = code.partition('.')
                code = {'Sender': 'Client', 'Receiver': 'Server'}.get(first, first) + dot + rest
            return code
        if k == 'httprpc':
            f = M.decode_fault('json', body)
            return f[0] if f else None
        try:
            f = refdict.fault_of(self.conf, self.codec.loads(body))
        except Exception:
            return None
        c = f[0] if f else None
        return c.decode() if isinstance(c, bytes) else c


def _fault_of_out(self, body):
    ok = self.outkind
    if ok == 'httprpc':
        # HttpRpc writes a fault as text: code, blank line, string
        try:
            first = body.decode('utf8').split('\n', 1)[0]
        except UnicodeDecodeError:
            return None
        return first if first.split('.')[0] in ('Client', 'Server') else None
    f = M.decode_fault(ok, body)
    code = f[0] if f else None
    if isinstance(code, bytes):
        code = code.decode()
    if code and ':' in code:
        code = code.split(':', 1)[1]
    return code


Target.fault_of_out = _fault_of_out


def uses_xml_only(t):
    return 'xmldata' in t


def uses_xml_only_deep(ir, t, seen=None):
    seen = seen or set()
    if 'xmldata' in t:
        return True
    if 'attr' in t:
        return False          # an attribute member is an ordinary member of a dict document
    if 'ref' in t:
        if t['ref'] in seen:
            return False
        seen.add(t['ref'])
        return any(uses_xml_only_deep(ir, ft, seen) for _, ft in gen.all_fields(ir, t['ref']))
    for k in ('array', 'seq'):
        if k in t:
            return uses_xml_only_deep(ir, t[k], seen)
    return False


class CpuBound(Exception):
    pass


def _on_vtalrm(signum, frame):
    import traceback
    raise CpuBound(''.join(traceback.format_stack(frame)[-5:]))


def names_of(B):
    return [c[0] for c in B.calls]


def process(R, T, data, driver, cls, repro, path=None, qs=None):
    """one hostile input through one driver; all oracles"""
    kind = T.kind
    B = T.B
    B.calls[:] = []
    B.returns.clear()
    R.evaluations += 1
    case = dict(repro, driver=driver, input_class=cls,
                input_b64=base64.b64encode((data if isinstance(data, bytes) else repr((path, qs)).encode())[:3000]).decode())
    signal.setitimer(signal.ITIMER_VIRTUAL, 20.0)
    try:
        if driver.startswith('wsgi') or kind == 'httprpc':
            if kind == 'httprpc':
                env, inp = drive.make_environ('GET', path, qs, b'', None)
            else:
                ctype = {'xml': 'text/xml', 'soap11': 'text/xml; charset=utf-8', 'soap12': 'application/soap+xml; charset=utf-8',
                         'json': 'application/json', 'jsonrpc': 'application/json', 'yaml': 'text/yaml'}.get(kind, 'application/octet-stream')
                if repro.get('charset'):
                    ctype = ctype.split(';')[0] + '; charset=' + repro['charset']
                if repro.get('ctype'):
                    ctype = repro['ctype']
                env, inp = drive.make_environ('POST', '/', '', data, ctype)
            if repro.get('content_length') is not None:
                env['CONTENT_LENGTH'] = repro['content_length']
            w = drive.call_wsgi(T.small() if driver == 'wsgi-small' else T.wsgi, env, inp)
            exc, stage, out, code = w.exc, w.exc_stage, w.body, w.code
            if driver == 'wsgi-small' and isinstance(data, bytes) and len(data) > SMALL_LIMIT and exc is None:
                R.count('over_limit_requests')
                if names_of(B) or not (code == 413 or (T.outkind in ('soap11', 'soap12') and code == 500)):
                    R.violation('a %d-byte request under max_content_length=%d answered %r (functions run: %r)' % (
                        len(data), SMALL_LIMIT, w.status, names_of(B)), case, mech='over_limit_not_refused:%s' % kind)
                    return
            bad_chunks = [c for c in w.chunks if not isinstance(c, bytes)]
        else:
            r = drive.drive_server(T.server, data)
            exc, stage, out, code = r.exc, r.exc_stage, r.out or b'', None
            bad_chunks = []
    except CpuBound as e:
        signal.setitimer(signal.ITIMER_VIRTUAL, 0)
        R.violation('more than 20 s of CPU for one %d-byte request: %s' % (len(data) if isinstance(data, bytes) else len(qs or ''), str(e)[-300:]), case,
                    mech='cpu_bound_exceeded:%s' % kind)
        return
    finally:
        signal.setitimer(signal.ITIMER_VIRTUAL, 0)
    R.count('inputs_processed')
    names = [c[0] for c in B.calls]
    if exc is not None:
        if isinstance(exc, CpuBound):
            R.violation('more than 20 s of CPU for one request', case, mech='cpu_bound_exceeded:%s' % kind)
            return
        R.violation('%s escaped %s (%s): %s' % (type(exc).__name__, stage, driver, str(exc)[:150]), case,
                    mech='escape:%s:%s:%s' % (kind, type(exc).__name__, drive.innermost_spyne_frame(exc)))
        return
    is_fault = (code is not None and code >= 400)
    fault = T.fault_of(out) if (is_fault or driver == 'server') else None
    if driver == 'server':
        is_fault = fault is not None
    if is_fault:
        if fault is None:
            R.violation('error response is not a well-formed fault document of the output protocol: %r' % out[:160], case,
                        mech='malformed_fault_document:%s' % kind)
            return
        R.count('faults_decoded')
        R.counters.setdefault('fault_codes', [])
        R.counters['fault_codes'] = sorted(set(R.counters['fault_codes']) | {str(fault)[:60]})[:80]
        if not str(fault).startswith('Client'):
            R.violation('malformed request answered with fault %r (not in the Client family)' % fault, case,
                        mech='server_fault_on_malformed:%s:%s' % (kind, str(fault)[:40]))
            return
        if code is not None and T.outkind not in ('soap11', 'soap12') and not (400 <= code < 500):
            R.violation('client fault %r answered with HTTP %s' % (fault, code), case, mech='client_fault_status:%s:%s' % (kind, code))
            return
        if names:
            R.violation('user function %r ran for a request that was answered with fault %r' % (names, fault), case,
                        mech='function_ran_for_faulted_request:%s' % kind)
            return
        R.nontrivial(kind, repro.get('validator'), driver, cls, 'fault', str(fault)[:50])
    else:
        R.count('normal_responses')
        if len(names) > 1:
            R.violation('%d user functions ran for one request' % len(names), case, mech='invocation_count')
            return
        R.nontrivial(kind, repro.get('validator'), driver, cls, 'normal', len(names))
    R.cell('%s%s|%s|%s' % (kind, '>' + T.outkind if T.outkind != kind else '', driver, cls.split(':')[0]))


# ---------------------------------------------------------------- mutation engines

def attrs_as_elements(doc):
    """every declared attribute of the request sent as a child element of the same name instead (one document each, the value as it was)"""
    out = []
    els = [e for e in doc.iter() if isinstance(e.tag, str)]
    for i, e in enumerate(els):
        for k in e.attrib:
            if 'XMLSchema-instance' in k or k in ('id', 'href'):
                continue
            for qualified in (False, True):
                d = copy.deepcopy(doc)
                x = [y for y in d.iter() if isinstance(y.tag, str)][i]
                ns = etree.QName(x).namespace
                if qualified and (not ns or k.startswith('{')):
                    continue
                c = etree.Element('{%s}%s' % (ns, k) if qualified else k)
                c.text = x.get(k)
                x.insert(0, c)
                del x.attrib[k]
                out.append(('mut:attr_as_element', etree.tostring(d)))
    return out


def xml_mutants(rng, doc, n):
    out = []
    elems = [e for e in doc.iter() if isinstance(e.tag, str)]
    leaves = [e for e in elems if len(e) == 0]
    for _ in range(n):
        d = copy.deepcopy(doc)
        els = [e for e in d.iter() if isinstance(e.tag, str)]
        lv = [e for e in els if len(e) == 0]
        op = rng.choice(('leaf', 'leaf', 'leaf', 'attr', 'attr', 'attr_as_element', 'delete', 'dup', 'unknown', 'nest', 'text_in_complex', 'rename', 'nil', 'reorder', 'empty',
                         'entity', 'entity', 'pi', 'fault_body', 'href'))
        try:
            if op == 'leaf' and lv:
                rng.choice(lv).text = rng.choice(HOSTILE)
            elif op == 'attr':
                e = rng.choice(els)
                for k in list(e.attrib)[:1]:
                    e.set(k, rng.choice(HOSTILE))
                e.set('junk', rng.choice(HOSTILE))
                # an attribute that bears the name of a member which is not an attribute (a child of this element, or of any other)
                kids = [x for x in (list(e) or els[1:]) if isinstance(x.tag, str)]
                if kids and rng.random() < .6:
                    k = rng.choice(kids)
                    e.set(rng.choice((etree.QName(k).localname, k.tag)), rng.choice(HOSTILE + [k.text or 'x']))
            elif op == 'attr_as_element':
                # what is declared an attribute is sent as a child element (and stays an attribute as well, or not)
                cands = [x for x in els if any('XMLSchema-instance' not in k for k in x.attrib)]
                if cands:
                    e = rng.choice(cands)
                    k = rng.choice([k for k in e.attrib if 'XMLSchema-instance' not in k])
                    ns = etree.QName(e).namespace
                    c = etree.SubElement(e, rng.choice((k, '{%s}%s' % (ns, k) if ns and not k.startswith('{') else k)))
                    c.text = rng.choice(HOSTILE + [e.get(k)])
                    if rng.random() < .5:
                        e.insert(0, c)
                    if rng.random() < .5:
                        del e.attrib[k]
            elif op == 'delete' and len(els) > 1:
                e = rng.choice(els[1:])
                e.getparent().remove(e)
            elif op == 'dup' and len(els) > 1:
                e = rng.choice(els[1:])
                e.addnext(copy.deepcopy(e))
            elif op == 'unknown':
                e = rng.choice(els)
                etree.SubElement(e, rng.choice(('unknown', '{urn:other}x', e.tag))).text = rng.choice(HOSTILE)
            elif op == 'nest' and lv:
                e = rng.choice(lv)
                etree.SubElement(e, e.tag).text = e.text
                e.text = None
            elif op == 'text_in_complex':
                e = rng.choice([x for x in els if len(x)] or els)
                e.text = rng.choice(HOSTILE)
            elif op == 'rename':
                e = rng.choice(els)
                e.tag = rng.choice(('{urn:other}%s' % etree.QName(e).localname, etree.QName(e).localname, e.tag + 'x'))
            elif op == 'nil':
                rng.choice(els).set('{%s}nil' % refxml.XSI, rng.choice(('true', '1', 'false', 'maybe')))
            elif op == 'reorder' and len(els) > 2:
                e = rng.choice([x for x in els if len(x) > 1] or els)
                kids = list(e)
                rng.shuffle(kids)
                for k in kids:
                    e.append(k)
            elif op == 'empty':
                e = rng.choice(els)
                for k in list(e):
                    e.remove(k)
                e.text = None
            elif op == 'entity':
                # an (unresolved) internal entity reference among the children of a complex element, or as leaf text
                e = rng.choice([x for x in els if len(x)] or els) if rng.random() < .7 else rng.choice(lv or els)
                if rng.random() < .5 or not len(e):
                    e.text = '@@ENT@@'
                else:
                    rng.choice(list(e)).tail = '@@ENT@@'
                raw = etree.tostring(d, xml_declaration=False, encoding='UTF-8')
                out.append(('mut:entity', b'<?xml version="1.0" encoding="UTF-8"?><!DOCTYPE r [<!ENTITY x "zz">]>' + raw.replace(b'@@ENT@@', b'&x;')))
                continue
            elif op == 'pi':
                e = rng.choice(els)
                e.insert(0, etree.ProcessingInstruction('vf', 'x'))
                if rng.random() < .5:
                    e.append(etree.Comment(' c '))
            elif op == 'fault_body':
                # a Fault where the message element should be (for SOAP: as the Body child)
                tgt = d
                for x in els:
                    if etree.QName(x).localname == 'Body':
                        tgt = x
                ns = etree.QName(tgt).namespace if tgt is not d else None
                for k in list(tgt):
                    tgt.remove(k)
                f = etree.SubElement(tgt, '{%s}Fault' % ns if ns else 'Fault')
                etree.SubElement(f, 'faultcode').text = rng.choice(HOSTILE)
                etree.SubElement(f, 'faultstring').text = rng.choice(HOSTILE)
            elif op == 'href':
                e = rng.choice(els)
                e.set('href', rng.choice(('#nope', '#', 'nope', '#' + (e.get('id') or 'x'))))
                if rng.random() < .5:
                    rng.choice(els).set('id', 'x')
            out.append(('mut:' + op, etree.tostring(d, xml_declaration=True, encoding='UTF-8')))
        except Exception:
            continue
    return out


ODD_KEYS = [0, 1, 2, -1, 7, 100, 10 ** 20, True, False, None, 1.5, float('inf'), b'x', (1, 2), ()]


def _at(body, path):
    cur = body
    for k in path:
        cur = cur[k]
    return cur


def dict_mutants(rng, codec, doc, n):
    from checks.c04 import positions, set_path, SUBST
    out = []
    (mkey, body), = doc.items() if isinstance(doc, dict) else ((None, doc),)
    if mkey is None:
        # msgpack-rpc: [0, id, name, params]
        body = doc
    pos = list(positions(body))
    for _ in range(n):
        op = rng.choice(('kind', 'kind', 'hostile', 'hostile', 'delete', 'unknown', 'dupkey', 'methodkey', 'toplevel', 'hostile_name', 'hostile_name', 'odd_key',
                         'odd_key'))
        try:
            if op == 'odd_key':
                # a mapping key that is not text where the name of a member, of a message part or of the method is expected (YAML and MessagePack can
                # say that; JSON writes them as text, which gives names like "0", "true", "null")
                k = rng.choice(ODD_KEYS)
                how = rng.choice(('add', 'add', 'rename', 'method'))
                if how == 'method' and mkey is not None:
                    out.append(('mut:odd_key_method', codec.dumps({k: body})))
                    continue
                dicts = [q for q in [()] + [tuple(q) for q in pos] if isinstance(_at(body, q), dict)]
                if not dicts:
                    continue
                q = rng.choice(dicts)
                m = copy.deepcopy(body)
                cur = _at(m, q)
                if how == 'rename' and cur:
                    old = rng.choice(sorted(cur, key=repr))
                    cur[k] = cur.pop(old)
                else:
                    cur[k] = rng.choice(SUBST)[1]
                out.append(('mut:odd_key_' + ('member' if q else 'part'), codec.dumps({mkey: m} if mkey is not None else m)))
                continue
            if op == 'hostile_name':
                nm = rng.choice(HOSTILE_NAMES)
                if mkey is not None and rng.random() < .6:
                    out.append(('mut:hostile_method_name', codec.dumps({(mkey[:rng.randint(0, len(mkey))] + nm if rng.random() < .5 else nm): body})))
                elif mkey is None and isinstance(body, list) and len(body) == 4:
                    out.append(('mut:hostile_method_name', codec.dumps([body[0], body[1], nm, body[3]])))
                else:
                    p = rng.choice(pos)
                    m = copy.deepcopy(body)
                    cur = m
                    for k in p[:-1]:
                        cur = cur[k]
                    if isinstance(cur, dict):
                        cur[nm] = rng.choice(SUBST)[1]
                        out.append(('mut:hostile_member_name', codec.dumps({mkey: m} if mkey is not None else m)))
                continue
            p = rng.choice(pos)
            if op == 'kind':
                m = set_path(body, p, rng.choice(SUBST)[1])
            elif op == 'hostile':
                m = set_path(body, p, rng.choice(HOSTILE))
            elif op == 'delete' and p:
                m = copy.deepcopy(body)
                cur = m
                for k in p[:-1]:
                    cur = cur[k]
                del cur[p[-1]]
            elif op == 'unknown':
                m = copy.deepcopy(body)
                cur = m
                for k in p:
                    cur = cur[k]
                if isinstance(cur, dict):
                    cur[rng.choice(('unknown', '', 'é', 'a.b'))] = rng.choice(SUBST)[1]
                elif isinstance(cur, list):
                    cur.append(rng.choice(SUBST)[1])
                else:
                    continue
            elif op == 'methodkey' and mkey is not None:
                out.append(('mut:methodkey', codec.dumps({mkey: body, 'second': body})))
                continue
            elif op == 'toplevel':
                out.append(('mut:toplevel', codec.dumps(rng.choice(([], [1, 2, 3], 'text', 5, None, {}, [body], {'': body}, [0, 1], [9, 9, 9, 9], [0, 1, 5, 6])))))
                continue
            else:
                continue
            out.append(('mut:' + op, codec.dumps({mkey: m} if mkey is not None else m)))
        except Exception:
            continue
    return out


DEEP = {}


def deep_bodies(kind):
    """documents whose only remarkable feature is their nesting depth"""
    if kind not in DEEP:
        if kind == 'json':
            DEEP[kind] = [b'[' * 100000, b'{"a":' * 30000, b'[' * 5000 + b']' * 5000, b'{"m":' + b'[' * 2000 + b'1' + b']' * 2000 + b'}']
        elif kind == 'yaml':
            DEEP[kind] = [b'[' * 20000, b'{a: ' * 5000, b'- ' * 3000 + b'x', b'[' * 500 + b']' * 500]
        elif kind in ('msgpack', 'msgpackrpc'):
            DEEP[kind] = [b'\x91' * 100000, b'\x81\xa1a' * 30000, b'\x91' * 2000 + b'\x01', b'\x94\x00\x01\xa1m' + b'\x91' * 3000 + b'\x01']
        elif kind in ('xml', 'soap11', 'soap12'):
            DEEP[kind] = [b'<a>' * 50000, b'<a>' * 2000 + b'</a>' * 2000]
        else:
            DEEP[kind] = []
    return DEEP[kind]


def raw_mutants(rng, kind, T, struct, tier):
    """mutants that the encoders of the reference codec cannot spell: literals beyond the interpreter's integer-conversion limit,
    YAML tags, nulls for the whole message, deep nesting"""
    out = [('mut:deep', b) for b in deep_bodies(kind)]
    if kind in ('xml', 'soap11', 'soap12', 'httprpc') or not isinstance(struct, dict):
        return out
    from checks.c04 import positions, set_path
    (mkey, body), = struct.items()
    codec = T.codec
    for v in (None, [], 5, 'text', [None], {'': None}):
        try:
            out.append(('mut:toplevel_value', codec.dumps({mkey: v})))
        except Exception:
            pass
    pos = [p for p in positions(body) if p]
    rng.shuffle(pos)
    big = b'9' * 5000
    yaml_raw = [b'!!timestamp "x"', b'!!int "x"', b'!!float "x"', b'!!binary "x"', b'!!bool "x"', b'!!python/object:os.system', b'2020-13-45', b'2020-01-01',
                b'2001-12-14t21:59:43.10-05:00', b'.nan', b'-.inf', b'0o777', b'0x1F', b'1_000', b'~', b'*anchor', b'&a [*a]', b'!!set {a, b}', b'!!omap [a: 1]',
                b'? [1, 2]\n  : x', b'<<: {a: 1}']
    for p in pos[:6 if tier == 'quick' else 40]:
        try:
            data = codec.dumps({mkey: set_path(body, p, '@@RAW@@')})
        except Exception:
            continue
        if kind == 'json':
            for raw in (big, b'-' + big, b'1e5000', b'NaN', b'Infinity', b'-Infinity', b'0.' + b'0' * 5000 + b'1', b'1' + b'0' * 400 + b'.5', b'01', b'+1', b'.5', b'1.',
                        b'"\\ud800"', b'"\\u0000"', b'tru', b"'x'"):
                out.append(('mut:raw_literal', data.replace(b'"@@RAW@@"', raw)))
        elif kind == 'yaml':
            for raw in [big, b'-' + big] + yaml_raw:
                for q in (b"'@@RAW@@'", b'"@@RAW@@"', b'@@RAW@@'):
                    if q in data:
                        out.append(('mut:raw_literal', data.replace(q, raw)))
                        break
    return out


def href_graphs(data):
    """SOAP section-5 multi-ref encoding: the first argument of a valid request replaced by an accessor (href) into a graph of
    id-carrying elements appended to the Body: chains, direct and indirect cycles, cycles through ordinary child elements, fan-out"""
    out = []
    try:
        root = etree.fromstring(data)
    except Exception:
        return out
    body = [e for e in root if isinstance(e.tag, str) and etree.QName(e).localname == 'Body']
    if not body or not len(body[0]) or not len(body[0][0]):
        return out
    shapes = {
        'chain': '<m id="a"><k href="#b"/></m><m id="b"><k href="#c"/></m><m id="c"><k>1</k></m>',
        'self_direct': '<m id="a"><k href="#a"/></m>',
        'self_nested': '<m id="a"><c><k href="#a"/></c></m>',
        'self_deep': '<m id="a"><c><d><e><k href="#a"/></e></d></c></m>',
        'pair_direct': '<m id="a"><k href="#b"/></m><m id="b"><k href="#a"/></m>',
        'pair_nested': '<m id="a"><c><k href="#b"/></c></m><m id="b"><c><d><k href="#a"/></d></c></m>',
        'pair_mixed': '<m id="a"><k href="#b"/></m><m id="b"><c><k href="#a"/></c></m>',
        'triangle_nested': '<m id="a"><c><k href="#b"/></c></m><m id="b"><k href="#c"/></m><m id="c"><c><k href="#a"/></c></m>',
        'shared_target': '<m id="a"><k href="#z"/><l href="#z"/><c><n href="#z"/></c></m><m id="z"><k>1</k></m>',
        'fan_out': ''.join('<m id="l%d">%s</m>' % (i, ''.join('<k href="#l%d"/>' % (i + 1) for _ in range(8))) for i in range(4)) + '<m id="l4"><k>1</k></m>',
        'dangling_nested': '<m id="a"><c><k href="#nowhere"/></c></m>',
        'id_on_accessor': '<m id="a" href="#a"/>',
    }
    for label, frag in sorted(shapes.items()):
        d = copy.deepcopy(root)
        b = [e for e in d if isinstance(e.tag, str) and etree.QName(e).localname == 'Body'][0]
        arg = b[0][0]
        for c in list(arg):
            arg.remove(c)
        arg.text = None
        arg.set('href', '#l0' if label == 'fan_out' else '#a')
        for el in etree.fromstring('<r>%s</r>' % frag):
            b.append(el)
        out.append(('href:' + label, etree.tostring(d, xml_declaration=True, encoding='UTF-8')))
    return out


def mime_mutants(rng, data, tier):
    """SOAP with attachments: the envelope as root part of a multipart/related body, and broken variants of that"""
    B = b'vfb'
    CT = 'multipart/related; boundary="vfb"; start="<root>"; type="text/xml"'

    def part(headers, payload):
        return b'--' + B + b'\r\n' + b''.join(h + b'\r\n' for h in headers) + b'\r\n' + payload + b'\r\n'
    root = part([b'Content-Type: text/xml; charset=utf-8', b'Content-ID: <root>'], data)
    att = part([b'Content-Type: application/octet-stream', b'Content-Transfer-Encoding: base64', b'Content-ID: <att1>'], b'QUJD')
    end = b'--' + B + b'--\r\n'
    out = [('valid:multipart', root + att + end, CT)]
    V = lambda name, body, ct=CT: out.append(('mut:mime_' + name, body, ct))
    V('attachment_without_id', root + part([b'Content-Type: application/octet-stream'], b'ABC') + end)
    V('attachment_location', root + part([b'Content-Type: application/octet-stream', b'Content-Location: http://x/att'], b'ABC') + end)
    V('no_boundary_param', root + att + end, 'multipart/related; start="<root>"')
    V('wrong_boundary', root + att + end, 'multipart/related; boundary="other"; start="<root>"')
    V('start_unknown', root + att + end, 'multipart/related; boundary="vfb"; start="<nope>"')
    V('no_start', root + att + end, 'multipart/related; boundary="vfb"')
    V('attachment_only', att + end)
    V('attachment_first', att + root + end, 'multipart/related; boundary="vfb"')
    V('no_parts', end)
    V('empty', b'')
    V('bad_base64', root + part([b'Content-Type: application/octet-stream', b'Content-Transfer-Encoding: base64', b'Content-ID: <att1>'], b'@@@@') + end)
    V('root_not_xml', part([b'Content-Type: text/xml', b'Content-ID: <root>'], b'not xml <') + att + end)
    V('root_no_body', part([b'Content-Type: text/xml', b'Content-ID: <root>'], b'<e:Envelope xmlns:e="http://schemas.xmlsoap.org/soap/envelope/"/>') + att + end)
    V('root_fault', part([b'Content-Type: text/xml', b'Content-ID: <root>'],
                         b'<e:Envelope xmlns:e="http://schemas.xmlsoap.org/soap/envelope/"><e:Body><e:Fault/></e:Body></e:Envelope>') + att + end)
    V('nested', root + part([b'Content-Type: multipart/mixed; boundary="inner"'], b'--inner\r\n\r\nx\r\n--inner--') + end)
    V('charset_unknown', root + att + end, CT + '; charset=no-such-charset')
    # names that Python knows as codecs but that are not character sets (bytes-to-bytes and text-to-text transforms), and ones that are
    for cs in ('hex', 'base64', 'zlib', 'bz2', 'rot13', 'undefined', 'uu', 'quopri', 'idna', 'punycode', 'utf-16', 'utf-32', 'utf-7', 'cp037', 'unicode_escape',
               'raw_unicode_escape', 'mbcs', 'oem', ''):
        V('charset_' + (cs or 'empty'), root + att + end, CT + '; charset=' + cs)
    V('bad_headers', b'--' + B + b'\r\n\xff\xfe: \x00\r\n\r\n' + data + b'\r\n' + end)
    whole = root + att + end
    step = max(1, len(whole) // (40 if tier == 'quick' else 400))
    for k in range(0, len(whole), step):
        out.append(('prefix:multipart', whole[:k], CT))
    return out


def query_mutants(rng, path, pairs, n):
    from urllib.parse import quote
    out = []
    for _ in range(n):
        ps = list(pairs)
        op = rng.choice(('hostile', 'hostile', 'delete', 'dup', 'unknown', 'badpct', 'index', 'novalue', 'path'))
        p = path
        if op == 'hostile' and ps:
            i = rng.randrange(len(ps))
            ps[i] = (ps[i][0], rng.choice(HOSTILE))
        elif op == 'delete' and ps:
            del ps[rng.randrange(len(ps))]
        elif op == 'dup' and ps:
            ps.append(rng.choice(ps))
        elif op == 'unknown':
            ps.append((rng.choice(('unknown', 'a.b.c', 'x[0]', '[0]', 'p0.', '.p0', 'p0..f', 'v[%s].x' % ('9' * 5000), 'unknown[%s]' % ('9' * 4400))), rng.choice(HOSTILE)))
        elif op == 'index' and ps:
            i = rng.randrange(len(ps))
            ps[i] = (ps[i][0] + rng.choice(('[0]', '[99999999]', '[-1]', '[x]', '[', '[0][0]', '[%s]' % ('9' * 5000), '[%s].x' % ('9' * 5000), '[٣]', '[1e3]', '[0x1]',
                                            '[ 1]')), ps[i][1])
        elif op == 'path':
            p = rng.choice(('/', '', path + '/', path + '/x', '//', path.upper(), path + '\x08', '/\x00', '/\x7f', '/\xe9', '/op\x1f', path + '%s',
                            '/' + 'n' * 3000, '/<a>', '/]]>'))
        qs = '&'.join('%s=%s' % (quote(k.encode('utf8', 'surrogatepass'), safe=''), quote(v.encode('utf8', 'surrogatepass'), safe='')) for k, v in ps)
        if op == 'badpct':
            qs += rng.choice(('&%', '&a=%zz', '&%=%', '&=', '&&', '&a', '&a=%ff%fe', '&%00=1'))
        if op == 'novalue' and ps:
            qs += '&' + quote(ps[0][0].encode('utf8', 'surrogatepass'), safe='')
        out.append(('mut:' + op, p, qs))
    return out


def run(spec, R):
    kind, validator, tier = spec['kind'], spec['validator'], spec['tier']
    rng = core.rng_for(spec['seed'], PROP, spec['shard'])
    signal.signal(signal.SIGVTALRM, _on_vtalrm)
    nuni = 3 if tier == 'quick' else 12
    nprefix_reqs = 3 if tier == 'quick' else 40
    nmut = 60 if tier == 'quick' else 600
    nrand = 60 if tier == 'quick' else 800
    prefix_done = 0
    for uid in list(range(nuni)) + [9100, 9200, 9300]:
        # (9100: the fixed three-level class tree with defaults, required attributes, bounded repeats; 9200: every primitive kind;
        #  9300: a class that contains itself)
        ir = universe(spec['seed'], uid) if uid < 9000 else inheritance_universe() if uid == 9100 else all_kinds_universe(kind not in ('xml', 'soap11', 'soap12')) if uid == 9200 \
            else chain_universe()
        try:
            T = Target(ir, kind, validator, rng, spec.get('out'))
        except Exception as e:
            R.skip('universe rejected at construction: %s' % type(e).__name__)
            continue
        repro = {'seed': spec['seed'], 'uid': uid, 'kind': kind, 'validator': validator, 'out': spec.get('out')}
        drivers = ('wsgi',) if kind == 'httprpc' else ('server', 'wsgi')
        if uid == 9300:
            for i, (cls, body) in enumerate(chain_bodies(kind, ir['tns'])):
                process(R, T, body, drivers[i % len(drivers)], cls, repro)
                R.count('deep_chain_requests')
        # random bytes
        for i in range(nrand // nuni):
            n = rng.choice((0, 1, 2, 5, 20, 100, 200))
            blob = bytes(rng.getrandbits(8) for _ in range(n))
            if rng.random() < .3:
                blob = rng.choice((b'<', b'{', b'[', b'\x93', b'---\n', b'<?xml', b'\xef\xbb\xbf', b'\x00')) + blob
            for d in drivers:
                if kind == 'httprpc':
                    process(R, T, b'', d, 'random', repro, path='/' + blob[:20].decode('latin1').replace('?', ''), qs=blob.decode('latin1'))
                else:
                    process(R, T, blob, d, 'random', repro)
        for md in ir['services'][0]['methods']:
            try:
                vr = T.valid_request(rng, md)
            except (refxml.NotConformant, refxml.SchemaMismatch, refflat.NotExpressible, refdict.NotConformant, TypeError, KeyError, ValueError):
                vr = None
            if vr is None:
                continue
            data, struct = vr
            # the valid request itself must be processed normally
            if uid == 9200:
                leaf_sweep(R, T, rng, data, struct, repro, tier, drivers)
                R.count('all_kinds_requests_swept')
            if kind == 'httprpc':
                path, pairs = data
                qs = refflat.query_string(pairs)
                process(R, T, b'', 'wsgi', 'valid', repro, path=path, qs=qs)
                if prefix_done < nprefix_reqs:
                    prefix_done += 1
                    for k in range(len(qs)):
                        process(R, T, b'', 'wsgi', 'prefix', repro, path=path, qs=qs[:k])
                        R.count('prefixes_tried')
                for cls, p, q in query_mutants(rng, path, pairs, nmut // 4):
                    process(R, T, b'', 'wsgi', cls, repro, path=p, qs=q)
                continue
            for d in drivers:
                process(R, T, data, d, 'valid', repro)
            # the same request, and the same one padded past the limit, behind a transport with a small request-size limit
            process(R, T, data, 'wsgi-small', 'valid', repro)
            process(R, T, data + b' ' * (SMALL_LIMIT + 1), 'wsgi-small', 'padded_past_limit', repro)
            # what a client can put into the Content-Length header
            for cl in ('abc', '-1', '9' * 4400, '1e2', ' 12', '', str(len(data) + 50), str(max(len(data) - 3, 0)), '0'):
                process(R, T, data, 'wsgi', 'content_length:' + cl[:6], dict(repro, content_length=cl))
            # EVERY prefix
            if prefix_done < nprefix_reqs:
                prefix_done += 1
                for k in range(len(data)):
                    process(R, T, data[:k], drivers[k % len(drivers)], 'prefix', repro)
                    R.count('prefixes_tried')
            # charset games
            for cs in ('latin-1', 'utf-16', 'ascii', 'no-such-charset', 'utf\x008', 'utf-8\x00', '\x00', '"utf\x008"', '', ' ', '"utf-8', 'utf-8"', "'utf-8'", '\xe9', 'utf-8' * 200,
                       'hex', 'rot13', 'undefined', 'idna', 'unicode_escape', 'utf-8;x', 'UTF-8', '"UTF-8"'):
                process(R, T, data, 'wsgi', 'charset:' + cs, dict(repro, charset=cs))
            try:
                process(R, T, data.decode('utf8').encode('utf-16'), drivers[0], 'encoding:utf-16-body', repro)
            except UnicodeDecodeError:
                pass
            # structure-aware mutations
            if kind in ('xml', 'soap11', 'soap12'):
                muts = xml_mutants(rng, struct, nmut // 3) + attrs_as_elements(struct)
            else:
                muts = dict_mutants(rng, T.codec, struct, nmut // 3)
            muts += raw_mutants(rng, kind, T, struct, tier)
            for i, (cls, m) in enumerate(muts):
                process(R, T, m, drivers[i % len(drivers)] if i % 7 else 'wsgi-small', cls, repro)
            if kind in ('soap11', 'soap12'):
                for cls, m, ct in mime_mutants(rng, data, tier):
                    process(R, T, m, 'wsgi', cls, dict(repro, ctype=ct))
                for i, (cls, m) in enumerate(href_graphs(data)):
                    process(R, T, m, drivers[i % len(drivers)], cls, repro)
                    R.count('href_graphs_sent')
    if not R.counters.get('all_kinds_requests_swept'):
        R.inconclusive.append('all-kinds universe: no valid request could be built and swept for %s/%s' % (kind, validator))
    any_kinds(R, spec, rng)
    if len(R.samples) < 2:
        R.sample({'kind': kind, 'validator': validator, 'inputs': R.counters.get('inputs_processed'), 'fault_codes_seen': R.counters.get('fault_codes', [])[:12]})


HOSTILE_ANY = ['<?xml version="1.0" encoding="utf-8"?><a/>', '<?xml version="1.0" encoding="latin-1"?><a>\xe9</a>', '<?xml version="1.0"?><a/>',
               "<!DOCTYPE x [<!ENTITY a 'E'>]><x>&a;</x>", '<!DOCTYPE x SYSTEM "file:///etc/hostname"><x/>', '<a>', '<a></b>', '<a/><b/>', 'text', '', ' ',
               '<a xmlns:p="urn:p"><p:b/><q:c/></a>', '<' + 'a>' * 3000, '<a>' * 300 + '</a>' * 300, '<a b="1" b="2"/>', '<a>&#0;</a>', '<a>&#xD800;</a>',
               '<html><body><p>unclosed', '<script>alert(1)</script>', '\x00<a/>', '<a/>\x00', '<!-- c -->', '<?pi?>', '<![CDATA[x]]>',
               1e30, -1e30, 1e308 * 10, -1e308 * 10, 10 ** 30, -10 ** 30, 2 ** 63, 1.5, 0, -1, True, None, [], {}, [1, 2], {'a': {'b': [None]}}, [[[]]],
               '1e30', '99999999999999999999', '-99999999999999999999', '1600000000', '1600000000.5', '253402300800', '-62135596801', '1e18', 'inf', '-inf',
               '0001-01-01T00:00:00+14:00', '9999-12-31T23:59:59-14:00', '0001-01-01T00:00:00-00:01', '9999-12-31T23:59:59.999999+00:01']


class AnyTarget(object):
    """a hand-built application for what the generated universes do not hold: AnyXml, AnyHtml, AnyDict and Any members, an AnyXml attribute,
    DateTime members that travel as numbers (serialize_as) or are moved to a time zone (as_timezone), custom date/time formats"""

    def __init__(self, kind, validator, outkind=None):
        import pytz
        from spyne import Application, Service, rpc, ComplexModel, AnyXml, AnyHtml, AnyDict, Any, DateTime, Date, Time, Unicode, Integer, Array, Iterable, Uuid
        from spyne.model.complex import XmlAttribute
        from spyne.server import ServerBase
        from spyne.server.wsgi import WsgiApplication
        self.kind, self.outkind, self.ir = kind, outkind or kind, None
        T = self

        class _B(object):
            calls = []
        self.B = _B()
        self.B.calls = []
        self.B.returns = {}
        ns = 'urn:vf:c10any'
        xmlish = kind in ('xml', 'soap11', 'soap12')
        members = dict(x=AnyXml, h=AnyHtml, d=AnyDict, a=Any, ts=DateTime(serialize_as='sec'), tf=DateTime(serialize_as='sec_float'),
                       tm=DateTime(serialize_as='msec'), tu=DateTime(serialize_as='usec'), tz=DateTime(as_timezone=pytz.utc),
                       df=Date(date_format='%d.%m.%Y'), dt=DateTime(dt_format='%Y%m%dT%H%M%S'), xs=Array(AnyXml), ds=Array(AnyDict),
                       it=Iterable(Integer), itd=Iterable(Date), ui=Uuid(serialize_as='int'), ub=Uuid(serialize_as='bytes'), uu=Uuid(serialize_as='urn'),
                       uh=Uuid(serialize_as='hex'))
        if xmlish and validator != 'lxml':
            members['ax'] = XmlAttribute(AnyXml)          # (has no valid schema: not with the lxml validator)
        AK = type('AK', (ComplexModel,), dict(members, __namespace__=ns))

        Hd = type('Hd', (ComplexModel,), dict(tok=Unicode, n=Integer, __namespace__=ns))
        Hd2 = type('Hd2', (ComplexModel,), dict(m=Integer(ge=0), __namespace__=ns))
        hkw = dict(_in_header=(Hd, Hd2)) if kind == 'jsonrpc' else {}

        class AnySvc(Service):
            @rpc(AK, AnyXml, AnyDict, _returns=Unicode, **hkw)
            def sink(ctx, k, x, d):
                T.B.calls.append(('sink', ()))
                if k is not None:
                    # (a function that is given iterables iterates them)
                    for seq in (k.it, k.itd, k.xs, k.ds):
                        for _ in (seq if seq is not None else ()):
                            pass
                return 'ok'

            @rpc(AnyXml, _body_style='bare', _returns=Unicode)
            def bare_xml(ctx, x):
                T.B.calls.append(('bare_xml', ()))
                return 'ok'

            @rpc(AnyDict, _body_style='bare', _returns=Unicode)
            def bare_dict(ctx, d):
                T.B.calls.append(('bare_dict', ()))
                return 'ok'
        if xmlish:
            inp = c01.make_protocols(kind, validator)[0]
        elif kind == 'httprpc':
            from spyne.protocol.http import HttpRpc
            inp = HttpRpc(validator=validator)
        else:
            self.conf = refdict.Conf(kind, True, 'dict', False)
            inp, outp_ = c02.make_protocols(self.conf, validator)
            self.codec = refdict.Codec({'types': [], 'services': [], 'tns': ns, 'uid': 9400}, self.conf)
        if outkind or xmlish or kind == 'httprpc':
            outp = M.make_protocols(outkind or ('json' if kind == 'httprpc' else kind), None)[1]
        else:
            outp = outp_
        app = Application([AnySvc], ns, name='AnyKinds', in_protocol=inp, out_protocol=outp)
        self.server = None if kind == 'httprpc' else ServerBase(app)
        self.wsgi = WsgiApplication(app)
        self.ns = ns

    small = Target.small
    fault_of = Target.fault_of
    fault_of_out = _fault_of_out

    def requests(self):
        """[(bytes or (path, pairs), structure)]: valid requests written by hand"""
        kind, ns = self.kind, self.ns
        k = {'x': '<a><b>1</b></a>', 'h': '<p>hi</p>', 'd': {'q': [1, {'r': 's'}]}, 'a': {'any': ['thing', 1]}, 'ts': 1600000000, 'tf': 1600000000.25,
             'tm': 1600000000000, 'tu': 1600000000000000, 'tz': '2020-01-01T00:00:00+02:00', 'df': '31.12.2020', 'dt': '20201231T235959',
             'xs': ['<i/>', '<j>2</j>'], 'ds': [{'u': 1}], 'it': [1, 22], 'itd': ['2020-02-29'], 'ui': 12345, 'ub': 'AAECAwQFBgcICQoLDA0ODw==', 'uu': 'urn:uuid:12345678-1234-1234-1234-123456789012',
             'uh': '12345678123412341234123456789012'}
        if kind in ('xml', 'soap11', 'soap12'):
            body = ('<t:sink xmlns:t="%s"><t:k ax="&lt;z&gt;1&lt;/z&gt;"><t:x><a><b>1</b></a></t:x><t:h><p>hi</p></t:h><t:d><q>1</q><q><r>s</r></q></t:d>'
                    '<t:a><any>thing</any></t:a><t:ts>1600000000</t:ts><t:tf>1600000000.25</t:tf><t:tm>1600000000000</t:tm><t:tu>1600000000000000</t:tu>'
                    '<t:tz>2020-01-01T00:00:00+02:00</t:tz><t:df>31.12.2020</t:df><t:dt>20201231T235959</t:dt><t:xs><t:anyType><i/></t:anyType></t:xs>'
                    '<t:ds><t:anyType><u>1</u></t:anyType></t:ds><t:it><t:integer>1</t:integer><t:integer>22</t:integer></t:it><t:itd><t:date>2020-02-29</t:date></t:itd><t:ui>12345</t:ui><t:ub>AAECAwQFBgcICQoLDA0ODw==</t:ub><t:uu>urn:uuid:12345678-1234-1234-1234-123456789012</t:uu><t:uh>12345678123412341234123456789012</t:uh></t:k><t:x><b/></t:x><t:d><w>1</w></t:d></t:sink>' % ns)
            if 'ax=' in body and not hasattr(self, 'conf') and self.wsgi.app.in_protocol.validator is not None and False:
                pass
            if kind != 'xml':
                # the SOAP protocols read and write ISO dates and times whatever format the type asks for (their own __init__ says so)
                for tag_, iso_ in (('ts', '2020-09-13T12:26:40'), ('tf', '2020-09-13T12:26:40.25'), ('tm', '2020-09-13T12:26:40'), ('tu', '2020-09-13T12:26:40'),
                                   ('df', '2020-12-31'), ('dt', '2020-12-31T23:59:59')):
                    body = re.sub(r'<t:%s>[^<]*</t:%s>' % (tag_, tag_), '<t:%s>%s</t:%s>' % (tag_, iso_, tag_), body)
            from lxml import etree as _et
            out = []
            for b in (body, '<t:bare_xml xmlns:t="%s"><a><b>1</b></a></t:bare_xml>' % ns, '<t:bare_dict xmlns:t="%s"><q>1</q></t:bare_dict>' % ns):
                if self.wsgi.app.in_protocol.validator is not None and 'ax=' in b and getattr(self.wsgi.app.in_protocol.validator, '__name__', '') == 'x':
                    continue
                el = _et.fromstring(b)
                if 'ax' not in [f for f in self.wsgi.app.interface.classes['{%s}AK' % ns]._type_info]:
                    for e in el.iter():
                        e.attrib.pop('ax', None)
                if kind != 'xml':
                    env = _et.Element('{%s}Envelope' % (M.S11 if kind == 'soap11' else M.S12))
                    _et.SubElement(env, '{%s}Body' % (M.S11 if kind == 'soap11' else M.S12)).append(el)
                    el = env
                out.append((_et.tostring(el), el))
            return out
        if kind == 'httprpc':
            pairs = [('k.x', k['x']), ('k.h', k['h']), ('k.ts', '1600000000'), ('k.tf', '1600000000.25'), ('k.tm', '1600000000000'), ('k.tu', '1600000000000000'),
                     ('k.tz', k['tz']), ('k.df', k['df']), ('k.dt', k['dt']), ('k.xs[0]', '<i/>'), ('k.it[0]', '1'), ('k.it[1]', '22'), ('k.itd[0]', '2020-02-29'), ('k.ui', '12345'), ('k.uu', 'urn:uuid:12345678-1234-1234-1234-123456789012'), ('k.uh', '12345678123412341234123456789012'), ('x', '<b/>')]
            return [(('/sink', pairs), pairs)]
        docs = [{'sink': {'k': k, 'x': '<b/>', 'd': {'w': 1}}}, {'bare_xml': '<a><b>1</b></a>'}, {'bare_dict': {'q': [1]}}]
        if kind == 'msgpackrpc':
            docs = [[0, 1, 'sink', [k, '<b/>', {'w': 1}]]]
        return [(self.codec.dumps(d), d) for d in docs]


def any_kinds(R, spec, rng):
    global HOSTILE
    kind, validator, tier = spec['kind'], spec['validator'], spec['tier']
    try:
        T = AnyTarget(kind, validator, spec.get('out'))
    except Exception as e:
        R.skip('any-kinds application rejected at construction: %s' % type(e).__name__)
        if len(R.notes) < 6:
            R.notes.append('any-kinds application (%s, %s): %r' % (kind, validator, e))
        return
    repro = {'seed': spec['seed'], 'uid': 9400, 'kind': kind, 'validator': validator, 'out': spec.get('out')}
    drivers = ('wsgi',) if kind == 'httprpc' else ('server', 'wsgi')
    saved = HOSTILE
    HOSTILE = saved + [h for h in HOSTILE_ANY if isinstance(h, str)]
    try:
        for data, struct in T.requests():
            before = R.counters.get('normal_responses', 0)
            if kind == 'httprpc':
                path, pairs = data
                process(R, T, b'', 'wsgi', 'valid', repro, path=path, qs=refflat.query_string(pairs))
            else:
                for d in drivers:
                    process(R, T, data, d, 'valid', repro)
            if R.counters.get('normal_responses', 0) - before != (1 if kind == 'httprpc' else len(drivers)):
                # a sweep over a request that is refused as it stands shows nothing
                R.inconclusive.append('any-kinds application (%s/%s): the unmutated request is not served' % (kind, validator))
                continue
            leaf_sweep(R, T, rng, data, struct, repro, 'thorough', drivers)
            R.count('any_kinds_requests')
            if kind not in ('xml', 'soap11', 'soap12', 'httprpc'):
                # values that are not text: numbers of every size, containers, nulls at every leaf
                from checks.c04 import positions, set_path
                (mkey, body), = struct.items() if isinstance(struct, dict) else ((None, struct),)
                n = 0
                for pth in positions(body):
                    if not pth:
                        continue
                    for lit in HOSTILE_ANY:
                        if isinstance(lit, str):
                            continue
                        try:
                            blob = T.codec.dumps({mkey: set_path(body, pth, lit)} if mkey is not None else set_path(body, pth, lit))
                        except Exception:
                            continue
                        process(R, T, blob, drivers[n % len(drivers)], 'sweep:any_value', repro)
                        n += 1
                R.count('any_kinds_value_inputs', n)
                for i, (cls, m) in enumerate(dict_mutants(rng, T.codec, struct, 40 if tier == 'quick' else 300)):
                    process(R, T, m, drivers[i % len(drivers)], cls, repro)
                if kind == 'jsonrpc':
                    # the envelope of the JsonRpc flavour: version, header(s), body, fault
                    import json as _json
                    heads = [5, [5], 'x', [], {}, [{}], None, [None], {'tok': 't'}, [{'tok': 't'}], [{'tok': 't'}, {'m': 2}], [{'tok': 't'}, {'m': -2}], [None, {'m': 2}],
                             [{'tok': 't'}, 5], [[1]], [{'tok': 't'}, {'m': 2}, {'z': 1}], {'tok': 5, 'n': 'x'}, [{'n': 'x'}], True, 1.5, [[]], [{'tok': ['a']}]]
                    envs = [{'ver': 1, 'head': h, 'body': struct} for h in heads]
                    envs += [{'ver': 1, 'fault': f} for f in (5, 'x', {}, [], None, {'faultcode': 'Client.X', 'faultstring': 's'}, {'faultcode': 5}, [1, 2, 3])]
                    envs += [{'ver': 1, 'fault': {'faultcode': 'Client.X'}, 'body': struct}]
                    envs += [{'ver': v, 'body': struct} for v in ('x', 2, 0, -1, None, [], {}, 1.5, True, '1')]
                    envs += [{'body': struct}, {'ver': 1}, {'ver': 1, 'body': None}, {'ver': 1, 'body': 5}, {'ver': 1, 'body': [struct]}, {'ver': 1, 'body': {}},
                             {'ver': 1, 'body': dict(struct, second=1)}, {'ver': 1, 'body': struct, 'extra': 1}, {'ver': 1, 'head': {'tok': 't'}}, [], [1], 'x', 5, None]
                    for i, e in enumerate(envs):
                        process(R, T, _json.dumps(e).encode(), drivers[i % len(drivers)], 'mut:jsonrpc_envelope', repro)
                    R.count('jsonrpc_envelopes', len(envs))
            elif kind != 'httprpc':
                for i, (cls, m) in enumerate(xml_mutants(rng, struct, 40 if tier == 'quick' else 300)):
                    process(R, T, m, drivers[i % len(drivers)], cls, repro)
    finally:
        HOSTILE = saved


def replay(v, R):
    c = v['repro']
    print('replay by re-running the shard: ./vf check C10 (shard %s/%s); input (base64): %s' % (c.get('kind'), c.get('validator'), c.get('input_b64', '')[:200]))
    shard = '%s/%s' % (c['kind'], c['validator']) + ('/out=%s' % c['out'] if c.get('out') else '')
    run({'kind': c['kind'], 'validator': c['validator'], 'out': c.get('out'), 'tier': 'quick', 'seed': c['seed'], 'shard': shard}, R)


def classify(v):
    return v.get('mech')
