"""C08 - primitive text forms are lossless and lie in the XSD lexical space.

Monitors on the real leaf converters (`to_unicode` / `from_unicode` of live
protocol instances):
  P1 printed text is accepted by libxml2 as a literal of the type that spyne
     itself advertises for that (customised) model in the schema it publishes;
  P2 printed text denotes the value (reference XSD parser);
  P3 from_unicode(to_unicode(v)) == v (per-type equality incl. UTC offset);
  P4 every generated XSD literal of a representable value is read as that value.
"""
import datetime
import decimal
import math
import uuid

from vflib import core, lex

PROP = 'C08'
LEVEL = 'exploration'
RULE = ('direct calls of to_unicode/from_unicode on live protocol objects '
        '(ProtocolBase, XmlDocument, Soap11, HttpRpc) for every primitive model and its '
        'customisations; values: exhaustive over the 1681 UTC offsets, all fixed-width bounds +-1, all '
        'microsecond digit-length classes; random elsewhere; literals generated from the XSD grammars. '
        'A case is non-trivial when the converter returned (no skip) and distinct by '
        '(protocol, model configuration, direction, value class).'
        ' Also: zoned xs:time values, spaced base64, multi-chunk binary values; the known-finding matcher for max_str_len covers only literals with \'+\' or redundant leading zeros.')
ASSUMPTIONS = [
    'libxml2 (lxml) is the XML Schema processor of P1; the advertised type is read from the schema spyne publishes for a holder class',
    'reference lexical model vflib/lex.py (self-tested against libxml2 at setup)',
    'values outside the native Python range (year/month durations, years >9999, zoned xs:time/xs:date, >6 significant fraction digits) are outside the quantifier',
]
REQUIRED_COUNTERS = ('print_checked', 'parse_checked', 'roundtrip_checked', 'libxml2_validations')
SHARD_TIMEOUT = {'quick': 900, 'thorough': 3000}


def _models():
    """name -> (factory() -> spyne class, xs builtin of the lexical space, kind)"""
    from spyne.model import primitive as P
    from spyne.model.binary import ByteArray
    import pytz
    m = {}
    for name, xs in (('Integer', 'integer'), ('UnsignedInteger', 'nonNegativeInteger'),
                     ('Integer8', 'byte'), ('Integer16', 'short'), ('Integer32', 'int'), ('Integer64', 'long'),
                     ('UnsignedInteger8', 'unsignedByte'), ('UnsignedInteger16', 'unsignedShort'),
                     ('UnsignedInteger32', 'unsignedInt'), ('UnsignedInteger64', 'unsignedLong')):
        m[name] = (getattr(P, name), xs, 'int')
    m['Decimal'] = (P.Decimal, 'decimal', 'decimal')
    m['Double'] = (P.Double, 'double', 'double')
    m['Boolean'] = (P.Boolean, 'boolean', 'boolean')
    m['Unicode'] = (P.Unicode, 'string', 'text')
    m['AnyUri'] = (P.AnyUri, 'anyURI', 'text')
    m['DateTime'] = (P.DateTime, 'dateTime', 'datetime')
    m['DateTime.as_tz'] = (P.DateTime(as_timezone=pytz.FixedOffset(330)), 'dateTime', 'datetime')
    m['DateTime.as_utc'] = (P.DateTime(as_timezone=pytz.utc), 'dateTime', 'datetime')
    m['DateTime.naive'] = (P.DateTime(timezone=False), 'dateTime', 'datetime')
    m['Date'] = (P.Date, 'date', 'date')
    m['Time'] = (P.Time, 'time', 'time')
    m['Duration'] = (P.Duration, 'duration', 'duration')
    m['Uuid'] = (P.Uuid, 'uuid', 'uuid')
    m['ByteArray.base64'] = (ByteArray(encoding='base64'), 'base64Binary', 'bytes')
    m['ByteArray.hex'] = (ByteArray(encoding='hex'), 'hexBinary', 'bytes')
    m['ByteArray.urlsafe'] = (ByteArray(encoding='urlsafe_base64'), 'string', 'bytes')
    m['ByteArray.default'] = (ByteArray, 'base64Binary', 'bytes')
    # the same types customized once more, the way a member declaration does it: ByteArray(encoding=...)(min_occurs=1)
    m['ByteArray.hex.again'] = (ByteArray(encoding='hex')(min_occurs=1), 'hexBinary', 'bytes')
    m['ByteArray.hex.customized'] = (ByteArray(encoding='hex').customize(nillable=False), 'hexBinary', 'bytes')
    m['ByteArray.urlsafe.again'] = (ByteArray(encoding='urlsafe_base64')(min_occurs=1), 'string', 'bytes')
    m['ByteArray.base64.again'] = (ByteArray(encoding='base64')(max_len=10 ** 6), 'base64Binary', 'bytes')
    m['Date.fmt'] = (P.Date(date_format='%d/%m/%Y'), None, 'date')
    return m


FAMILIES = {
    'int-a': ['Integer', 'UnsignedInteger', 'Integer8', 'Integer16', 'UnsignedInteger8'],
    'int-b': ['Integer32', 'Integer64', 'UnsignedInteger16', 'UnsignedInteger32', 'UnsignedInteger64'],
    'decimal': ['Decimal'], 'double': ['Double'],
    'misc': ['Boolean', 'Unicode', 'AnyUri', 'Uuid', 'Date', 'Date.fmt', 'Time'],
    'datetime': ['DateTime'], 'datetime-cust': ['DateTime.as_tz', 'DateTime.as_utc', 'DateTime.naive'],
    'duration': ['Duration'],
    'bytes': ['ByteArray.base64', 'ByteArray.hex', 'ByteArray.urlsafe', 'ByteArray.default'],
    'bytes-again': ['ByteArray.hex.again', 'ByteArray.hex.customized', 'ByteArray.urlsafe.again', 'ByteArray.base64.again'],
}


def shards(tier, seed):
    n = {'quick': 1, 'thorough': 12}[tier]
    out = []
    for fam in FAMILIES:
        reps = n if fam not in ('misc',) else max(1, n // 3)
        for r in range(reps):
            out.append({'shard': '%s/%d' % (fam, r), 'family': fam, 'rep': r, 'tier': tier, 'seed': seed,
                        'scale': 1 if tier == 'quick' else 6})
    return out


def _protocols():
    from spyne.protocol import ProtocolBase
    from spyne.protocol.xml import XmlDocument
    from spyne.protocol.soap import Soap11
    from spyne.protocol.http import HttpRpc
    return {'ProtocolBase': ProtocolBase(), 'XmlDocument': XmlDocument(), 'Soap11': Soap11(),
            'HttpRpc': HttpRpc()}


_adv_cache = {}


def advertised(name, cls):
    """(XMLSchema, ns, published type local-name) for the type spyne advertises."""
    if name in _adv_cache:
        return _adv_cache[name]
    from spyne.model.complex import ComplexModel
    from spyne.util.xml import get_validation_schema, get_schema_documents
    from lxml import etree
    ns = 'urn:vf:c08:%s' % name.replace('.', '_')
    H = type('Holder', (ComplexModel,), {'__namespace__': ns, '__type_name__': 'Holder',
                                         'l': cls.customize(max_occurs='unbounded') if hasattr(cls, 'customize') else cls})
    try:
        schema = get_validation_schema([H])
        docs = get_schema_documents([H])
        tname = None
        for d in docs.values():
            for e in d.iter('{%s}element' % lex.XS):
                if e.get('name') == 'l':
                    tname = e.get('type')
    except Exception as e:
        _adv_cache[name] = (None, ns, 'ERR %r' % e)
        return _adv_cache[name]
    _adv_cache[name] = (schema, ns, tname)
    return _adv_cache[name]


def adv_accepts(name, cls, text):
    from lxml import etree
    schema, ns, tname = advertised(name, cls)
    if schema is None:
        return None, tname
    if not lex.xml_char_ok(text):
        return None, tname
    r = etree.Element('{%s}Holder' % ns)
    e = etree.SubElement(r, '{%s}l' % ns)
    e.text = text
    return bool(schema.validate(r)), tname


def vclass(kind, v):
    if kind == 'int':
        return ('neg' if v < 0 else 'pos' if v else 'zero', min(v.bit_length() // 8, 12))
    if kind == 'decimal':
        t = v.as_tuple()
        return (t.sign, min(len(t.digits) // 5, 8), max(-7, min(7, (t.exponent if isinstance(t.exponent, int) else 0) // 5)))
    if kind == 'double':
        if math.isnan(v):
            return ('nan',)
        if math.isinf(v):
            return ('inf', v > 0)
        if v == 0:
            return ('zero', math.copysign(1, v))
        return ('fin', v > 0, max(-8, min(8, int(math.log10(abs(v))) // 40)), float(v).is_integer())
    if kind == 'datetime':
        off = v.utcoffset()
        oc = 'naive' if off is None else ('z' if not off else ('neg' if off < datetime.timedelta(0) else 'pos',
                                                                bool((off.total_seconds() // 60) % 60)))
        return (oc, len(('%06d' % v.microsecond).rstrip('0')), v.year < 1000)
    if kind == 'time':
        return (len(('%06d' % v.microsecond).rstrip('0')),)
    if kind == 'date':
        return (v.year < 1000, v.month)
    if kind == 'duration':
        a = abs(v)
        return (v < datetime.timedelta(0), bool(a.days), bool(a.seconds // 3600), bool(a.seconds // 60 % 60),
                bool(a.seconds % 60), len(('%06d' % a.microseconds).rstrip('0')))
    if kind == 'bytes':
        b = lex.tobytes(v)
        return (len(b) % 3, min(len(b) // 10, 5))
    if kind == 'text':
        return (min(len(v) // 5, 6), v.isascii(), v != v.strip(), '\n' in v or '\r' in v or '\t' in v)
    if kind == 'boolean':
        return (v,)
    if kind == 'uuid':
        return (v.int % 7,)
    return ()


def values_for(name, kind, xs, rng, scale):
    n = 60 * scale
    if kind == 'int':
        return sorted(set(v for _, v in lex.gen_int_literals(xs, rng, n)))
    if kind == 'decimal':
        D = decimal.Decimal
        vals = [v for _, v in lex.gen_decimal_literals(rng, n)]
        vals += [D('2.8E+10'), D('1E+2'), D('1E-7'), D('1.5E-10'), D('0E-8'), D('-1E+30'), D('123456789012345678901234567890.0123456789'),
                 D('0.000001'), D('1E+0'), D(10) ** 30, D('1.10')]
        for _ in range(n):
            vals.append(D(rng.randint(-10 ** rng.randint(1, 38), 10 ** rng.randint(1, 38))).scaleb(rng.randint(-30, 30)))
        return vals
    if kind == 'double':
        vals = [v for _, v in lex.gen_double_literals(rng, n)]
        vals += [1e16, 1e-5, 1e22, 1.5e300, 5e-324, 0.1, 1 / 3, 2 ** 53 + 0.0, float(2 ** 63), 1e15, 123456789.123456789]
        for _ in range(n):
            vals.append(rng.choice((rng.uniform(-1, 1), rng.uniform(-1e6, 1e6), rng.uniform(-1, 1) * 10 ** rng.randint(-300, 300),
                                    float(rng.randint(-10 ** 18, 10 ** 18)))))
        return vals
    if kind == 'boolean':
        return [True, False]
    if kind == 'text':
        if xs == 'anyURI':
            return gen_uris(rng, n)
        return lex.gen_text(rng, n)
    if kind == 'datetime':
        vals = []
        # exhaustive: every offset, with a few microsecond classes each
        base = datetime.datetime(2021, 6, 15, 12, 30, 45)
        for off in lex.all_offsets():
            tz = datetime.timezone(datetime.timedelta(minutes=off))
            vals.append(base.replace(tzinfo=tz, microsecond=(0, 5, 120000, 999999)[off % 4]))
        for us in (0, 1, 10, 100, 1000, 10000, 100000, 5, 50, 500, 5000, 50000, 500000, 999999, 123456, 120000, 1200):
            vals.append(base.replace(microsecond=us))
            vals.append(base.replace(microsecond=us, tzinfo=datetime.timezone(datetime.timedelta(minutes=-289))))
        vals += lex.gen_datetime_values(rng, n * 3)
        return vals
    if kind == 'date':
        vals = lex.gen_date_values(rng, n)
        if name.endswith('.fmt'):
            # strftime('%Y') does not zero-pad years < 1000 on glibc: the custom
            # format cannot express them, so they are outside its domain
            vals = [v for v in vals if v.year >= 1000]
        return vals
    if kind == 'time':
        return lex.gen_time_values(rng, n)
    if kind == 'duration':
        return lex.gen_duration_values(rng, n * 3)
    if kind == 'uuid':
        return [uuid.UUID(int=0), uuid.UUID(int=2 ** 128 - 1), uuid.UUID(int=5)] + \
               [uuid.UUID(int=rng.getrandbits(128)) for _ in range(n)]
    if kind == 'bytes':
        out = []
        for b in lex.gen_bytes(rng, n):
            out.append([b])
            if len(b) > 3 and rng.random() < .5:
                k = rng.randint(1, len(b) - 1)
                out.append([b[:k], b[k:]])
        return out
    raise KeyError(kind)


def literals_for(name, kind, xs, rng, scale):
    n = 40 * scale
    if name.endswith('.fmt') or name.startswith('DateTime.'):
        return []
    if kind == 'int':
        return lex.gen_int_literals(xs, rng, n)
    if kind == 'decimal':
        return lex.gen_decimal_literals(rng, n * 3)
    if kind == 'double':
        return lex.gen_double_literals(rng, n * 3)
    if kind == 'boolean':
        return [('true', True), ('false', False), ('1', True), ('0', False)]
    if kind == 'text':
        return [(t, t) for t in (gen_uris(rng, n) if xs == 'anyURI' else lex.gen_text(rng, n))]
    if kind == 'datetime':
        out = lex.gen_datetime_literals(rng, n * 2)
        base = datetime.datetime(2021, 6, 15, 12, 30, 45, 250000)
        for off in lex.all_offsets():   # exhaustive over offsets
            tz = datetime.timezone(datetime.timedelta(minutes=off))
            out.append(('2021-06-15T12:30:45.25' + lex.fmt_offset(off), base.replace(tzinfo=tz)))
        return out
    if kind == 'date':
        return [(v.isoformat() if v.year >= 1000 else '%04d-%02d-%02d' % (v.year, v.month, v.day), v)
                for v in lex.gen_date_values(rng, n)]
    if kind == 'time':
        return lex.gen_time_literals(rng, n)
    if kind == 'duration':
        return lex.gen_duration_literals(rng, n * 3)
    if kind == 'uuid':
        out = []
        for _ in range(n):
            u = uuid.UUID(int=rng.getrandbits(128))
            out += [(str(u), u), (str(u).upper(), u)]
        return out
    if kind == 'bytes':
        import base64
        import binascii
        out = []
        for b in lex.gen_bytes(rng, n):
            if xs == 'base64Binary':
                t = base64.b64encode(b).decode()
                out.append((t, b))
                if len(t) >= 4:
                    # the lexical space of xs:base64Binary allows one space between any two characters
                    out.append((' '.join(t[i:i + 4] for i in range(0, len(t), 4)), b))
                    out.append((' '.join(t[i:i + 76] for i in range(0, len(t), 76)) if len(t) > 76 else t[:2] + ' ' + t[2:], b))
                    out.append((' '.join(t), b))
            elif xs == 'hexBinary':
                h = binascii.hexlify(b).decode()
                out += [(h, b), (h.upper(), b)]
            else:
                out.append((base64.urlsafe_b64encode(b).decode(), b))
        return out
    return []


def eqkind(kind, xs):
    return {'int': 'integer', 'decimal': 'decimal', 'double': 'double', 'boolean': 'boolean', 'text': 'string',
            'datetime': 'dateTime', 'date': 'date', 'time': 'time', 'duration': 'duration', 'uuid': 'uuid',
            'bytes': 'bytes'}[kind]


def expected_after_roundtrip(name, v):
    """What the customisation documents for a print+parse round trip."""
    import pytz
    if name == 'DateTime.as_tz' and v.tzinfo is not None:
        return v.astimezone(pytz.FixedOffset(330))
    if name == 'DateTime.as_utc' and v.tzinfo is not None:
        return v.astimezone(pytz.utc)
    return v


def in_domain(name, pname, kind, v):
    if name == 'DateTime.naive' and v.tzinfo is not None:
        return False          # documented as "drop the zone": only naive values are lossless
    if name in ('DateTime.as_tz', 'DateTime.as_utc'):
        if v.tzinfo is None:
            return False      # naive values get the zone attached on read: documented, not a round trip
        if pname == 'Soap11':
            return False      # Soap11 documents plain ISO output; customisation not honoured there by design
        try:
            expected_after_roundtrip(name, v)
        except (OverflowError, ValueError):
            return False
    if pname == 'Soap11' and name == 'DateTime.naive':
        return v.tzinfo is None
    return True


def one_print(res, pname, prot, name, cls, xs, kind, v, spec):
    from spyne.error import ValidationError
    enc_args = ()
    if kind == 'bytes':
        enc_args = (prot.binary_encoding,)
        if name == 'ByteArray.default' and prot.binary_encoding != 'base64':
            res.skip('default byte encoding of this protocol is not base64')
            return
    res.evaluations += 1
    repro = {'dir': 'print', 'protocol': pname, 'model': name, 'value': repr(v)}
    try:
        text = prot.to_unicode(cls, v, *enc_args)
    except Exception as e:
        res.violation('to_unicode raised %s for a value the model admits' % type(e).__name__, repro,
                      mech=mech_of('print_crash', name, kind, v, None, None, exc=e, pname=pname), exc=repr(e)[:200])
        return
    repro['text'] = text
    if not isinstance(text, str):
        res.violation('to_unicode returned %s, not text' % type(text).__name__, repro,
                      mech=mech_of('print_not_text', name, kind, v, text, None, pname=pname))
        return
    res.count('print_checked')
    ek = eqkind(kind, xs)
    # P1: advertised type accepts
    if xs is not None:
        ok, tname = adv_accepts(name, cls, text)
        res.count('libxml2_validations')
        own = lex.recognise(xs, text)
        if ok is False:
            res.violation('printed text %r rejected by libxml2 as literal of advertised type %s' % (text, tname),
                          repro, mech=mech_of('print_not_lexical', name, kind, v, text, None, pname=pname))
        elif ok is True and not own:
            res.count('own_recogniser_stricter_than_libxml2')
        # P2: denotes the value
        if ok and own and not (kind == 'bytes' and xs == 'string'):
            try:
                den = lex.parse(xs, text)
            except ValueError:
                den = lex.NotRepresentable
            exp = expected_after_roundtrip(name, v)
            if den is lex.NotRepresentable or not lex.equal(ek, exp, den):
                if not (name == 'DateTime.naive'):
                    res.violation('printed text %r denotes %r, not %r' % (text, den, exp), repro,
                                  mech=mech_of('print_denotes_other', name, kind, v, text, den, pname=pname))
    # P3: round trip
    try:
        back = prot.from_unicode(cls, text, *enc_args)
    except Exception as e:
        res.violation('from_unicode(to_unicode(v)) raised %s' % type(e).__name__, repro, exc=repr(e)[:200],
                      mech=mech_of('roundtrip_crash', name, kind, v, text, None, exc=e, pname=pname))
        return
    res.count('roundtrip_checked')
    exp = expected_after_roundtrip(name, v)
    if not lex.equal(ek, exp, back):
        res.violation('round trip changed the value: %r -> %r -> %r' % (v, text, back), repro, back=repr(back),
                      mech=mech_of('roundtrip_changed', name, kind, v, text, back, pname=pname))
    else:
        res.nontrivial(pname, name, 'print', vclass(kind, v))
        res.cell('%s|%s|print' % (pname, name))
        if len(res.samples) < 3:
            res.sample({'protocol': pname, 'model': name, 'value': repr(v), 'text': text, 'back': repr(back)})


def one_parse(res, pname, prot, name, cls, xs, kind, lit, val, spec):
    from spyne.error import ValidationError
    enc_args = ()
    if kind == 'bytes':
        enc_args = (prot.binary_encoding,)
        if name == 'ByteArray.default' and prot.binary_encoding != 'base64':
            return
    if pname == 'HttpRpc' and kind == 'text' and lit == '':
        pass
    res.evaluations += 1
    repro = {'dir': 'parse', 'protocol': pname, 'model': name, 'literal': lit, 'denotes': repr(val)}
    try:
        got = prot.from_unicode(cls, lit, *enc_args)
    except ValidationError as e:
        res.violation('valid xs:%s literal %r (= %r) rejected' % (xs, lit, val), repro,
                      mech=mech_of('parse_rejected', name, kind, val, lit, None, exc=e, pname=pname))
        return
    except Exception as e:
        res.violation('from_unicode raised %s on valid literal %r' % (type(e).__name__, lit), repro, exc=repr(e)[:200],
                      mech=mech_of('parse_crash', name, kind, val, lit, None, exc=e, pname=pname))
        return
    res.count('parse_checked')
    ek = eqkind(kind, xs)
    if not lex.equal(ek, val, got):
        res.violation('literal %r read as %r, denotes %r' % (lit, got, val), repro, got=repr(got),
                      mech=mech_of('parse_wrong', name, kind, val, lit, got, pname=pname))
    else:
        res.nontrivial(pname, name, 'parse', vclass(kind, val), lit[:1] in '+-.', lit[-1:] in 'Z.')
        res.cell('%s|%s|parse' % (pname, name))
        if len(res.samples) < 6 and len(res.samples) >= 3:
            res.sample({'protocol': pname, 'model': name, 'literal': lit, 'read_as': repr(got)})


def mech_of(what, name, kind, v, text, got, exc=None, pname=None):
    """Mechanism key of a violation: shape of the failure, never the sampled
    value. Known-finding matchers are these keys."""
    base = name.split('.')[0]
    try:
        if kind == 'int' and what in ('parse_rejected', 'roundtrip_crash') and isinstance(exc, Exception) \
                and type(exc).__name__ == 'ValidationError' and xs_bits(name) and text is not None:
            digits = len(str(2 ** xs_bits(name)))
            canonical = text == str(int(text))
            if not canonical and len(text) > digits - 1 and len(text.lstrip('+-').lstrip('0') or '0') <= digits:
                # a literal with an explicit '+' or redundant leading zeros, longer than the canonical literals of the type can be
                # (the canonical ones - what spyne itself writes, '-128' included - are not part of this finding)
                return 'bounded_int_max_str_len_counts_sign_and_zeros'
        if pname == 'Soap11' and name == 'Date.fmt' and what == 'roundtrip_crash' and type(exc).__name__ == 'ValidationError':
            return 'soap11_date_format_print_not_iso'
        if kind in ('time', 'datetime') and what in ('parse_crash', 'parse_rejected') and '24:00:00' in (text or '') \
                and type(exc).__name__ in ('ValueError', 'ValidationError'):
            return 'xsd_24_00_00_not_read'
        if name.startswith('ByteArray.hex') and what in ('parse_crash', 'roundtrip_crash') and type(exc).__name__ == 'TypeError':
            return 'hex_from_text_typeerror'
        if kind == 'datetime' and what in ('parse_wrong', 'roundtrip_changed') and isinstance(got, datetime.datetime) \
                and got.tzinfo is not None and v.tzinfo is not None:
            eo = v.utcoffset().total_seconds() / 60
            go = got.utcoffset().total_seconds() / 60
            if eo < 0 and (abs(eo) % 60) and go == eo + 2 * (abs(eo) % 60):
                return 'dt_neg_offset_minutes'
        if kind == 'duration' and what in ('print_denotes_other', 'roundtrip_changed') and abs(v).microseconds \
                and abs(v).microseconds < 100000:
            return 'duration_us_print_unpadded'
        if kind == 'duration' and what in ('parse_wrong', 'roundtrip_changed') and isinstance(got, datetime.timedelta) \
                and abs(abs(got) - abs(v)) <= datetime.timedelta(microseconds=1) and (got < datetime.timedelta(0)) == (v < datetime.timedelta(0)):
            return 'duration_us_parse_truncation'
        if kind == 'decimal' and what == 'print_not_lexical' and 'E' in (text or ''):
            return 'decimal_exponent_print'
        if kind == 'double' and what == 'print_not_lexical' and (text or '').lower().strip('+-') in ('inf', 'nan'):
            return 'double_inf_nan_print'
    except Exception:
        pass
    return '%s:%s%s' % (what, base if not name.startswith('ByteArray') else name,
                        ':' + type(exc).__name__ if exc is not None else '')


def xs_bits(name):
    for b in (8, 16, 32, 64):
        if name.endswith('Integer%d' % b):
            return b
    return 0


def gen_uris(rng, n):
    out = ['http://example.com/', 'urn:a:b', 'https://h:8080/p/a%20b?q=1&r=%C3%A9#frag', 'mailto:x@y.z', '/rel/path', 'a',
           '', 'file:///etc/passwd', 'http://[::1]/', 'tel:+1-201-555-0123', 'http://xn--e1afmkfd.xn--p1ai/']
    for _ in range(n):
        out.append('%s://%s.example/%s?%s=%d' % (rng.choice(('http', 'https', 'ftp', 'x-y')),
                                                  ''.join(rng.choice('abcdefgh') for _ in range(rng.randint(1, 8))),
                                                  '/'.join(''.join(rng.choice('abc-_.~%20') for _ in range(rng.randint(0, 6))).replace('%', '%25') for _ in range(rng.randint(0, 3))),
                                                  rng.choice('abc'), rng.randint(0, 10 ** 6)))
    return out


def run(spec, res):
    rng = core.rng_for(spec['seed'], PROP, spec['shard'])
    models = _models()
    prots = _protocols()
    for name in FAMILIES[spec['family']]:
        cls, xs, kind = models[name]
        vals = values_for(name, kind, xs, rng, spec['scale'])
        lits = literals_for(name, kind, xs, rng, spec['scale'])
        for pname, prot in prots.items():
            for v in vals:
                if not in_domain(name, pname, kind, v):
                    res.skip('outside documented domain of customisation')
                    continue
                one_print(res, pname, prot, name, cls, xs, kind, v, spec)
            for lit, val in lits:
                if pname == 'HttpRpc' and kind == 'bytes':
                    continue
                one_parse(res, pname, prot, name, cls, xs, kind, lit, val, spec)
    res.counters['exhaustive_offsets'] = 1681 if spec['family'] == 'datetime' else 0


def replay(v, res):
    """Re-execute one recorded case (value/literal are re-evaluated from repr)."""
    r = v.get('repro') or {}
    models = _models()
    prots = _protocols()
    name, pname = r.get('model'), r.get('protocol')
    cls, xs, kind = models[name]
    env = {'datetime': datetime, 'Decimal': decimal.Decimal, 'UUID': uuid.UUID, 'inf': float('inf'),
           'nan': float('nan')}
    if r.get('dir') == 'print':
        val = eval(r['value'], env)
        one_print(res, pname, prots[pname], name, cls, xs, kind, val, {})
    else:
        val = eval(r['denotes'], env)
        one_parse(res, pname, prots[pname], name, cls, xs, kind, r['literal'], val, {})


def classify(v):
    return v.get('mech')
