"""C18 - calling a method through NullServer behaves like calling it over the wire.

Differential monitor: the same generated function (it returns a value fixed by
the harness, or raises) is invoked through NullServer positionally and by
keyword, and through XmlDocument, Soap11 and JsonDocument with the reference
codecs on the other side; native results, received arguments and raised faults
are compared with the per-type equality.
"""
import json

from vflib import core, drive, gen, refdict, refxml
from vflib import miniapp as M
from checks import c01

PROP = 'C18'
LEVEL = 'exploration'
RULE = ('random signatures over body styles {wrapped, out_bare, empty, bare with a complex argument passed field-wise}, 0..n arguments, '
        'none/one/many return values, generator results, raised faults, Ignored(...) returns; each call made through NullServer '
        '(positional and keyword) and through XmlDocument, Soap11, JsonDocument; non-trivial = both sides produced a result or both a '
        'fault; distinct by (style, wire protocol, argument/return shapes, outcome kind).'
        ' Also: held callables, alternating call order, nulls left out, mixed positional/keyword calls (bare methods member by member), declared defaults with falsy values (random and one fixed universe), public names differing from attribute names.'
        ' A fixed application of generator methods (Iterable/Array of Integer, Unicode, objects; nulls as first/middle/last item; empty; failing after k items) '
        'through NullServer, ServerBase and WsgiApplication over xml, soap11, json, yaml, msgpack.')
ASSUMPTIONS = [
    'the wire side is decoded by the reference codecs (vflib/refxml.py, vflib/refdict.py)',
    'JSON comparisons skip universes with XML-only members; text restricted to XML Char on all paths so that the same values run everywhere',
]
REQUIRED_COUNTERS = ('nullserver_calls', 'wire_calls', 'results_compared', 'faults_compared', 'ignored_cases')
SHARD_TIMEOUT = {'quick': 900, 'thorough': 3000}


def shards(tier, seed):
    n = 16 if tier == 'quick' else 48
    per = 3 if tier == 'quick' else 10
    return [{'shard': 'u%d' % i, 'tier': tier, 'seed': seed, 'first': i * per, 'count': per} for i in range(n)] + \
           [{'shard': 'generators', 'scenario': 'generators', 'tier': tier, 'seed': seed}]


DEFAULTS_UNIVERSE = 9501


def defaults_universe():
    """bare, wrapped and out-bare methods over a class (and a subclass of it) whose members declare defaults of every falsy-able kind"""
    ns = 'urn:vf:c18d'
    P = lambda k, **f: {'prim': k, 'facets': f}
    types = [{'name': 'Def', 'ns': ns, 'base': None, 'has_xmldata': False,
              'fields': [['i', P('Integer', default=3)], ['s', P('Unicode', default='none')], ['b', P('Boolean', default=True)],
                         ['plain', P('Integer')], ['j', dict(P('Integer', default=7), py='py_j')]]},
             {'name': 'DefSub', 'ns': ns, 'base': 'Def', 'has_xmldata': False, 'fields': [['t', P('Unicode', default='sub')]]}]
    M_ = lambda name, style, args, rets: {'name': name, 'args': args, 'returns': rets, 'style': style}
    return {'uid': DEFAULTS_UNIVERSE, 'tns': ns, 'types': types, 'services': [{'name': 'S', 'methods': [
        M_('bd', 'bare', [['arg', {'ref': 'Def'}]], [{'ref': 'Def'}]),
        M_('bs', 'bare', [['arg', {'ref': 'DefSub'}]], [P('Unicode')]),
        M_('wd', 'wrapped', [['d', {'ref': 'Def'}], ['i', P('Integer', default=3)], ['s', P('Unicode', default='none')], ['b', P('Boolean', default=True)]],
           [P('Integer')]),
        M_('od', 'out_bare', [['d', {'ref': 'DefSub'}], ['b', P('Boolean', default=True)]], [{'ref': 'Def'}])]}]}


def universe(seed, uid):
    if uid == DEFAULTS_UNIVERSE:
        return defaults_universe()
    rng = core.rng_for(seed, PROP, 'uni%d' % uid)
    o = gen.Opts(sub_names=True, attrs=False, nested_arrays=0.0, max_types=4, styles=('wrapped', 'wrapped', 'wrapped', 'bare', 'out_bare', 'out_bare', 'empty', 'empty'), memberless_subclasses=True,
                 defaults=(uid % 2 == 1), null_items=True)
    ir = gen.rand_universe(rng, o, uid=uid)

    def strip(t):
        (t.get('facets') or {}).pop('default', None)
        for k in ('array', 'seq'):
            if k in t:
                strip(t[k])
    # a default is kept where "this member carries a value" is something both a direct caller and a client can say: on plain
    # members and arguments. What the default of a repeated member or of a return value means is a matter of the wire (C01).
    for td in ir['types']:
        for fn, ft in td['fields']:
            if 'seq' in ft or 'array' in ft:
                strip(ft)
    for sd in ir['services']:
        for md in sd['methods']:
            for rt in md['returns']:
                strip(rt)
            for an, at in md['args']:
                if 'seq' in at or 'array' in at:
                    strip(at)
    return ir


def fill_defaulted(ir, t, v, rng, top=True):
    """In universes with declared defaults a member that has one always carries a value (what an absent member means differs by
    design: the wire applies the default, a direct caller passes None), and often a falsy one - 0, '', False - where the
    declaration allows it."""
    if isinstance(v, list):
        inner = t.get('array') or t.get('seq')
        return [fill_defaulted(ir, inner, x, rng, False) for x in v] if inner else v
    if 'ref' in t and isinstance(v, dict):
        out = dict(v)
        for fn, ft in gen.all_fields(ir, v.get('__class__', t['ref'])):
            out[fn] = fill_defaulted(ir, ft, v.get(fn), rng, False)
        return out
    f = (t.get('facets') or {}) if 'prim' in t else {}
    if 'default' in f:
        falsy = {'Integer': 0, 'Unicode': '', 'Boolean': False}.get(t['prim'])
        ok = falsy is not None
        if t['prim'] == 'Integer':
            ok = f.get('ge', 0) <= 0 <= f.get('le', 0) and f.get('gt', -1) < 0 < f.get('lt', 1)
        if t['prim'] == 'Unicode':
            ok = f.get('min_len', 0) == 0 and 'pattern' not in f and 'values' not in f
        if v is None or rng.random() < .4:
            return falsy if ok else (v if v is not None else f['default'])
    return v


def null_call(B, server, md, args, mode):
    """-> ('ok', native result) | ('fault', code, string) | ('exc', repr)"""
    from spyne import Fault
    ir = B.ir
    # one callable per method is looked up once and kept: a caller may hold on to `server.service.m` and use it many times
    held = server.__dict__.setdefault('_vf_held', {})
    call = held.get(md['name'])
    if call is None:
        call = held[md['name']] = getattr(server.service, md['name'])
    if md['style'] == 'bare':
        (an, at), = md['args']
        fields = gen.all_fields(ir, at['ref'])
        # (keyword arguments are Python names: a member whose public name differs is passed under its attribute name)
        vals = [(ft.get('py', fn), B.to_spyne(ft, (args[0] or {}).get(fn))) for fn, ft in fields]
    else:
        vals = [(an, B.to_spyne(at, v)) for (an, at), v in zip(md['args'], args)]
    B.calls[:] = []
    try:
        if mode == 'positional':
            res = call(*[v for _, v in vals])
        elif mode.startswith('mixed'):
            k = int(mode[5:])
            res = call(*[v for _, v in vals[:k]], **{n: v for n, v in vals[k:]})
        elif mode == 'keyword-omit':
            res = call(**{k: v for k, v in vals if v is not None})       # an argument left out is a null argument
        else:
            res = call(**{k: v for k, v in vals})
    except Fault as f:
        return ('fault', f.faultcode, f.faultstring)
    except Exception as e:
        return ('exc', '%s: %s' % (type(e).__name__, str(e)[:150]), drive.innermost_spyne_frame(e))
    return ('ok', res)


def result_trees(B, md, res):
    """native NullServer result -> list of value trees, one per declared return"""
    import types
    rets = md['returns']
    if not rets:
        return []
    if len(rets) == 1:
        seq = [res]
    else:
        seq = list(res) if res is not None else [None] * len(rets)
        if len(seq) != len(rets):
            raise ValueError('%d values for %d declared return values' % (len(seq), len(rets)))
    out = []
    for t, o in zip(rets, seq):
        if isinstance(o, types.GeneratorType):
            o = list(o)
        out.append(B.from_spyne(t, o))
    return out


def received_args(B, md):
    if not B.calls:
        return None
    got = B.calls[0][1]
    return [B.from_spyne(t, o) for (_, t), o in zip(md['args'], got)]


def wire_call(kind, C, md, args):
    """-> ('ok', [value trees]) | ('fault', code, string) | ('skip', why) | ('exc', ...)"""
    B = C['B']
    B.calls[:] = []
    try:
        if kind == 'json':
            codec = C['codec']
            data = codec.dumps(codec.request(md, args))
        else:
            W = C['ctx'].W
            el = W.request_element(md, args)
            data = W.serialize(el if kind == 'xml' else W.envelope(el, 11))
    except (refxml.NotConformant, refxml.SchemaMismatch, refdict.NotConformant, TypeError, ValueError) as e:
        return ('skip', 'request not expressible: %s' % type(e).__name__)
    r = drive.drive_server(C['server'], data)
    if r.exc is not None:
        return ('exc', '%s: %s' % (type(r.exc).__name__, str(r.exc)[:150]), drive.innermost_spyne_frame(r.exc))
    if r.error is not None:
        return ('fault', r.error.faultcode, r.error.faultstring)
    try:
        if kind == 'json':
            dec = C['codec'].response(md, C['codec'].loads(r.out))
        else:
            W = C['ctx'].W
            if kind == 'xml':
                el = refxml.etree.fromstring(r.out)
            else:
                h, kids = W.open_envelope(r.out, 11)
                el = kids[0]
            dec = W.decode_response_element(md, el)
    except refxml.SchemaMismatch as e:
        return ('skip', 'schema does not match IR')
    except Exception as e:
        return ('undecodable', '%s: %s' % (type(e).__name__, str(e)[:150]))
    return ('ok', dec)


def xml_only(ir):
    return any('attr' in ft or 'xmldata' in ft for t in ir['types'] for _, ft in t['fields'])


def run_universe(R, seed, uid, tier):
    from spyne import Application, Fault
    from spyne.server.null import NullServer
    from spyne.server import ServerBase
    from spyne.model._base import Ignored
    ir = universe(seed, uid)
    rng = core.rng_for(seed, PROP, 'vals%d' % uid)
    try:
        Bn = gen.Built(ir)
        napp = Bn.app(None, None, name='Null%d' % uid)
        null = NullServer(napp)
    except Exception as e:
        R.skip('universe rejected at construction: %s' % type(e).__name__)
        return
    wires = {}
    for kind in ('xml', 'soap11', 'json'):
        try:
            if kind == 'json':
                from spyne.protocol.json import JsonDocument
                B = gen.Built(ir)
                app = B.app(JsonDocument(), JsonDocument())
                wires[kind] = {'B': B, 'server': ServerBase(app), 'codec': refdict.Codec(ir, refdict.Conf('json', True, 'dict', False))}
            else:
                ctx = c01.Ctx(ir, kind, None, rng)
                wires[kind] = {'B': ctx.B, 'server': ctx.server, 'ctx': ctx}
        except Exception as e:
            R.skip('%s wire application not constructible: %s' % (kind, type(e).__name__))
    ncalls = 3 if tier == 'quick' else 6
    for sd in ir['services']:
        for md in sd['methods']:
            for k in range(ncalls):
                args = [gen.gen_value(rng, ir, t, top=(md['style'] == 'bare')) for _, t in md['args']]
                rets = [gen.gen_value(rng, ir, t, top=(md['style'] != 'wrapped')) for t in md['returns']]
                if uid % 2 == 1:
                    args = [fill_defaulted(ir, t, v, rng) for (_, t), v in zip(md['args'], args)]
                    rets = [fill_defaulted(ir, t, v, rng) for t, v in zip(md['returns'], rets)]
                    R.count('calls_in_universes_with_defaults')
                outcome = rng.choice(('ok', 'ok', 'ok', 'fault', 'ignored', 'generator'))
                if outcome == 'ok' and len(md['returns']) > 1 and rng.random() < .3:
                    # several return values declared, and the function has nothing to say: a bare None stands for a null each
                    outcome = 'nothing'
                    rets = [None] * len(md['returns'])
                repro = {'seed': seed, 'uid': uid, 'method': md['name'], 'call': k, 'outcome': outcome, 'style': md['style']}
                builds = [Bn] + [w['B'] for w in wires.values()]
                for B in builds:
                    B.raises.pop(md['name'], None)
                    sp = [B.to_spyne(t, v) for t, v in zip(md['returns'], rets)]
                    val = sp[0] if len(sp) == 1 else (tuple(sp) if sp else None)
                    if outcome == 'nothing':
                        val = None
                    if outcome == 'fault':
                        B.raises[md['name']] = Fault('Client.Generated.%d' % k, 'raised %d' % k)
                    elif outcome == 'ignored':
                        if not sp:
                            val = Ignored('nothing', n=k)          # a method without return values may still hand back Ignored
                        else:
                            val = Ignored(val) if val is not None and len(sp) == 1 else val
                    elif outcome == 'generator' and len(sp) == 1 and isinstance(sp[0], list) and ('array' in md['returns'][0] or 'seq' in md['returns'][0]):
                        val = (lambda items: (x for x in items))(sp[0])
                    B.returns[md['name']] = val
                is_ignored = outcome == 'ignored' and (not rets or (len(rets) == 1 and rets[0] is not None))
                one_case(R, ir, Bn, null, wires, md, args, rets, outcome, is_ignored, repro, rng)


def one_case(R, ir, Bn, null, wires, md, args, rets, outcome, is_ignored, repro, rng):
    from spyne.model._base import Ignored
    R.evaluations += 1
    # the two invocation styles alternate in who goes first: the callable is held across cases, so a keyword call that passes
    # nulls directly follows a call (of the previous case) that passed other values in the same slots
    first, second = ('positional', 'keyword') if repro.get('call', 0) % 2 == 0 else ('keyword', 'positional')
    n_1 = null_call(Bn, null, md, args, first)
    a_1 = received_args(Bn, md)
    # regenerate one-shot results (generators) for the second call
    if outcome == 'generator':
        v = Bn.returns.get(md['name'])
        import types
        if isinstance(v, types.GeneratorType):
            sp = [Bn.to_spyne(t, x) for t, x in zip(md['returns'], rets)]
            Bn.returns[md['name']] = (lambda items: (x for x in items))(sp[0])
    n_2 = null_call(Bn, null, md, args, second)
    a_2 = received_args(Bn, md)
    (n_pos, a_pos, n_kw, a_kw) = (n_1, a_1, n_2, a_2) if first == 'positional' else (n_2, a_2, n_1, a_1)
    R.count('nullserver_calls', 2)
    if any(a is None for a in args) and outcome in ('ok', 'fault'):
        n_om = null_call(Bn, null, md, args, 'keyword-omit')
        a_om = received_args(Bn, md)
        R.count('nullserver_calls')
        if n_om[0] != n_pos[0]:
            R.violation('positional call ended as %s, keyword call without the null arguments as %s' % (n_pos[0], n_om[:2]), repro, mech='positional_vs_keyword_outcome')
            return
        if md['style'] != 'bare' and a_pos is not None and a_om is not None:
            for (an, at), x, y in zip(md['args'], a_pos, a_om):
                d = []
                if not gen.veq(ir, at, x, y, an, d):
                    R.violation('argument %s differs between the positional call and the keyword call that leaves null arguments out: %s' % (an, d[:2]), repro,
                                mech='positional_vs_keyword_args')
    if n_pos[0] == 'exc':
        R.violation('NullServer call raised %s' % n_pos[1], repro, mech='nullserver_escape:%s:%s' % (n_pos[1].split(':')[0], n_pos[2]))
        return
    # positional == keyword
    if n_pos[0] != n_kw[0]:
        R.violation('positional call ended as %s, keyword call as %s' % (n_pos[0], n_kw[:2]), repro, mech='positional_vs_keyword_outcome')
        return
    if a_pos is not None and a_kw is not None:
        for (an, at), x, y in zip(md['args'], a_pos, a_kw):
            d = []
            if not gen.veq(ir, at, x, y, an, d):
                R.violation('argument %s differs between positional and keyword NullServer call: %s' % (an, d[:2]), repro,
                            mech='positional_vs_keyword_args' + (':bare' if md['style'] == 'bare' else ''))
    # the first k arguments by position, the rest by keyword
    nvals = len(gen.all_fields(ir, md['args'][0][1]['ref'])) if md['style'] == 'bare' else len(md['args'])
    if nvals >= 2 and outcome in ('ok', 'fault'):
        k = rng.randint(1, nvals - 1)
        n_mx = null_call(Bn, null, md, args, 'mixed%d' % k)
        a_mx = received_args(Bn, md)
        R.count('nullserver_calls')
        R.count('mixed_calls')
        if n_mx[0] != n_pos[0]:
            R.violation('positional call ended as %s, the call passing %d arguments by position and the rest by keyword as %s' % (
                n_pos[0], k, n_mx[:2]), repro, mech='positional_vs_mixed_outcome')
            return
        if a_pos is not None and a_mx is not None:
            for (an, at), x, y in zip(md['args'], a_pos, a_mx):
                d = []
                if not gen.veq(ir, at, x, y, an, d):
                    R.violation('argument %s differs between the positional call and the one passing %d arguments by position and the rest by '
                                'keyword: %s' % (an, k, d[:2]), repro, mech='positional_vs_mixed_args' + (':bare' if md['style'] == 'bare' else ''))
    if n_pos[0] == 'ok':
        res = n_pos[1]
        if is_ignored:
            R.count('ignored_cases')
            if not isinstance(res, Ignored):
                R.violation('Ignored(...) return not delivered to the direct caller: got %r' % (type(res).__name__,), repro, mech='ignored_not_delivered')
                return
            null_trees = None
        else:
            try:
                null_trees = result_trees(Bn, md, res)
            except Exception as e:
                R.violation('NullServer result of unexpected shape: %r (%s)' % (res, e), repro, mech='nullserver_result_shape')
                return
            for i, (t, want, got) in enumerate(zip(md['returns'], rets, null_trees)):
                d = []
                if not gen.veq(ir, t, want, got, 'ret%d' % i, d):
                    R.violation('NullServer returned a different value than the function: %s' % '; '.join(d)[:300], repro, mech='nullserver_result_differs:%s' % md['style'])
    # the wire paths
    for kind, C in wires.items():
        if kind == 'json' and xml_only(ir):
            continue
        w = wire_call(kind, C, md, args)
        R.count('wire_calls')
        case = dict(repro, wire=kind)
        if w[0] == 'skip':
            R.skip(w[1])
            continue
        if w[0] == 'exc':
            R.skip('wire path raised (C01/C10 matter): %s' % w[1][:60])
            continue
        if w[0] == 'undecodable':
            R.skip('wire response not decodable (C01/C02 matter): %s' % w[1][:60])
            continue
        if (w[0] == 'fault') != (n_pos[0] == 'fault'):
            R.violation('NullServer call ended as %s, %s wire call as %s %r' % (n_pos[0], kind, w[0], w[1:3] if w[0] == 'fault' else ''), case,
                        mech='outcome_differs:%s:%s' % (kind, 'wire_fault' if w[0] == 'fault' else 'null_fault'))
            continue
        if w[0] == 'fault':
            R.count('faults_compared')
            if (n_pos[1], n_pos[2]) != (w[1], w[2]):
                R.violation('NullServer raised (%r, %r), the %s wire fault is (%r, %r)' % (n_pos[1], n_pos[2], kind, w[1], w[2]), case, mech='fault_differs:%s' % kind)
            else:
                R.nontrivial(md['style'], kind, 'fault')
            continue
        # arguments as seen by the function on both paths
        wa = received_args(C['B'], md)
        if a_pos is not None and wa is not None:
            for (an, at), x, y in zip(md['args'], a_pos, wa):
                d = []
                if not gen.veq(ir, at, x, y, an, d):
                    R.violation('function received a different %s through NullServer than through %s: %s' % (an, kind, '; '.join(d)[:200]), case,
                                mech='args_differ:%s:%s' % (kind, md['style']))
        R.count('results_compared')
        if is_ignored:
            def empty(x, t=None):
                # nothing, or the response element present without content (decoded: an object none of whose members is set -
                # a member that declares a default reads as that default when it is absent)
                if isinstance(x, dict):
                    ft = dict(gen.all_fields(ir, x.get('__class__', (t or {}).get('ref')))) if (x.get('__class__') or (t or {}).get('ref')) else {}
                    return all(empty(v, ft.get(k)) for k, v in x.items() if k != '__class__')
                if t is not None and 'prim' in t and 'default' in (t.get('facets') or {}) and x == t['facets']['default']:
                    return True
                return x is None or x == []
            if not all(empty(x, t) for x, t in zip(w[1], md['returns'])):
                R.violation('Ignored(...) return was sent over %s as %r' % (kind, w[1]), case, mech='ignored_sent_on_wire:%s' % kind)
            else:
                R.nontrivial(md['style'], kind, 'ignored')
            continue
        ok = True
        for i, (t, a, b) in enumerate(zip(md['returns'], null_trees, w[1])):
            d = []
            if not gen.veq(ir, t, a, b, 'ret%d' % i, d):
                ok = False
                R.violation('NullServer result differs from the %s wire result: %s' % (kind, '; '.join(d)[:300]), case,
                            mech='result_differs:%s:%s:%s' % (kind, md['style'], gen.shape(t)[:24]))
        if ok:
            R.nontrivial(md['style'], kind, outcome, tuple(gen.shape(t) for _, t in md['args']), tuple(gen.shape(t) for t in md['returns']),
                         tuple(gen.vclass(a) for a in args))
            R.cell('%s|%s' % (md['style'], kind))
            if len(R.samples) < 3 and rets and rets[0] is not None:
                R.sample({'method': md, 'wire': kind, 'outcome': outcome, 'nullserver_result': repr(n_pos[1])[:200], 'wire_result': repr(w[1])[:200]})


GEN_KINDS = ('xml', 'soap11', 'json', 'yaml', 'msgpack')


def _gen_app(kind):
    from spyne import Application, Service, rpc, Integer, Unicode, ComplexModel, Iterable, Array, Fault

    class GItem(ComplexModel):
        __namespace__ = M.TNS
        a = Integer
        s = Unicode

    def produce(items, fail_after, conv):
        # (the request spells the list as text, 'n' for a null item, so that every protocol's request carries the same thing)
        items = [None if x == 'n' else int(x) for x in items.split(',') if x != 'e']
        for i, x in enumerate(items):
            if fail_after is not None and i == fail_after:
                raise Fault('Client.Gen.%d' % i, 'failed before item %d' % i)
            yield conv(x)
        if fail_after is not None and fail_after >= len(items):
            raise Fault('Client.Gen.end', 'failed at the end')


    def item(x):
        return None if x is None else GItem(a=x, s='s%d' % x)

    class GenSvc(Service):
        @rpc(Unicode, Integer, _returns=Iterable(Integer))
        def gen_int(ctx, items, fail_after):
            return produce(items, fail_after, lambda x: x)

        @rpc(Unicode, Integer, _returns=Array(Integer))
        def gen_arr(ctx, items, fail_after):
            return produce(items, fail_after, lambda x: x)

        @rpc(Unicode, Integer, _returns=Iterable(Unicode))
        def gen_text(ctx, items, fail_after):
            return produce(items, fail_after, lambda x: None if x is None else 't%d' % x)

        @rpc(Unicode, Integer, _returns=Iterable(GItem))
        def gen_obj(ctx, items, fail_after):
            return produce(items, fail_after, item)

        @rpc(Unicode, Integer, _returns=Array(Integer))
        def plain_list(ctx, items, fail_after):
            return list(produce(items, fail_after, lambda x: x))

    if kind is None:
        return Application([GenSvc], M.TNS, name='GenApp')
    inp, outp = M.make_protocols(kind, None)
    return Application([GenSvc], M.TNS, name='GenApp', in_protocol=inp, out_protocol=outp)


def _gen_native(method, o):
    """one produced item -> comparable tree"""
    if o is None:
        return None
    if method == 'gen_obj':
        return {'a': o.a, 's': o.s}
    return o


def _gen_decode(kind, method, body):
    """reply bytes -> ('ok', [items]) | ('fault', code, string): read with nothing but the document libraries"""
    f = M.decode_fault(kind, body)
    if f is not None:
        code = f[0]
        if kind in ('xml', 'soap11') and code.partition(':')[0] in ('soap11env', 'senv', 'soap12env'):
            code = code.partition(':')[2]       # the envelope namespace prefix that SOAP fault codes are qualified with
        return ('fault', code, f[1])
    if kind in ('xml', 'soap11'):
        from lxml import etree
        root = etree.fromstring(body)
        if kind == 'soap11':
            root = root.find('{%s}Body' % M.S11)[0]
        res = root[0] if len(root) else None
        out = []
        for el in (res if res is not None else ()):
            if el.get('{http://www.w3.org/2001/XMLSchema-instance}nil') in ('true', '1'):
                out.append(None)
            elif method == 'gen_obj':
                d = {c.tag.partition('}')[2]: c.text for c in el}
                out.append({'a': int(d['a']), 's': d['s']})
            elif method == 'gen_text':
                out.append(el.text or '')
            else:
                out.append(int(el.text))
        return ('ok', out)
    if kind == 'json':
        d = json.loads(body.decode('utf8'))
    elif kind == 'yaml':
        import yaml
        d = yaml.safe_load(body.decode('utf8'))
    else:
        import msgpack
        d = msgpack.unpackb(body, raw=False)
    while isinstance(d, dict) and len(d) == 1 and not (method == 'gen_obj' and set(d) <= {'a', 's'}):
        d = list(d.values())[0]
    if d is None or d == {}:
        d = []
    out = []
    for x in d:
        if isinstance(x, bytes):
            x = x.decode('utf8')            # MessagePack: spyne writes text as bin
        if isinstance(x, dict):
            x = {(k.decode('utf8') if isinstance(k, bytes) else k): (v.decode('utf8') if isinstance(v, bytes) else v) for k, v in x.items()}
        while method == 'gen_obj' and isinstance(x, dict) and len(x) == 1 and not set(x) <= {'a', 's'}:
            x = list(x.values())[0]
        out.append(x)
    return ('ok', out)


def generator_scenario(R, seed, tier):
    """Generator (and Array/Iterable) results whose items include nulls at the first, a middle or the last position, empty generators and generators
    that fail after k items: NullServer against the wire paths through ServerBase AND through WsgiApplication (which runs a generator up to its
    first item before it answers)."""
    from spyne import Fault
    from spyne.server.null import NullServer
    from spyne.server import ServerBase
    from spyne.server.wsgi import WsgiApplication
    rng = core.rng_for(seed, PROP, 'generators')
    null = NullServer(_gen_app(None))
    worlds = {}
    for kind in GEN_KINDS:
        app = _gen_app(kind)
        worlds[kind] = (ServerBase(app), WsgiApplication(_gen_app(kind)))
    fixed = [[], [None], [None, 1, 2], [1, None, 2], [1, 2, None], [None, None], [0], [0, 1], [None, 0]]
    n = 40 if tier == 'quick' else 400
    for k in range(n):
        items = fixed[k] if k < len(fixed) else [rng.choice((None, None, 0, 1, -7, 10 ** 12)) for _ in range(rng.choice((0, 1, 2, 3, 5)))]
        fail_after = rng.choice((None, None, None, 0, 1, len(items), max(len(items) - 1, 0)))
        for method in ('gen_int', 'gen_arr', 'gen_text', 'gen_obj', 'plain_list'):
            repro = {'scenario': 'generators', 'seed': seed, 'method': method, 'items': items, 'fail_after': fail_after}
            R.evaluations += 1
            try:
                sent = ','.join('n' if x is None else str(x) for x in items) or 'e'
                res = getattr(null.service, method)(sent, fail_after)
                want = ('ok', [_gen_native(method, o) for o in (res if res is not None else [])])
            except Fault as f:
                want = ('fault', f.faultcode, f.faultstring)
            except Exception as e:
                R.violation('NullServer raised %s: %s' % (type(e).__name__, str(e)[:150]), repro, mech='generators:null_exception:%s' % type(e).__name__)
                continue
            if want[0] == 'ok' and method == 'gen_text':
                want = ('ok', [o for o in want[1]])
            R.count('generator_null_calls')
            if items[:1] == [None]:
                R.count('generator_results_starting_with_null')
            for kind in GEN_KINDS:
                req = M.encode_request(kind, method, [('items', sent), ('fail_after', fail_after)])
                for driver in ('server', 'wsgi'):
                    if driver == 'server' and fail_after is not None and method != 'plain_list':
                        # a bare ServerBase hands the generator to its transport unstarted: what fails while the reply is written is the transport's
                        R.skip('generators: a failing generator through a bare ServerBase')
                        continue
                    if driver == 'server':
                        r = drive.drive_server(worlds[kind][0], req['body'])
                        exc, body = r.exc, r.out
                    else:
                        env, inp = drive.make_environ(req['method'], req['path'], req['qs'], req['body'], req['content_type'])
                        r = drive.call_wsgi(worlds[kind][1], env, inp)
                        exc, body = r.exc, r.body
                    if exc is not None:
                        R.violation('%s/%s: %s escaped: %s' % (kind, driver, type(exc).__name__, str(exc)[:150]), dict(repro, kind=kind, driver=driver),
                                    mech='generators:escape:%s:%s' % (kind, type(exc).__name__))
                        continue
                    try:
                        got = _gen_decode(kind, method, body)
                    except Exception as e:
                        R.violation('%s/%s: reply not readable (%s): %r' % (kind, driver, type(e).__name__, body[:200]), dict(repro, kind=kind, driver=driver),
                                    mech='generators:reply_unreadable:%s' % kind)
                        continue
                    R.count('generator_wire_calls')
                    R.cell('generators|%s|%s|%s' % (kind, driver, method))
                    R.nontrivial('generators', kind, driver, method, want[0], len(items), items[:1] == [None], fail_after)
                    if got != want:
                        R.violation('%s/%s %s(%r, fail_after=%r): NullServer gives %r, the wire gives %r' % (kind, driver, method, items, fail_after, want, got),
                                    dict(repro, kind=kind, driver=driver), mech='generators:%s:%s_vs_%s' % (method, want[0], got[0]))


def run(spec, R):
    if spec.get('scenario') == 'generators':
        generator_scenario(R, spec['seed'], spec['tier'])
        return
    for uid in range(spec['first'], spec['first'] + spec['count']):
        run_universe(R, spec['seed'], uid, spec['tier'])
    if spec['first'] == 0:
        for rep in range(3 if spec['tier'] == 'quick' else 12):
            run_universe(R, spec['seed'] * 100 + rep, DEFAULTS_UNIVERSE, 'thorough')
        R.count('defaults_universe_runs')


def replay(v, R):
    c = v['repro']
    if c.get('scenario') == 'generators':
        generator_scenario(R, c['seed'], 'thorough')
        for x in R.violations[:10]:
            print('replayed:', x.get('mech'), x.get('what')[:300])
        return
    run_universe(R, c['seed'], c['uid'], 'thorough')
    for x in R.violations[:10]:
        print('replayed:', x.get('mech'), x.get('what')[:300])


def classify(v):
    return v.get('mech')
