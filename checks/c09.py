"""C09 - faults arrive intact, are classified correctly and never leak internals.

Generated Fault trees and tokenised foreign exceptions raised from user code,
for every output protocol, through WSGI, the ServerBase stages and the loopback
spyne client. Monitors: fault decoder of the output protocol, HTTP status
recorder, secret-token leak scanner over status line, headers and body.
"""
import json
import random
import re

from lxml import etree

from vflib import core, drive, miniapp as M, clients

PROP = 'C09'
LEVEL = 'exploration'
RULE = ('user code raises: Fault with generated dotted codes (Client|Server first segment; any first segment where the vocabulary is '
        'open), Unicode messages, nested string-leaf detail dicts; generated Fault subclasses; the dedicated errors (413/404/405/401); '
        'non-Fault exceptions of generated classes whose message, class name and raising helper each carry a distinct random token; x 9 '
        'protocol configurations x {WSGI, ServerBase, loopback client}; non-trivial = a fault document was decoded and compared; distinct '
        'by (protocol, driver, fault kind, code shape, detail shape, status).'
        ' Also: Fault subclasses declaring or inheriting a class-level CODE, generator methods failing before and after their first item, positional (list) fault output, multi-entry details.')
ASSUMPTIONS = [
    '"same code" is compared modulo wire spelling: a QName prefix bound to (or conventionally naming) the SOAP envelope namespace is stripped; SOAP 1.2 Sender/Receiver + Subcodes map to Client/Server + dotted sub-codes',
    'detail is compared as a nested mapping with string leaves (the shape every protocol can carry)',
    'HttpRpc as output protocol writes faults as "code\\n\\nstring" text (documented): detail is not carried and not compared there',
]
REQUIRED_COUNTERS = ('faults_decoded', 'statuses_checked', 'leak_scans', 'foreign_exceptions')
KINDS = ('soap11', 'soap12', 'xml', 'json', 'yaml', 'msgpack', 'msgpackrpc', 'httprpc-json', 'httprpc', 'json+list', 'yaml+list', 'msgpack+list')
DEDICATED = {'toolong': ('RequestTooLongError', 413), 'notfound': ('ResourceNotFoundError', 404),
             'notallowed': ('RequestNotAllowed', 405), 'creds': ('InvalidCredentialsError', 401)}


def shards(tier, seed):
    return [{'shard': k, 'kind': k, 'tier': tier, 'seed': seed} for k in KINDS]


def gen_code(rng, kind):
    first = rng.choice(('Client', 'Server'))
    if kind != 'soap12' and rng.random() < .2:
        # (first segments that merely begin like the two known ones are others: the class of a code is its first segment)
        first = rng.choice(('Custom', 'Billing', 'X9', 'ClientCertificate', 'Clientele', 'Clients', 'ServerClient', 'client', 'Client_'))
    segs = [first] + [rng.choice(('Sub', 'Deep', 'E42', 'notFound', 'A_b')) for _ in range(rng.randint(0, 3))]
    return '.'.join(segs)


def gen_message(rng):
    return rng.choice(['plain message', 'ünïcödé mëssage 中文 😀', 'with <angle> & "quotes"', 'line\nbreak', 'x' * 200, 'trailing space ',
                       'percent %s %d %(x)s', ''])


def gen_detail(rng, depth=2):
    if rng.random() < .3:
        return None
    if depth == 2 and rng.random() < .5:
        # a single root member
        inner = gen_detail(rng, 1)
        return {rng.choice(('detail_root', 'err', 'info')): inner if inner else 'leaf'}
    d = {}
    for i in range(rng.randint(1, 3)):
        k = rng.choice(('reason', 'field', 'info', 'k%d' % i))
        if depth > 0 and rng.random() < .4:
            sub = gen_detail(rng, depth - 1)
            d[k] = sub if sub else 'leaf'
        else:
            d[k] = rng.choice(('v', 'détail ü', '42', 'a<b'))
    return d


def norm_code(kind, code):
    if code is None:
        return None
    if isinstance(code, bytes):
        code = code.decode('utf8')
    if ':' in code:
        pfx, _, local = code.partition(':')
        if pfx in ('soap11env', 'soap12env', 'senv', 'soap', 'env', 'ns0', 'tns', 's'):
            code = local
    if kind == 'soap12':
        first, dot, rest = code.partition('.')
        code = {'Sender': 'Client', 'Receiver': 'Server'}.get(first, first) + dot + rest
    return code


def decode_detail(kind, det):
    """-> nested dict with str leaves, or None"""
    if det is None:
        return None
    if isinstance(det, etree._Element):
        def walk(e):
            kids = [c for c in e if isinstance(c.tag, str)]
            if not kids:
                return e.text or ''
            out = {}
            for c in kids:
                out[etree.QName(c).localname] = walk(c)
            return out
        r = walk(det)
        return r if isinstance(r, dict) and r else (None if r in ('', None) else r)
    if isinstance(det, dict):
        return {(k.decode() if isinstance(k, bytes) else k): (decode_detail(kind, v) if isinstance(v, dict) else (v.decode() if isinstance(v, bytes) else v))
                for k, v in det.items()}
    if det in ('', b''):
        return None
    return det


def decode_fault_any(kind, body):
    f = M.decode_fault(kind if kind != 'httprpc-json' else 'json', body)
    if f is None and kind == 'xml':
        return None
    if f is None:
        return None
    code, string, det = f
    if isinstance(string, bytes):
        string = string.decode('utf8')
    return norm_code(kind, code), string, decode_detail(kind, det)


class Token(object):
    def __init__(self, rng):
        self.msg = 'MSGTOK%d' % rng.randint(10 ** 8, 10 ** 9)
        self.cls = 'ClsTok%d' % rng.randint(10 ** 8, 10 ** 9)
        self.fn = 'fntok%d' % rng.randint(10 ** 8, 10 ** 9)

    def all(self):
        return (self.msg, self.cls, self.fn)


def scan_leak(tokens, status, headers, body):
    hay = [status or '', json.dumps(headers, default=str), body.decode('utf8', 'replace'), body.decode('latin1')]
    try:
        from urllib.parse import unquote
        hay.append(unquote(hay[2]))
    except Exception:
        pass
    found = []
    for t in tokens:
        if any(t in h for h in hay):
            found.append(t)
    return found


def build(kind, rec, behaviour):
    return M.build_app(kind, rec, validator=None, behaviours=behaviour)


def make_raiser(tok, exc_kind):
    """exception of a generated class, raised from a generated helper whose name carries a token"""
    base = {'runtime': RuntimeError, 'key': KeyError, 'value': ValueError, 'custom': Exception, 'os': OSError, 'unicode': UnicodeError}[exc_kind]
    cls = type(tok.cls, (base,), {})
    ns = {}
    exec('def %s(cls, msg):\n    raise cls(msg)\n' % tok.fn, ns)
    helper = ns[tok.fn]

    def beh(token):
        helper(cls, 'secret %s detail' % tok.msg)
    return beh


def run(spec, R):
    from spyne import Fault
    import spyne.error as E
    from spyne.server.wsgi import WsgiApplication
    from spyne.server import ServerBase
    kind = spec['kind']
    rng = core.rng_for(spec['seed'], PROP, spec['shard'])
    n = 40 if spec['tier'] == 'quick' else 400
    rec = M.Recorder()
    beh = {}
    app = build(kind, rec, beh)
    wsgi = WsgiApplication(app)
    srv_app = build(kind, M.Recorder(), beh)
    server = ServerBase(srv_app) if not kind.startswith('httprpc') else None
    # ---- Faults raised by user code
    for i in range(n):
        code, msg, det = gen_code(rng, kind), gen_message(rng), gen_detail(rng)
        sub = rng.random() < .4
        # a subclass may declare a class-level CODE the way the built-in errors do (its own, a prefix of the code raised, or one of
        # the other family), and a subclass of such a class inherits it: the code given when raising is the one that travels
        ccode = rng.choice((None, None, code, code.split('.')[0], '.'.join(code.split('.')[:2]), 'Client.Quota', 'Server.Quota'))
        inherit = rng.random() < .3

        def raise_fault(token, code=code, msg=msg, det=det, sub=sub, ccode=ccode, inherit=inherit):
            cls = Fault
            if sub:
                d = {'__namespace__': M.TNS}
                if ccode is not None:
                    d['CODE'] = ccode
                cls = type('GenFault%d' % i, (Fault,), d)
                if inherit:
                    cls = type('GenFault%dSub' % i, (cls,), {'__namespace__': M.TNS})
            raise cls(code, msg, detail=det)
        if sub and ccode is not None:
            R.count('fault_classes_with_code')
        beh['boom'] = raise_fault
        one(R, kind, wsgi, server, rec, 'fault', (code, msg or None, det), None, {'seed': spec['seed'], 'i': i, 'code': code, 'detail': det}, rng)
    # ---- dedicated errors
    for which, (cname, status) in DEDICATED.items():
        def raise_ded(token, cname=cname):
            c = getattr(E, cname)
            raise c('thing') if cname in ('ResourceNotFoundError', 'RequestNotAllowed') else c()
        beh['boom'] = raise_ded
        one(R, kind, wsgi, server, rec, 'dedicated:' + which, None, status, {'seed': spec['seed'], 'which': which}, rng)
        # "for all fault classes (built-in and generated subclasses)": a subclass of a dedicated error is still that error
        for depth in (1, 2):
            def raise_sub(token, cname=cname, depth=depth):
                c = getattr(E, cname)
                for d in range(depth):
                    c = type('Gen%s%d' % (cname, d), (c,), {})
                raise c('thing') if cname in ('ResourceNotFoundError', 'RequestNotAllowed') else c()
            beh['boom'] = raise_sub
            R.count('dedicated_subclasses')
            one(R, kind, wsgi, server, rec, 'dedicated_subclass:' + which, None, status,
                {'seed': spec['seed'], 'which': which, 'subclass_depth': depth}, rng)
    # built-in subclasses of the dedicated errors
    for cname, parent in (('RespawnError', 'ResourceNotFoundError'),):
        if hasattr(E, cname) and issubclass(getattr(E, cname), getattr(E, parent)):
            def raise_builtin(token, cname=cname):
                raise getattr(E, cname)('thing')
            beh['boom'] = raise_builtin
            status = [st for (cn, st) in DEDICATED.values() if cn == parent][0]
            one(R, kind, wsgi, server, rec, 'dedicated_builtin:' + cname, None, status, {'seed': spec['seed'], 'which': cname}, rng)
    # ---- foreign exceptions with secret tokens
    for i in range(n // 2):
        tok = Token(rng)
        ek = rng.choice(('runtime', 'key', 'value', 'custom', 'os', 'unicode'))
        beh['boom'] = make_raiser(tok, ek)
        R.count('foreign_exceptions')
        one(R, kind, wsgi, server, rec, 'foreign:' + ek, ('Server', 'Internal Error', None), 500, {'seed': spec['seed'], 'i': i, 'exc': ek}, rng,
            tokens=tok.all())
    # ---- the method returns what produces the answer - a generator, or an iterator object of its own - and that fails while the answer is
    #      written: a Fault is the user's Fault, anything else is the generic one
    if not kind.startswith('httprpc'):
        for meth in ('stream', 'lazy'):
            for fail_after in (0, 1, 2):
                for how, expect in (('fault', ('Client.MidStream', 'failed after %d chunks' % fail_after)), ('exc', ('Server', 'Internal Error'))):
                    req = M.encode_request(kind, meth, [('n', 4), ('fail_after', fail_after), ('how', how)])
                    env, inp = drive.make_environ(req['method'], req['path'], req['qs'], req['body'], req['content_type'])
                    rec.reset()
                    w = drive.call_wsgi(WsgiApplication(app, chunked=False), env, inp)
                    R.evaluations += 1
                    case = {'seed': spec['seed'], 'kind': kind, 'what': 'midstream', 'method': meth, 'fail_after': fail_after, 'how': how}
                    if w.exc is not None:
                        R.violation('exception escaped the WSGI callable: %r' % w.exc, case, mech='escape:%s:%s' % (type(w.exc).__name__, drive.innermost_spyne_frame(w.exc)))
                        continue
                    f = decode_fault_any(kind, w.body)
                    R.count('midstream_faults')
                    if f is None:
                        R.violation('answer of a call whose result failed while it was written is not a fault document: %r' % w.body[:200], case, mech='midstream:not_a_fault_document:%s' % kind)
                        continue
                    if b'secret-midstream' in w.body:
                        R.violation('the text of a non-Fault exception raised while the answer was written appears in the response', case, mech='leak:message')
                    if (f[0], f[1]) != expect:
                        R.violation('%s raised by the %s while the answer was written arrived as %r' % ('Fault %r' % (expect,) if how == 'fault' else 'a RuntimeError', 
                                    'generator' if meth == 'stream' else 'iterator object', (f[0], f[1])), case,
                                    mech='midstream:%s:%s_arrives_as_%s' % ('generator' if meth == 'stream' else 'iterator_object', how, (f[0] or '').split('.')[0]))
                    else:
                        R.nontrivial(kind, 'midstream', meth, fail_after, how)
    # ---- the method prepares its answer itself (ctx.out_string / ctx.out_document) and then fails: the client gets the fault, not what was prepared
    if wsgi is not None and kind in ('soap11', 'xml', 'json', 'yaml', 'msgpack', 'httprpc-json'):
        from spyne.server.wsgi import WsgiApplication
        for what in ('string', 'document'):
            for how, expect in (('fault', ('Client.Prepared', 'failed after preparing')), ('exc', ('Server', 'Internal Error'))):
                for chunked in (True, False):
                    req = M.encode_request(kind, 'prepared', [('what', what), ('how', how)])
                    env, inp = drive.make_environ(req['method'], req['path'], req['qs'], req['body'], req['content_type'])
                    rec.reset()
                    w = drive.call_wsgi(WsgiApplication(app, chunked=chunked), env, inp)
                    R.evaluations += 1
                    R.count('prepared_answers')
                    case = {'seed': spec['seed'], 'kind': kind, 'what': 'prepared', 'prepared': what, 'how': how, 'chunked': chunked}
                    if w.exc is not None:
                        R.violation('exception escaped the WSGI callable: %r' % w.exc, case, mech='escape:%s:%s' % (type(w.exc).__name__, drive.innermost_spyne_frame(w.exc)))
                        continue
                    if b'PREPARED' in w.body:
                        R.violation('a method that prepared its answer (ctx.out_%s) and then raised %s: the client got what was prepared under status %s: %r' % (
                                    what, 'a Fault' if how == 'fault' else 'a RuntimeError', w.status, w.body[:80]), case, mech='prepared_answer_sent_with_fault:%s' % what)
                        continue
                    f = decode_fault_any(kind, w.body)
                    if f is None:
                        R.violation('answer of a failed call that had prepared its answer is not a fault document: %r' % w.body[:200], case, mech='prepared:not_a_fault_document:%s' % kind)
                        continue
                    if b'secret-prepared' in w.body:
                        R.violation('the text of a non-Fault exception appears in the response', case, mech='leak:message')
                    if (f[0], f[1]) != expect:
                        R.violation('%r raised after preparing the answer arrived as %r' % (expect, (f[0], f[1])), case, mech='prepared:fault_differs')
                    else:
                        R.nontrivial(kind, 'prepared', what, how, chunked)
    # ---- the method picks the protocol of its own answer, then fails: code, message and status are those of the protocol that writes the answer
    for fmt in ('json', 'xml', 'yaml', 'soap11'):
        for how, ecode, dedicated in (('fault', 'Client.Negotiated', None), ('server_fault', 'Server.Negotiated', None), ('notfound', 'Client.ResourceNotFound', 404)):
            req = M.encode_request(kind, 'negotiate', [('fmt', fmt), ('how', how)])
            env, inp = drive.make_environ(req['method'], req['path'], req['qs'], req['body'], req['content_type'])
            rec.reset()
            w = drive.call_wsgi(wsgi, env, inp)
            R.evaluations += 1
            case = {'seed': spec['seed'], 'kind': kind, 'what': 'negotiated', 'fmt': fmt, 'how': how}
            if w.exc is not None:
                R.violation('exception escaped the WSGI callable: %r' % w.exc, case, mech='escape:%s:%s' % (type(w.exc).__name__, drive.innermost_spyne_frame(w.exc)))
                continue
            if not any(c[0] == 'negotiate' and tuple(c[1][:2]) == (fmt, how) for c in rec.calls):
                R.skip('negotiate did not run with these arguments')
                continue
            f = decode_fault_any(fmt, w.body)
            R.count('negotiated_faults')
            if f is None:
                R.violation('answer of a failing call is not a fault document of the protocol the method chose (%s): %r' % (fmt, w.body[:200]), case,
                            mech='negotiated:not_a_fault_document:%s' % fmt)
                continue
            if f[0] != ecode:
                R.violation('negotiated fault code %r arrived as %r' % (ecode, f[0]), case, mech='negotiated:fault_code_differs:%s' % fmt)
            want = expected_status(fmt, f[0] or '', dedicated)
            if w.code != want:
                R.violation('fault written by %s (application default %s) answered %s, the mapping of the writing protocol says %d' % (fmt, kind, w.status, want),
                            case, mech='negotiated:http_status:%s:%s->%s' % (fmt, want, w.code))
            R.nontrivial(kind, 'negotiated', fmt, how, w.code)
            R.cell('%s|wsgi|negotiated' % kind)
    # ---- loopback client: the fault reaches the caller as ctx.in_error
    if kind in ('soap11', 'soap12'):
        loopback(R, kind, rng, spec)
    else:
        R.skip('the spyne client library does not decode fault documents of this protocol (only the HTTP status tells)')


def expected_status(kind, code, dedicated_status):
    if kind in ('soap11', 'soap12'):
        return 500
    if dedicated_status is not None:
        return dedicated_status
    if code == 'Client' or code.startswith('Client.'):
        return 400
    return 500


def one(R, kind, wsgi, server, rec, what, expect, status, repro, rng, tokens=(), method='boom'):
    if method == 'boom' and not what.startswith('dedicated'):
        # the same failure raised from a generator function (through the transport only: that is where its body runs)
        one(R, kind, wsgi, None, rec, what + '@generator', expect, status, dict(repro, generator=True), rng, tokens, method='gboom')
        if kind != 'httprpc':       # (HttpRpc as output protocol only serialises primitives)
            one(R, kind, wsgi, None, rec, what + '@generator_late', expect, status, dict(repro, generator='late'), rng, tokens,
                method='gboom_late')
    req = M.encode_request(kind, method, [('token', 'T')])
    for driver in ('wsgi', 'server'):
        if driver == 'server' and server is None:
            continue
        R.evaluations += 1
        case = dict(repro, kind=kind, driver=driver, what=what)
        if driver == 'wsgi':
            env, inp = drive.make_environ(req['method'], req['path'], req['qs'], req['body'], req['content_type'])
            rec.reset()
            w = drive.call_wsgi(wsgi, env, inp)
            if w.exc is not None:
                R.violation('exception escaped the WSGI callable: %r' % w.exc, case, mech='escape:%s:%s' % (type(w.exc).__name__, drive.innermost_spyne_frame(w.exc)))
                continue
            body, st, hdrs, code_http = w.body, w.status, w.headers, w.code
        else:
            r = drive.drive_server(server, req['body'])
            if r.exc is not None:
                R.violation('exception escaped ServerBase (%s): %r' % (r.exc_stage, r.exc), case, mech='escape:%s:%s' % (type(r.exc).__name__, drive.innermost_spyne_frame(r.exc)))
                continue
            body, st, hdrs, code_http = r.out or b'', None, [], None
        # leak scan
        if tokens:
            R.count('leak_scans')
            found = scan_leak(tokens, st, hdrs, body)
            if found:
                R.violation('secret token(s) %s of a non-Fault exception appear in the response' % found, dict(case, body=body[:600].decode('utf8', 'replace')),
                            mech='leak:%s' % ('message' if found[0].startswith('MSG') else 'class' if found[0].startswith('Cls') else 'traceback'))
        if kind == 'httprpc':
            txt = body.decode('utf8', 'replace')
            f = tuple(txt.split('\n\n', 1)) + (None,) if '\n\n' in txt else None
            f = (f[0], f[1], None) if f else None
        else:
            f = decode_fault_any(kind, body)
        if f is None:
            R.violation('response to a raising call is not a fault document of the output protocol: %r' % body[:200], case, mech='not_a_fault_document:%s' % kind)
            continue
        R.count('faults_decoded')
        # return value must not be sent
        if b'boomResult' in body or b'boomResponse' in body:
            R.violation('response to a raising call carries the result wrapper', case, mech='result_sent_with_fault')
        code, string, det = f
        if expect is not None:
            ecode, estr, edet = expect
            if kind == 'soap12' and ecode.split('.')[0] not in ('Client', 'Server'):
                pass
            if code != ecode:
                R.violation('fault code %r arrived as %r' % (ecode, code), dict(case, body=body[:600].decode('utf8', 'replace')), mech='fault_code_differs:%s' % kind)
            if estr is not None and string != estr:
                R.violation('fault string %r arrived as %r' % (estr, string), dict(case, body=body[:600].decode('utf8', 'replace')),
                            mech='fault_string_differs:%s:%s' % (kind, string_kind(estr, string)))
            if kind != 'httprpc' and not what.startswith('foreign') and _norm_detail(edet) != _norm_detail(det):
                R.violation('fault detail %r arrived as %r' % (edet, det), dict(case, body=body[:800].decode('utf8', 'replace')), mech='fault_detail_differs:%s' % kind)
        if what.startswith('foreign') and (code, string) != ('Server', 'Internal Error'):
            R.violation('non-Fault exception answered with (%r, %r), not the generic Server / Internal Error fault' % (code, string), case, mech='foreign_not_generic')
        if driver == 'wsgi':
            R.count('statuses_checked')
            want = expected_status(kind, code or '', status)
            if code_http != want:
                R.violation('%s over HTTP answered %s, documented mapping says %d' % (what, st, want), case, mech='http_status:%s:%s->%s' % (kind, want, code_http))
        R.nontrivial(kind, driver, what.split(':')[0], (code or '').count('.'), _shape(det), code_http)
        R.cell('%s|%s|%s' % (kind, driver, what.split(':')[0]))
        if len(R.samples) < 4 and what == 'fault':
            R.sample({'kind': kind, 'driver': driver, 'raised': repro, 'decoded': [code, string, det], 'status': st})


def string_kind(a, b):
    if b is None:
        return 'lost'
    if a.strip() == (b or '').strip():
        return 'whitespace'
    return 'changed'


def _norm_detail(d):
    if d in (None, '', {}):
        return None
    return d


def _shape(d):
    if not isinstance(d, dict):
        return 0
    return 1 + max([_shape(v) for v in d.values()] or [0])


def loopback(R, kind, rng, spec):
    from spyne import Fault
    from spyne.server.wsgi import WsgiApplication
    rec = M.Recorder()
    beh = {}
    app = build(kind, rec, beh)
    wsgi = WsgiApplication(app)
    capp = build(kind, M.Recorder(), {})
    ctype = M.encode_request(kind, 'boom', [('token', 'T')])['content_type']
    client = clients.make_loopback_client(capp, clients.wsgi_sender(wsgi, ctype))
    for i in range(10 if spec['tier'] == 'quick' else 60):
        code, msg = gen_code(rng, kind), gen_message(rng) or 'm'

        def raise_fault(token, code=code, msg=msg):
            raise Fault(code, msg)
        beh['boom'] = raise_fault
        R.evaluations += 1
        case = {'seed': spec['seed'], 'kind': kind, 'driver': 'loopback_client', 'code': code, 'msg': msg}
        try:
            client.service.boom('T')
            R.violation('loopback client call returned normally although the method raised', case, mech='client_no_fault')
            continue
        except Fault as f:
            got = (norm_code(kind, f.faultcode), f.faultstring)
        except Exception as e:
            R.violation('the spyne client raised %s instead of delivering the fault: %s' % (type(e).__name__, str(e)[:150]), case,
                        mech='client_cannot_parse_fault:%s:%s' % (kind, type(e).__name__))
            continue
        R.count('faults_decoded')
        if got != (code, msg):
            R.violation('loopback client received fault %r, raised %r' % (got, (code, msg)), case, mech='client_fault_differs:%s' % kind)
        else:
            R.nontrivial(kind, 'loopback', code.count('.'))


def replay(v, R):
    c = v['repro']
    run({'kind': c['kind'], 'tier': 'quick', 'seed': c['seed'], 'shard': c['kind']}, R)
    for x in R.violations[:10]:
        print('replayed:', x.get('mech'), x.get('what')[:300])


def classify(v):
    return v.get('mech')
