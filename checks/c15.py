"""C15 - deriving a model never changes another model; field order deterministic.

Histories of derivation/evolution operations over a pool of models; after every
step a structural snapshot of EVERY pooled model is compared with the one taken
before the step (frame condition). The schema part of the snapshot is rendered
in a forked child so that observing does not perturb (rendering resolves names
on the classes). Field order is compared with the declaration order tracked by
the harness, in type info, flat type info, schema sequence and JSON/XML/flat
output; every history is replayed under other PYTHONHASHSEEDs.
"""
import datetime
import decimal
import hashlib
import inspect
import json
import os
import re
import subprocess
import sys

from vflib import core

PROP = 'C15'
LEVEL = 'exploration'
RULE = ('random histories (30-60 operations: primitive customisation, customize with random attribute sets, child_attrs, '
        'child_attrs_all, Array/Iterable/Array(wrapped=False), Mandatory, subclassing, new classes, append_field/insert_field, '
        'use of pool models in an Application) over a pool of models; snapshots of all pooled models after every step; '
        'non-trivial = a step that created or changed a model and was followed by a full pool comparison; distinct by '
        '(operation, target kind, argument shape).'
        ' Also: derivations that lift a constraint or pass storage attributes, unrequested attributes compared with the parent\'s, outputs through protocol instances that live as long as the history, every short history of customize() calls run with shared and with copied argument objects, pending child_attrs for fields added later, hash-seed replays in fresh processes.')
ASSUMPTIONS = [
    'observable = public Attributes, ordered _type_info / flat type info (by type identity), validation verdicts on a probe set, the schema node rendered for the model; private bookkeeping (_variants, memo tables) is excluded',
    'a type name / namespace that is still unset (lazily resolved on first use) may be filled in by a later step; once set it must not change',
    'append_field/insert_field are applied to root classes only (the documented use); expected propagation = variants and subclasses tracked by the harness',
]
REQUIRED_COUNTERS = ('steps', 'pool_comparisons', 'schema_renders', 'order_checks', 'hashseed_replays')
SHARD_TIMEOUT = {'quick': 900, 'thorough': 3000}


def shards(tier, seed):
    n = 16 if tier == 'quick' else 48
    per = 6 if tier == 'quick' else 10
    return [{'shard': 'h%d' % i, 'tier': tier, 'seed': seed, 'histories': per, 'first': i * per} for i in range(n)]


# ------------------------------------------------------------------ snapshot

def norm(v, ids, depth=0):
    if isinstance(v, (int, float, str, bytes, bool, type(None), decimal.Decimal, datetime.date, datetime.time)):
        return repr(v)
    if inspect.isclass(v):
        return 'cls#%d' % ids.setdefault(id(v), len(ids))
    if depth > 4:
        return '<deep>'
    if isinstance(v, (list, tuple)):
        return [norm(x, ids, depth + 1) for x in v]
    if isinstance(v, (set, frozenset)):
        return sorted(str(norm(x, ids, depth + 1)) for x in v)
    if isinstance(v, dict):
        return sorted((str(norm(k, ids, depth + 1)), str(norm(x, ids, depth + 1))) for k, x in v.items())
    if hasattr(v, 'pattern') and hasattr(v, 'match'):
        return 're:' + v.pattern
    if callable(v):
        return 'fn:' + getattr(v, '__qualname__', type(v).__name__)
    return 'obj:' + type(v).__name__


PROBES = [None, '', 'a', 'ab', 'abc', 'abcd', 'x' * 50, '12', 'A', -1, 0, 1, 3, 5, 10, 100, 255, 256, 10 ** 12,
          decimal.Decimal('1.5'), decimal.Decimal('123456.789'), datetime.date(2020, 1, 1), datetime.date(1990, 5, 5), True]


def snapshot(m, ids, keep):
    """keep: hold strong references to every class we gave an id (ids are id()-based)."""
    keep.append(m)
    A = m.Attributes
    attrs = {}
    for n in sorted(set(x for x in dir(A) if not x.startswith('_'))):
        try:
            val = getattr(A, n)
            if inspect.isclass(val):
                keep.append(val)
            attrs[n] = norm(val, ids)
        except Exception as e:
            attrs[n] = 'ERR:' + type(e).__name__
    ti = getattr(m, '_type_info', None)
    fields = None
    flat = None
    if ti is not None and hasattr(ti, 'items'):
        for k, v in ti.items():
            keep.append(v)
        fields = [(k, norm(v, ids)) for k, v in ti.items()]
        try:
            fl = m.get_flat_type_info(m)
            for k, v in fl.items():
                keep.append(v)
            flat = [(k, norm(v, ids)) for k, v in fl.items()]
        except Exception as e:
            flat = 'ERR:' + type(e).__name__
    verd = []
    for v in PROBES:
        for fn in ('validate_string', 'validate_native'):
            try:
                verd.append(bool(getattr(m, fn)(m, v)))
            except Exception as e:
                verd.append('E:' + type(e).__name__)
    tn = m.__type_name__ if isinstance(m.__type_name__, str) else None
    return dict(attrs=attrs, fields=fields, flat=flat, verd=verd, tn=tn, ns=m.__namespace__,
                ext=norm(getattr(m, '__extends__', None), ids), orig=norm(getattr(m, '__orig__', None), ids))


def snap_diff(b, a):
    """sections that differ, honouring fill-once naming."""
    out = []
    for sec in ('attrs', 'fields', 'flat', 'verd', 'ext', 'orig'):
        if b[sec] != a[sec]:
            if sec == 'attrs':
                ks = [k for k in set(b['attrs']) | set(a['attrs']) if b['attrs'].get(k) != a['attrs'].get(k)]
                out.append('attrs:' + ','.join(sorted(ks)))
            else:
                out.append(sec)
    for sec in ('tn', 'ns'):
        if b[sec] is not None and b[sec] != a[sec]:
            out.append(sec)
    return out


def render_schemas(pool):
    """In a forked child: render the schema node of every pooled model; return
    {name: digest}. The parent's classes stay untouched."""
    r, w = os.pipe()
    pid = os.fork()
    if pid == 0:
        try:
            os.close(r)
            out = {}
            try:
                from spyne.model.complex import ComplexModel
                from spyne.util.xml import get_schema_documents
                from lxml import etree
                XS = 'http://www.w3.org/2001/XMLSchema'
                holders = []
                # (in the order the models were made: a type that has no name of its own is named after the first class that is
                #  declared with a member of it, and in a program that is the earliest declaration, not the alphabetically first)
                names = list(pool)
                for i, n in enumerate(names):
                    holders.append(type('H%s' % n, (ComplexModel,), {'__namespace__': 'urn:vf:h', 'f': pool[n]}))
                # one rendering per model: distinct models may legitimately share a
                # type name, rendering them together would make them collide
                for i, n in enumerate(names):
                    try:
                        d1 = get_schema_documents([holders[i]])
                        out[n] = _digest_of(d1, 'H%s' % n, etree, XS)
                    except Exception as e1:
                        out[n] = 'ERR:%s' % type(e1).__name__
            except Exception as e:
                out = {'__error__': repr(e)}
            with os.fdopen(w, 'w') as f:
                json.dump(out, f)
        finally:
            os._exit(0)
    os.close(w)
    with os.fdopen(r) as f:
        data = f.read()
    os.waitpid(pid, 0)
    try:
        return json.loads(data)
    except ValueError:
        return {'__error__': 'child produced no output'}


def _digest_of(docs, hname, etree, XS):
    """definition node of the type of element `f` in holder `hname`: (seq names, c14n)"""
    holder = None
    allnodes = {}
    for pref, d in docs.items():
        tns = d.get('targetNamespace')
        for c in d:
            if isinstance(c.tag, str) and c.get('name'):
                allnodes[(tns, etree.QName(c).localname, c.get('name'))] = c
                if c.get('name') == hname and etree.QName(c).localname == 'complexType':
                    holder = c
    el = [e for e in holder.iter('{%s}element' % XS) if e.get('name') == 'f'][0]
    tq = el.get('type')
    pfx, _, local = tq.rpartition(':')
    ns = el.nsmap.get(pfx or None)
    occ = (el.get('minOccurs'), el.get('maxOccurs'), el.get('nillable'))
    if ns == XS:
        return {'type': 'xs:' + local, 'occ': occ, 'def': None, 'seq': None}
    node = allnodes.get((ns, 'complexType', local))
    if node is None:
        node = allnodes.get((ns, 'simpleType', local))
    if node is None:
        return {'type': local, 'occ': occ, 'def': 'MISSING', 'seq': None}
    seq = [e.get('name') for e in node.iter('{%s}element' % XS)]
    txt = etree.tostring(node).decode()       # (c14n refuses relative namespace URIs such as module names)
    # prefixes are allocated globally; strip them for comparison
    txt = re.sub(r'xmlns:\w+="[^"]*"', '', txt)
    txt = re.sub(r'(type|base|ref)="\w+:', r'\1="', txt)     # prefixes are allocated per rendering
    txt = re.sub(r'^(<xs:\w+Type\s*)name="[^"]*"', r'\1', txt)  # the (possibly lazily assigned) name is compared separately
    txt = re.sub(r'(type|base)="\w+Type(_\w+ParentType)*(Array)*"', r'\1="LAZYNAME"', txt)   # references to lazily named anonymous types
    txt = re.sub(r'name="\w+Type(_\w+ParentType)*(Array)*"', 'name="LAZYNAME"', txt)   # array member elements are named after the lazily named member type
    seq = ['LAZYNAME' if re.fullmatch(r'\w+Type(_\w+ParentType)*(Array)*', x or '') else x for x in seq]
    txt = re.sub(r'\s+', ' ', txt)
    return {'type': local, 'occ': occ, 'def': hashlib.sha1(txt.encode()).hexdigest()[:12], 'seq': seq, 'text': txt[:3000]}


# ------------------------------------------------------------------ reference validator for simple facets

def ref_accepts(kind, facets, v):
    if v is None:
        return bool(facets.get('nillable', True))
    try:
        if kind in ('Integer', 'Decimal'):
            if isinstance(v, bool) or not isinstance(v, (int, decimal.Decimal)):
                return None
            if kind == 'Integer' and not isinstance(v, int):
                return None
            for k, op in (('ge', lambda a, b: a >= b), ('gt', lambda a, b: a > b), ('le', lambda a, b: a <= b), ('lt', lambda a, b: a < b)):
                if k in facets and not op(v, facets[k]):
                    return False
            return True
        if kind == 'Unicode':
            if not isinstance(v, str):
                return None
            if 'min_len' in facets and len(v) < facets['min_len']:
                return False
            if 'max_len' in facets and len(v) > facets['max_len']:
                return False
            if 'pattern' in facets and re.fullmatch(facets['pattern'], v) is None:
                return False
            if 'values' in facets and v not in facets['values']:
                return False
            return True
    except Exception:
        return None
    return None


# ------------------------------------------------------------------ history engine

class World(object):
    def __init__(self, rng, R, hist_id):
        self.rng = rng
        self.R = R
        self.hist_id = hist_id
        self.pool = {}
        self.kind = {}        # name -> 'Integer'|'Unicode'|...|'complex'|'array'
        self.facets = {}      # simple models: effective facets tracked by the harness
        self.parents = {}     # name -> set of names it was derived from (customize / subclass edges)
        self.decl = {}        # complex: expected own field order
        self.base = {}        # complex: name of base class (subclassing) or None
        self.is_root = {}
        self.ids = {}
        self.keep = []
        self.n = 0
        self.log = []

    def add(self, name, model, kind, parents=(), facets=None, decl=None, base=None, root=False):
        self.pool[name] = model
        self.kind[name] = kind
        self.parents[name] = set(parents)
        if facets is not None:
            self.facets[name] = facets
        if decl is not None:
            self.decl[name] = decl
        self.base[name] = base
        self.is_root[name] = root

    def fresh(self, prefix):
        self.n += 1
        return '%s%d' % (prefix, self.n)

    def descendants(self, name):
        out = set()
        work = [name]
        while work:
            x = work.pop()
            for k, ps in self.parents.items():
                if x in ps and k not in out:
                    out.add(k)
                    work.append(k)
        return out

    def flat_order(self, name):
        b = self.base.get(name)
        return (self.flat_order(b) if b else []) + list(self.decl[name])

    def snap_all(self):
        return {k: snapshot(v, self.ids, self.keep) for k, v in self.pool.items()}


def seed_pool(W):
    from spyne import Integer, Unicode, Decimal, Date, Boolean, ComplexModel, Array
    W.add('Integer', Integer, 'Integer', facets={})
    W.add('Unicode', Unicode, 'Unicode', facets={})
    W.add('Decimal', Decimal, 'Decimal', facets={})
    W.add('Date', Date, 'Date', facets={})
    W.add('Boolean', Boolean, 'Boolean', facets={})
    u = 'h%d' % W.hist_id
    C0 = type('C0' + u, (ComplexModel,), {'__namespace__': 'urn:vf:c15', 'a': Integer, 'b': Unicode, 'c': Date})
    W.add('C0', C0, 'complex', decl=['a', 'b', 'c'], root=True)
    C1 = type('C1' + u, (ComplexModel,), {'__namespace__': 'urn:vf:c15', 'x': Decimal, 'y': Boolean})
    W.add('C1', C1, 'complex', decl=['x', 'y'], root=True)
    D0 = type('D0' + u, (ComplexModel,), {'__namespace__': 'urn:vf:c15', 'c': C0, 'cs': Array(C0), 'n': Integer})
    W.add('D0', D0, 'complex', decl=['c', 'cs', 'n'], root=True)
    A0 = Array(C1)
    W.add('ArrC1', A0, 'array', parents=())
    A1 = Array(Unicode)
    W.add('ArrU', A1, 'array')


def rand_facets(rng, kind):
    f = {}
    if kind == 'Integer':
        for k in rng.sample(['ge', 'gt', 'le', 'lt'], rng.randint(0, 2)):
            f[k] = rng.choice((0, 1, 3, 5, 10, 100, -1))
    elif kind == 'Decimal':
        for k in rng.sample(['ge', 'le'], rng.randint(0, 2)):
            f[k] = decimal.Decimal(rng.choice(('0', '1.5', '100', '-3')))
        if rng.random() < .3:
            f['max_str_len'] = rng.choice((6, 10, 40))
        if rng.random() < .2:
            f['total_digits'] = rng.choice((5, 9))
            f['fraction_digits'] = rng.choice((0, 2, 5))
    elif kind == 'Unicode':
        for k in rng.sample(['min_len', 'max_len', 'pattern', 'values'], rng.randint(0, 2)):
            f[k] = {'min_len': rng.choice((0, 1, 2, 3)), 'max_len': rng.choice((1, 3, 4, 60)), 'pattern': rng.choice(('a+', '[a-c]*', 'x{50}', '[0-9]+')),
                    'values': rng.choice((['a', 'ab'], ['abc'], ['A', '12']))}[k]
    g = {}
    if rng.random() < .4:
        g['nillable'] = rng.random() < .5
    if rng.random() < .4:
        g['min_occurs'] = rng.choice((0, 1))
    if rng.random() < .2:
        g['max_occurs'] = rng.choice((1, 3, 'unbounded'))
    return f, g


def viol(W, what, mech, step, **kw):
    W.R.violation(what, {'history': W.hist_id, 'seed': W.seed, 'step': step, 'log': W.log[-12:]}, mech=mech, **kw)


def do_step(W, step):
    """Choose and apply one operation. Returns (opname, newname or None, expected_changed set, info)"""
    rng = W.rng
    from spyne import Array, Iterable, Mandatory, ComplexModel
    simple = [n for n in W.pool if W.kind[n] in ('Integer', 'Unicode', 'Decimal', 'Date', 'Boolean')]
    complexes = [n for n in W.pool if W.kind[n] == 'complex']
    arrays = [n for n in W.pool if W.kind[n] == 'array']
    op = rng.choice(['prim', 'prim', 'ccust', 'child_attrs', 'child_attrs_all', 'array', 'array_unwrapped', 'iterable',
                     'mandatory', 'mandatory', 'subclass', 'newclass', 'append', 'insert', 'array_cust', 'child_attrs_late', 'child_attrs_late'])
    if op == 'child_attrs_late':
        # child_attrs for a field the class does not have yet: it is to be applied when that field is added - to this variant
        # (and the variants derived from it), to no other
        if not hasattr(W, 'late_req'):
            W.late_req, W.late_names = {}, []
        c = rng.choice(complexes)
        if c not in W.decl:
            return None
        free = [n for n in W.late_names if n not in getattr(W, 'late_used', set())]
        if free and rng.random() < .6:
            fn = rng.choice(free)
        else:
            fn = 'late_f%d' % step
            W.late_names.append(fn)
        root = c
        if fn in W.decl.get(c, ()):
            return None
        ca = rng.choice((dict(nillable=False), dict(min_occurs=1), dict(min_occurs=1, nillable=False)))
        W.log.append((step, op, c, fn, repr(ca)))
        name = W.fresh('V')
        new = W.pool[c].customize(type_name='%s_%sh%d' % (W.pool[c].get_type_name(), name, W.hist_id), child_attrs={fn: ca})
        W.add(name, new, 'complex', parents=[c], decl=list(W.decl[c]), base=W.base.get(c))
        W.late_req[name] = {fn: ca}
        return op, name, set(), {'parent': c}
    if op == 'prim':
        p = rng.choice(simple)
        f, g = rand_facets(rng, W.kind[p])
        # lifting a constraint the parent has is a request like any other: the new type carries exactly what was asked for
        lifted = []
        for k, none in (('pattern', None), ('values', []), ('max_len', decimal.Decimal('inf'))):
            if k in W.facets[p] and k not in f and rng.random() < .5:
                f[k] = none
                lifted.append(k)
        if lifted:
            W.R.count('constraints_lifted', len(lifted))
        kw = dict(f, **g)
        if not kw:
            kw = {'nillable': False}
            g = kw
        # attributes that describe how the value is stored (they end up in the shared-looking sqla_column_args pair)
        storage = {}
        if rng.random() < .2:
            storage = rng.choice(({'pk': True}, {'primary_key': True}, {'autoincrement': True}, {'onupdate': 'CASCADE'}, {'server_default': '0'},
                                  {'index': True}, {'unique': True}, {'pk': True, 'autoincrement': True}))
            W.R.count('storage_attributes_requested')
        W.log.append((step, 'prim', p, sorted(kw), 'lifted:%s' % ','.join(lifted), sorted(storage)))
        new = W.pool[p](**dict(kw, **storage))
        name = W.fresh('P')
        eff = dict(W.facets[p], **dict(f, **({'nillable': g['nillable']} if 'nillable' in g else {})))
        for k in lifted:
            del eff[k]
        W.add(name, new, W.kind[p], parents=[p], facets=eff)
        return op, name, set(), {'requested': kw, 'parent': p}
    if op == 'ccust':
        c = rng.choice(complexes + arrays)
        _, g = rand_facets(rng, 'complex')
        if not g:
            g = {'min_occurs': 1}
        W.log.append((step, 'ccust', c, sorted(g)))
        new = W.pool[c].customize(**g)
        name = W.fresh('V')
        W.add(name, new, W.kind[c], parents=[c], decl=list(W.decl[c]) if c in W.decl else None, base=W.base.get(c))
        return op, name, set(), {'requested': g, 'parent': c}
    if op in ('child_attrs', 'child_attrs_all'):
        c = rng.choice(complexes)
        if not W.decl[c]:
            return None
        if op == 'child_attrs':
            fld = rng.choice(W.decl[c])
            ca = {fld: rng.choice((dict(nillable=False), dict(min_occurs=1), dict(min_occurs=1, nillable=False)))}
            kw = {'child_attrs': ca}
        else:
            kw = {'child_attrs_all': rng.choice((dict(nillable=False), dict(min_occurs=1)))}
        W.log.append((step, op, c, repr(kw)))
        name = W.fresh('V')
        # a variant whose children differ is a different XSD type: the documented use is to name it
        new = W.pool[c].customize(type_name='%s_%sh%d' % (W.pool[c].get_type_name(), name, W.hist_id), **kw)
        W.add(name, new, 'complex', parents=[c], decl=list(W.decl[c]), base=W.base.get(c))
        if op == 'child_attrs_all':
            if not hasattr(W, 'caa_req'):
                W.caa_req = {}
            W.caa_req[name] = dict(kw['child_attrs_all'])
        return op, name, set(), {'requested': kw, 'parent': c}
    if op in ('array', 'array_unwrapped', 'iterable'):
        t = rng.choice(list(W.pool))
        W.log.append((step, op, t))
        if op == 'array':
            kw = rng.choice(({}, {'min_occurs': 1}, {'nillable': False}))
            new = Array(W.pool[t], **kw)
            kind = 'array'
        elif op == 'iterable':
            new = Iterable(W.pool[t])
            kind = 'array'
        else:
            new = Array(W.pool[t], wrapped=False)
            kind = W.kind[t]
        name = W.fresh('A')
        W.add(name, new, kind, parents=[t] if op == 'array_unwrapped' else [], facets=dict(W.facets[t]) if t in W.facets else None,
              decl=list(W.decl[t]) if (op == 'array_unwrapped' and t in W.decl) else None, base=W.base.get(t) if op == 'array_unwrapped' else None)
        return op, name, set(), {'parent': t}
    if op == 'array_cust':
        if not arrays:
            return None
        a = rng.choice(arrays)
        W.log.append((step, op, a))
        new = W.pool[a].customize(serializer_attrs=dict(min_occurs=1))
        name = W.fresh('A')
        W.add(name, new, 'array')
        return op, name, set(), {'parent': a}
    if op == 'mandatory':
        t = rng.choice(list(W.pool))
        longer = [n for n in W.pool if W.kind[n] == 'Unicode' and (W.facets.get(n) or {}).get('min_len', 0) > 1]
        if longer and rng.random() < .3:
            t = rng.choice(longer)          # a string type that already wants more than one character
        W.log.append((step, op, t))
        new = Mandatory(W.pool[t])
        name = W.fresh('M')
        f = dict(W.facets[t]) if t in W.facets else None
        if f is not None:
            f['nillable'] = False
        if f is not None and W.kind[t] == 'Unicode':
            f['min_len'] = max(1, f.get('min_len', 0))       # (at least one character, never weaker than the original)
        W.add(name, new, W.kind[t], parents=[t], facets=f, decl=list(W.decl[t]) if t in W.decl else None, base=W.base.get(t))
        return op, name, set(), {'parent': t, 'mandatory': True}
    if op in ('subclass', 'newclass'):
        name = W.fresh('S' if op == 'subclass' else 'N')
        nf = rng.randint(1, 3)
        fields = {}
        base = rng.choice([c for c in complexes if W.is_root.get(c)]) if op == 'subclass' else None
        taken = set(W.flat_order(base)) if base else set()
        for i in range(nf):
            fn = 'f%d_%s' % (i, name.lower())
            if fn in taken:
                continue
            fields[fn] = W.pool[rng.choice(list(W.pool))]
        if not fields:
            return None
        W.log.append((step, op, base, sorted(fields)))
        d = {'__namespace__': 'urn:vf:c15'}
        d.update(fields)
        new = type('%sh%d' % (name, W.hist_id), (W.pool[base] if base else ComplexModel,), d)
        W.add(name, new, 'complex', parents=[base] if base else [], decl=list(fields), base=base, root=True)
        return op, name, set(), {'parent': base}
    if op in ('append', 'insert'):
        roots = [c for c in complexes if W.is_root.get(c)]
        if not roots:
            return None
        c = rng.choice(roots)
        fn = 'late%d' % step
        pend = [n for n in getattr(W, 'late_names', []) if n not in getattr(W, 'late_used', set()) and any(
            n in W.late_req.get(k, {}) for k in W.pool if k in W.decl and _is_variant_of(W, k, c))]
        if pend and rng.random() < .7:
            fn = rng.choice(pend)
            if not hasattr(W, 'late_used'):
                W.late_used = set()
            W.late_used.add(fn)          # a field name is added once in a history
        t = rng.choice(simple)
        exp = {c} | W.descendants(c)
        if op == 'append':
            W.log.append((step, 'append', c, fn, t))
            W.pool[c].append_field(fn, W.pool[t])
            idx = None
        else:
            idx = rng.randint(0, len(W.decl[c]))
            W.log.append((step, 'insert', c, fn, t, idx))
            W.pool[c].insert_field(idx, fn, W.pool[t])
        for k in exp:
            if k in W.decl and (k == c or _is_variant_of(W, k, c)):
                if idx is None:
                    W.decl[k].append(fn)
                else:
                    W.decl[k].insert(idx, fn)
        return op, None, exp, {'target': c, 'field': fn, 'type': t}
    return None


def late_expectation(W, k, c, fn):
    """child_attrs requested for field fn along the customize chain from c down to k (nearest request wins per attribute)"""
    chain = []
    x = k
    guard = 0
    while x != c and guard < 50:
        guard += 1
        chain.append(x)
        ps = [p for p in W.parents.get(x, ()) if p == c or _is_variant_of(W, p, c)]
        if not ps:
            break
        x = ps[0]
    # child_attrs_all also covers fields added later; the child_attrs requests for the named field are applied on top. Requests
    # accumulate along the chain, attribute by attribute, exactly as they do for a member that exists when they are made
    # (order_of_requests() holds the two orders against each other)
    caa, ca = None, {}
    for x in reversed(chain):
        if x in getattr(W, 'caa_req', {}):
            caa = dict(caa or {}, **W.caa_req[x])
        if fn in getattr(W, 'late_req', {}).get(x, {}):
            ca.update(W.late_req[x][fn])
    out = dict(caa or {})
    out.update(ca)
    return out


def _is_variant_of(W, k, c):
    """k was obtained from c by customize steps only (shares c's own fields)."""
    seen = set()
    work = [k]
    while work:
        x = work.pop()
        if x == c:
            return True
        for p in W.parents.get(x, ()):
            if p not in seen and not (W.is_root.get(x) and W.base.get(x) == p):
                seen.add(p)
                work.append(p)
    return False


def check_order(W, step):
    """declaration order everywhere, for every complex model of the pool."""
    R = W.R
    for n, m in W.pool.items():
        if W.kind[n] != 'complex' or n not in W.decl:
            continue
        R.count('order_checks')
        own = list(m._type_info.keys())
        exp_flat = W.flat_order(n)
        try:
            flat = list(m.get_flat_type_info(m).keys())
        except Exception as e:
            flat = None
        if flat is not None and flat != exp_flat:
            viol(W, 'flat type info order of %s is %r, declaration order (parents first) is %r' % (n, flat, exp_flat),
                 'field_order:flat', step)
        # own _type_info: own fields in order (variants of subclasses carry own fields only or all: accept either)
        if own != list(W.decl[n]) and own != exp_flat:
            viol(W, 'type info order of %s is %r, declared %r' % (n, own, W.decl[n]), 'field_order:type_info', step)


def _long_lived_outputs(W, step, n, m, inst, vals, want):
    from lxml import etree
    R = W.R
    # the same through protocol instances that live as long as the history (they have written earlier states of the class)
    if not hasattr(W, 'prots'):
        from spyne.protocol.json import JsonDocument
        from spyne.protocol.yaml import YamlDocument
        from spyne.protocol.msgpack import MessagePackDocument
        from spyne.protocol.xml import XmlDocument
        W.prots = {'json': JsonDocument(), 'yaml': YamlDocument(), 'msgpack': MessagePackDocument(), 'xml': XmlDocument()}
    for pn, prot in sorted(W.prots.items()):
        try:
            if pn == 'xml':
                par = etree.Element('r')
                prot.to_parent(None, m, inst, par, m.get_namespace() or 'urn:x')
                got = [etree.QName(c).localname for c in par[0]]
            else:
                d = prot._object_to_doc(m, inst)
                got = [k.decode() if isinstance(k, bytes) else k for k in d.keys()] if isinstance(d, dict) else None
        except Exception as e:
            R.skip('%s output through a long-lived protocol not producible: %s' % (pn, type(e).__name__))
            continue
        if got is None:
            continue
        R.count('long_lived_protocol_outputs')
        if [k for k in got if k in vals] != want:
            viol(W, '%s output of %s through a protocol instance that has served the class before lists fields %r, expected %r' % (
                pn, n, got, want), 'field_order:long_lived_protocol:%s' % pn, step)


def check_outputs(W, step, fresh=True):
    """field order in schema sequence and protocol output for a few models."""
    from spyne.util.dictdoc import get_object_as_json, get_object_as_simple_dict
    from spyne.util.xml import get_object_as_xml
    from lxml import etree
    R = W.R
    names = [n for n in W.pool if W.kind[n] == 'complex' and n in W.decl]
    fresh_too = set(W.rng.sample(names, min(3, len(names)))) if fresh else set()
    for n in names:     # (every class at every step through the long-lived protocols; a sample of them through fresh ones)
        m = W.pool[n]
        if m.Attributes.max_occurs != 1:
            continue
        exp = W.flat_order(n)
        vals = {}
        ftypes = m.get_flat_type_info(m)
        for k in exp:
            t = ftypes.get(k)
            if t is None:
                continue
            v = sample_value(W, t)
            if v is not None:
                vals[k] = v
        if len(vals) < 2:
            continue
        try:
            inst = m(**vals)
        except Exception:
            continue
        want = [k for k in exp if k in vals]
        _long_lived_outputs(W, step, n, m, inst, vals, want)
        if n not in fresh_too:
            continue
        try:
            js = get_object_as_json(inst, m, complex_as=dict)
            got = [k for k, _ in json.loads(js if isinstance(js, str) else b''.join(js) if not isinstance(js, bytes) else js,
                                            object_pairs_hook=lambda p: p)]
            R.count('output_order_checks')
            if [k for k in got if k in vals] != want:
                viol(W, 'JSON output of %s lists fields %r, declaration order %r' % (n, got, want), 'field_order:json', step)
        except Exception as e:
            R.skip('json output not producible: %s' % type(e).__name__)
        try:
            el = get_object_as_xml(inst, m)
            got = [etree.QName(c).localname for c in el]
            R.count('output_order_checks')
            if [k for k in got if k in vals] != want:
                viol(W, 'XML output of %s lists fields %r, declaration order %r' % (n, got, want), 'field_order:xml', step)
        except Exception as e:
            R.skip('xml output not producible: %s' % type(e).__name__)


def sample_value(W, t):
    from spyne import Integer, Unicode, Decimal, Date, Boolean
    try:
        if t.Attributes.max_occurs not in (1,):
            return None
        if issubclass(t, Boolean):
            return True
        if issubclass(t, Integer):
            return 5
        if issubclass(t, Decimal):
            return decimal.Decimal('1.5')
        if issubclass(t, Unicode):
            return 'ab'
        if issubclass(t, Date):
            return datetime.date(2020, 1, 1)
    except Exception:
        return None
    return None


def run_history(R, seed, hist_id, steps, with_schema=True):
    rng = core.rng_for(seed, PROP, 'hist%d' % hist_id)
    W = World(rng, R, hist_id)
    W.seed = seed
    seed_pool(W)
    before = W.snap_all()
    sch_before = render_schemas(W.pool) if with_schema else {}
    for step in range(steps):
        try:
            r = do_step(W, step)
        except Exception as e:
            R.skip('operation raised %s' % type(e).__name__)
            W.log.append((step, 'raised', repr(e)[:100]))
            # even a rejected operation must leave the pool alone: re-baseline without judging
            before = W.snap_all()
            sch_before = render_schemas(W.pool) if with_schema else {}
            continue
        if r is None:
            continue
        op, newname, expected, info = r
        R.evaluations += 1
        R.count('steps')
        after = W.snap_all()
        sch_after = render_schemas(W.pool) if with_schema else {}
        if with_schema:
            R.count('schema_renders')
        R.count('pool_comparisons')
        # frame condition
        for k in before:
            d = snap_diff(before[k], after[k])
            if with_schema and '__error__' not in sch_before and '__error__' not in sch_after:
                sb, sa = sch_before.get(k), sch_after.get(k)
                if sb != sa and not (isinstance(sb, dict) and isinstance(sa, dict) and _only_naming(sb, sa, before[k]['tn'])):
                    d.append('schema')
            if not d:
                continue
            if k in expected:
                continue
            viol(W, '%s changed model %s (%s): sections %s' % (op, k, W.kind[k], d), mech_frame(op, W.kind[k], d, info, k, W), step,
                 op=op, changed=k, sections=d)
        # expected propagation of added fields
        if op in ('append', 'insert'):
            fn = info['field']
            for k in expected:
                m = W.pool[k]
                try:
                    present = fn in m.get_flat_type_info(m)
                except Exception:
                    present = fn in m._type_info
                if not present:
                    viol(W, 'field %s added to %s is missing from its %s %s' % (fn, info['target'], 'variant' if _is_variant_of(W, k, info['target']) else 'descendant', k),
                         'added_field_missing_in_variant', step)
                    continue
                # pending child_attrs: applied to the variants that asked for them, and to those only
                if fn in getattr(W, 'late_names', ()) and k in W.decl and (k == info['target'] or _is_variant_of(W, k, info['target'])):
                    want = late_expectation(W, k, info['target'], fn) if k != info['target'] else {}
                    try:
                        ft = m.get_flat_type_info(m)[fn]
                    except Exception:
                        continue
                    base_t = W.pool[info['type']]
                    R.count('late_child_attrs_checked')
                    for a in ('nillable', 'min_occurs'):
                        exp_v = want.get(a, getattr(base_t.Attributes, a))
                        got_v = getattr(ft.Attributes, a)
                        if got_v != exp_v:
                            viol(W, 'field %s added to %s: in variant %s it has %s=%r, the child_attrs requested along its derivation say %r' % (
                                fn, info['target'], k, a, got_v, exp_v), 'late_child_attrs_%s' % ('leaked' if a not in want else 'lost'), step)
        # the new model carries what was requested and nothing else
        if newname is not None and 'requested' in info:
            check_new(W, step, op, newname, info)
        check_order(W, step)
        if step % 3 == 0 or op in ('append', 'insert'):
            check_outputs(W, step, fresh=False)
        R.nontrivial(op, W.kind.get(newname or info.get('target')), tuple(sorted(map(str, info.get('requested', {})))))
        before = after
        if newname is not None and with_schema and '__error__' not in sch_after:
            pass
        sch_before = sch_after
    check_outputs(W, steps)
    if len(R.samples) < 3:
        R.sample({'history': hist_id, 'operations': [list(map(str, l)) for l in W.log[:14]], 'pool_size': len(W.pool)})
    return W


def _only_naming(sb, sa, tn_before):
    same = sb.get('def') == sa.get('def') and sb.get('seq') == sa.get('seq') and sb.get('occ') == sa.get('occ')
    if tn_before is None:
        return same           # the name was not assigned yet: it may be filled in (once)
    return same and sb.get('type') == sa.get('type')


def mech_frame(op, kind, sections, info, changed, W):
    if op == 'mandatory' and W.kind.get(info.get('parent')) == 'array' and changed == info.get('parent'):
        return 'mandatory_array_mutates_original'
    if sorted(s.split(':')[0] for s in sections) == ['schema'] and W.kind.get(changed) == 'complex':
        # child_attrs / child_attrs_all on a subclass make spyne customise the BASE class as well, without giving the copy a
        # type name of its own: two different classes then answer to the base's type name, and which of them the schema
        # generator writes under that name depends on what else exists
        k = W.pool[changed]
        for m in W.pool.values():
            try:
                e = getattr(m, '__extends__', None)
                if e is not None and e is not k and getattr(e, '__orig__', None) is not None and e.get_type_name() == k.get_type_name() \
                        and (e.__orig__ is k or getattr(e.__orig__, '__orig__', None) is k or issubclass(e, k)):
                    return 'anonymous_customized_base_shares_type_name'
            except Exception:
                continue
    return 'frame:%s:%s' % (op, ','.join(sorted(s.split(':')[0] for s in sections)))


def check_new(W, step, op, newname, info):
    new = W.pool[newname]
    parent = W.pool[info['parent']]
    req = info['requested']
    A = new.Attributes
    for k, v in req.items():
        if k in ('child_attrs', 'child_attrs_all'):
            continue
        got = getattr(A, k, None)
        if k == 'max_occurs' and v == 'unbounded':
            ok = got == decimal.Decimal('inf')
        elif k == 'pattern':
            ok = got == v or getattr(got, 'pattern', None) == v
        elif k == 'values':
            ok = set(got) == set(v)
        else:
            ok = got == v
        if not ok:
            viol(W, '%s: requested %s=%r, new model has %r' % (op, k, v, got), 'requested_constraint_missing:%s' % k, step)
    # ... and nothing else: what was not asked for is what the parent has
    if op == 'prim':
        PA = parent.Attributes
        for k in ('gt', 'ge', 'lt', 'le', 'max_str_len', 'total_digits', 'fraction_digits', 'min_len', 'max_len', 'pattern', 'values',
                  'nillable', 'min_occurs', 'max_occurs', 'default', 'format', 'encoding'):
            if k in req or not hasattr(PA, k):
                continue
            if k == 'max_str_len' and 'total_digits' in req:
                continue        # (documented: derived from total_digits)
            W.R.count('unrequested_attributes_compared')
            a, b = getattr(PA, k), getattr(A, k, None)
            if k == 'values':
                a, b = set(a or ()), set(b or ())
            if a != b and getattr(a, 'pattern', a) != getattr(b, 'pattern', b):
                viol(W, '%s asking for %r changed %s from %r to %r' % (op, sorted(req), k, a, b), 'unrequested_constraint_changed:%s' % k, step)
    if 'child_attrs' in req:
        for fld, ca in req['child_attrs'].items():
            ft = new._type_info[fld]
            for k, v in ca.items():
                if getattr(ft.Attributes, k, None) != v:
                    viol(W, 'child_attrs: field %s of new model lacks %s=%r' % (fld, k, v), 'child_attrs_not_applied', step)
    if 'child_attrs_all' in req:
        for fld, ft in new._type_info.items():
            for k, v in req['child_attrs_all'].items():
                if getattr(ft.Attributes, k, None) != v:
                    viol(W, 'child_attrs_all: field %s of new model lacks %s=%r' % (fld, k, v), 'child_attrs_all_not_applied', step)
    # validation verdicts = reference validator on the effective facets
    kind = W.kind[newname]
    if newname in W.facets and kind in ('Integer', 'Decimal', 'Unicode'):
        for v in PROBES:
            exp = ref_accepts(kind, W.facets[newname], v)
            if exp is None:
                continue
            try:
                got = bool(new.validate_native(new, v))
                if kind == 'Unicode':    # length facets live in validate_string, pattern in validate_native
                    got = got and bool(new.validate_string(new, v))
            except Exception:
                continue
            W.R.count('verdict_checks')
            if got != exp:
                viol(W, '%s: new %s with facets %r: validate_native(%r)=%s, constraints say %s' % (op, kind, W.facets[newname], v, got, exp),
                     'derived_constraints_verdict', step)
    # fields identical to the parent's (same order)
    if W.kind[newname] == 'complex' and 'child_attrs' not in req and 'child_attrs_all' not in req:
        if list(new._type_info.keys()) != list(parent._type_info.keys()):
            viol(W, '%s: new model fields %r differ from parent %r' % (op, list(new._type_info.keys()), list(parent._type_info.keys())),
                 'derived_fields_differ', step)


def final_digest(W):
    """order-relevant observables of the final pool, for cross-hash-seed comparison"""
    out = {}
    for n, m in sorted(W.pool.items()):
        if W.kind[n] == 'complex':
            try:
                out[n] = [list(m._type_info.keys()), list(m.get_flat_type_info(m).keys())]
            except Exception as e:
                out[n] = 'ERR'
    sch = render_schemas(W.pool)
    out['__schema_seq__'] = {k: (v.get('seq') if isinstance(v, dict) else v) for k, v in sorted(sch.items())}
    return out


ALIAS_POOL = [dict(max_len=10), dict(nillable=False), dict(min_occurs=1), dict(min_len=2, max_len=8),
              {'s': dict(min_len=1)}, {'t': dict(max_len=5), 's': dict(nillable=False)}, {'n': dict(min_occurs=1)}]
ALIAS_ATTRS = ('nillable', 'min_occurs', 'max_occurs', 'exc', 'max_len', 'min_len', 'default', 'pattern')


def aliasing_world(seedval, share):
    """A short history of customize() calls whose dict arguments are either the same few objects handed in again and again
    (what module-level constants are) or private deep copies of them; then fields are added to the roots.
    -> description of every field of every variant"""
    import copy
    import random
    from spyne import ComplexModel, Unicode, Integer
    r = random.Random(seedval)
    pool = copy.deepcopy(ALIAS_POOL)
    pick = (lambda i: pool[i]) if share else (lambda i: copy.deepcopy(ALIAS_POOL[i]))
    tag = '%x%s' % (seedval & 0xffffff, 's' if share else 'c')
    roots = [type('AR%d_%s' % (i, tag), (ComplexModel,), {'__namespace__': 'urn:vf:c15a', 's': Unicode, 't': Unicode, 'n': Integer})
             for i in range(3)]
    variants = []
    log = []
    for step in range(r.randint(2, 7)):
        c = r.choice(roots + variants)
        kw = {}
        for which in r.sample(['child_attrs_all', 'child_attrs', 'child_attrs_noexc'], r.randint(1, 2)):
            kw[which] = pick(r.randrange(0, 4) if which == 'child_attrs_all' else r.randrange(4, 7))
        log.append((roots.index(c) if c in roots else 'v%d' % variants.index(c), sorted((k, ALIAS_POOL.index(v) if v in ALIAS_POOL else repr(v))
                                                                                   for k, v in kw.items())))
        try:
            variants.append(c.customize(type_name='AV%d_%s' % (step, tag), **kw))
        except Exception as e:
            log.append(('raised', type(e).__name__))
    for i, root in enumerate(roots):
        root.append_field('later', Unicode)
        if r.random() < .5:
            root.insert_field(0, 'first', Integer)
    desc = []
    for v in roots + variants:
        fl = v.get_flat_type_info(v)
        desc.append([(k, [repr(getattr(t.Attributes, a, None)) for a in ALIAS_ATTRS]) for k, t in fl.items()])
    return desc, log, pool


def aliasing(R, seed, h):
    """handing customize() the same dict object twice is the same as handing it two equal dicts"""
    for i in range(12):
        seedval = (seed * 1000003 + h * 101 + i) & 0x7fffffff
        try:
            a, log, pool = aliasing_world(seedval, True)
            b, _, _ = aliasing_world(seedval, False)
        except Exception as e:
            R.skip('aliasing scenario raised %s' % type(e).__name__)
            continue
        R.evaluations += 1
        R.count('aliasing_scenarios')
        if a != b:
            where = [(vi, x[0], [ALIAS_ATTRS[j] for j in range(len(ALIAS_ATTRS)) if x[1][j] != y[1][j]])
                     for vi, (fa, fb) in enumerate(zip(a, b)) for x, y in zip(fa, fb) if x != y][:4]
            R.violation('customize() calls that are handed the same argument objects again produce other types than the same calls '
                        'handed equal copies: (model index, field, attributes) %r; calls %r' % (where, log),
                        {'seed': seed, 'history': h, 'aliasing': i, 'seedval': seedval}, mech='argument_aliasing:%s' % ','.join(sorted(set(
                            a_ for w in where for a_ in w[2]))))
        else:
            R.nontrivial('aliasing', len(log), tuple(sorted(set(k for _, kws in log if isinstance(kws, list) for k, _ in kws))))


def order_of_requests(R, seed):
    """Metamorphic: a constraint asked for before a member exists must end up the same as when it is asked for afterwards; a derived type asked
    to admit more than its parent must admit it; adding a member never fails because of what was derived before. Chains of variants
    (a variant of a variant), child_attrs and child_attrs_all, append_field and insert_field, members of the class's own type."""
    import itertools
    import decimal as _d
    from spyne import ComplexModel, Unicode, Integer, Decimal, Array
    rng = core.rng_for(seed, PROP, 'order_of_requests')
    n = [0]

    def fresh(members):
        n[0] += 1
        return type('OR%d' % n[0], (ComplexModel,), dict(members, __namespace__='urn:vf:c15:or'))

    def attrs_of(cls, member, names):
        t = cls._type_info.get(member)
        if t is None:
            return 'MISSING'
        return tuple((k, getattr(t.Attributes, k)) for k in names)
    requests = [dict(min_occurs=1), dict(nillable=False), dict(max_len=3), dict(min_occurs=1, nillable=False), dict(min_len=1)]
    names = ('min_occurs', 'nillable', 'max_len', 'min_len')
    for chain_len, how, adder in itertools.product((1, 2, 3), ('child_attrs', 'child_attrs_all'), ('append', 'insert')):
        for rep in range(3):
            reqs = [rng.choice(requests) for _ in range(chain_len)]
            R.evaluations += 1
            case = {'scenario': 'order_of_requests', 'seed': seed, 'chain': reqs, 'how': how, 'adder': adder}

            def derive(root):
                out, cur = [], root
                for r in reqs:
                    cur = cur.customize(**({'child_attrs': {'late': r}} if how == 'child_attrs' else {'child_attrs_all': r}))
                    out.append(cur)
                return out
            # member first, then the derivations
            A = fresh({'a': Unicode, 'late': Unicode})
            want = [attrs_of(v, 'late', names) for v in derive(A)]
            # derivations first, then the member
            B = fresh({'a': Unicode})
            vs = derive(B)
            try:
                if adder == 'append':
                    B.append_field('late', Unicode)
                else:
                    B.insert_field(1, 'late', Unicode)
            except Exception as e:
                R.violation('adding a member after %d derivation(s) raised %s: %s' % (chain_len, type(e).__name__, str(e)[:100]), case,
                            mech='late_member:add_raises:%s' % type(e).__name__)
                continue
            got = [attrs_of(v, 'late', names) for v in vs]
            R.count('order_of_requests_compared')
            R.nontrivial('order_of_requests', chain_len, how, adder, tuple(sorted(k for r in reqs for k in r)))
            for i, (g, w) in enumerate(zip(got, want)):
                if g != w:
                    R.violation('variant %d of a chain of %d (%s, %s): member added later has %r, member present from the start has %r' % (i + 1, chain_len, how, adder, g, w),
                                case, mech='late_member:%s:differs_from_early:%s' % (how, 'first_variant' if i == 0 else 'variant_of_variant'))
                    break
    # a member of the class's own type (and of a variant's), added while variants exist
    for kind in ('own', 'array_of_own', 'variant'):
        for pre in ('child_attrs_all', 'plain_customize', 'none'):
            R.evaluations += 1
            X = fresh({'a': Unicode})
            V = X.customize(child_attrs_all=dict(min_occurs=1)) if pre == 'child_attrs_all' else X.customize(min_occurs=1) if pre == 'plain_customize' else None
            ft = X if kind == 'own' else Array(X) if kind == 'array_of_own' else (V if V is not None else X)
            case = {'scenario': 'order_of_requests', 'seed': seed, 'self_member': kind, 'variants': pre}
            try:
                X.append_field('p', ft)
            except Exception as e:
                R.violation('append_field of a member of the class\'s own type (%s) with variants (%s) raised %s: %s' % (kind, pre, type(e).__name__, str(e)[:100]), case,
                            mech='self_member:add_raises:%s' % type(e).__name__)
                continue
            R.count('self_members_added')
            missing = [c.__name__ for c in (X, V) if c is not None and 'p' not in c._type_info]
            if missing:
                R.violation('after append_field the member is missing from %s' % missing, case, mech='self_member:missing_from_variant')
                continue
            # every registered variant of the class has the member - also the ones that came to be while it was added (the types of
            # the member itself in the variants), to any depth a document can reach
            regs = [c for c in (X.Attributes._variants or {})]
            lacking = [repr(c) for c in regs if 'p' not in c._type_info]
            def reach(cls, depth):
                t = cls._type_info.get('p')
                if t is None:
                    return depth
                inner = list(t._type_info.values())[0] if kind == 'array_of_own' and hasattr(t, '_type_info') and 'p' not in t._type_info else t
                return depth if depth >= 4 else reach(inner, depth + 1)
            shallow = [c.__name__ for c in (X, V) if c is not None and reach(c, 0) < 4]
            if lacking or shallow:
                R.violation('member of the class\'s own type (%s, variants: %s): %d registered variant(s) lack it; nesting stops early below %s' % (kind, pre, len(lacking), shallow),
                            case, mech='self_member:variant_created_meanwhile_lacks_member')
    # members that have a public name of their own (sub_name), given when they are declared or by the derivation: what a derivation asks of
    # such a member is what the protocols hold requests to, and a member renamed by a derivation is read under the name it is written under
    from lxml import etree as _et
    from spyne.protocol.xml import XmlDocument
    from spyne.protocol.json import JsonDocument
    px, pj = XmlDocument(validator='soft'), JsonDocument(validator='soft')

    def read_xml(cls, tag, text):
        try:
            o = px.from_element(None, cls, _et.fromstring('<C xmlns="urn:vf:c15:or"><%s>%s</%s></C>' % (tag, text, tag)))
            return ('ok', getattr(o, 'f', None))
        except Exception as e:
            return ('refused', type(e).__name__)

    def read_json(cls, key, text):
        try:
            o = pj._doc_to_object(None, cls, {key: text}, pj.validator)
            return ('ok', getattr(o, 'f', None))
        except Exception as e:
            return ('refused', type(e).__name__)
    for req, bad, good in ((dict(max_len=3), 'toolong', 'ok'), (dict(pattern='[a-c]+'), 'xyz', 'abc'), (dict(min_len=2), 'a', 'ab'), (dict(values=['aa', 'bb']), 'cc', 'aa')):
        for declared_name in (None, 'F'):
            R.evaluations += 1
            C = fresh({'f': Unicode(sub_name=declared_name) if declared_name else Unicode})
            V = C.customize(child_attrs={'f': req})
            name = declared_name or 'f'
            case = {'scenario': 'order_of_requests', 'seed': seed, 'public_name': declared_name, 'request': sorted(req)}
            for reader, rname in ((read_xml, 'xml'), (read_json, 'json')):
                vb, vg = reader(V, name, bad), reader(V, name, good)
                R.count('public_name_reads')
                if vb[0] != 'refused' or vg != ('ok', good):
                    R.violation('%s: member f (public name %r) of a variant derived with child_attrs=%r: %r is %s, %r is %s' % (rname, declared_name, req, bad, vb, good, vg), case,
                                mech='child_attrs_not_applied_to_member_with_public_name' if declared_name else 'child_attrs_not_applied')
        # the member with a public name is inherited: a variant of the subclass reads it like the subclass does, whichever member the derivation is about
        for about in ('g', 'f'):
            R.evaluations += 1
            Base = fresh({'f': Unicode(sub_name='F')})
            n[0] += 1
            Sub = type('OR%d' % n[0], (Base,), {'g': Unicode, '__namespace__': 'urn:vf:c15:or'})
            before = {rname: reader(Sub, 'F', good) for reader, rname in ((read_xml, 'xml'), (read_json, 'json'))}
            V = Sub.customize(child_attrs={about: req})
            case = {'scenario': 'order_of_requests', 'seed': seed, 'inherited_public_name': True, 'derivation_about': about, 'request': sorted(req)}
            for reader, rname in ((read_xml, 'xml'), (read_json, 'json')):
                R.count('public_name_reads')
                now, via_v, bad_v = reader(Sub, 'F', good), reader(V, 'F', good), reader(V, 'F', bad)
                if now != before[rname] or now != ('ok', good):
                    R.violation('%s: the subclass reads its inherited member <F> as %r, before a variant was derived as %r' % (rname, now, before[rname]), case,
                                mech='frame:inherited_public_name_member_of_original')
                elif via_v != ('ok', good):
                    R.violation('%s: variant of a subclass (child_attrs about %r) reads the inherited member <F>%s as %r; the subclass itself gives %r' % (
                                rname, about, good, via_v, now), case, mech='variant_of_subclass_drops_inherited_public_name')
                elif about == 'f' and bad_v[0] != 'refused':
                    R.violation('%s: variant of a subclass with child_attrs for the inherited member <F>: %r is %r' % (rname, bad, bad_v), case,
                                mech='child_attrs_not_applied_to_inherited_member_with_public_name')
        # the derivation gives the member its public name
        R.evaluations += 1
        C = fresh({'f': Unicode})
        W = C.customize(child_attrs={'f': dict(req, sub_name='Renamed')})
        case = {'scenario': 'order_of_requests', 'seed': seed, 'renamed_by_derivation': True, 'request': sorted(req)}
        el = _et.Element('r')
        px.to_parent(None, W, W(f=good), el, 'urn:vf:c15:or')
        written_x = [c.tag.partition('}')[2] for c in el[0]]
        written_j = list(pj._object_to_doc(W, W(f=good)))
        for reader, rname, written in ((read_xml, 'xml', written_x), (read_json, 'json', written_j)):
            R.count('public_name_reads')
            if written != ['Renamed']:
                R.violation('%s: member renamed by child_attrs is written as %r' % (rname, written), case, mech='renamed_member:written_under_other_name')
                continue
            back, refused = reader(W, 'Renamed', good), reader(W, 'Renamed', bad)
            if back != ('ok', good) or refused[0] != 'refused':
                R.violation('%s: member renamed by child_attrs is written as <Renamed> but reading <Renamed>%s gives %r (and %r gives %r)' % (rname, good, back, bad, refused), case,
                            mech='renamed_member:not_read_back')
    # a derived number type that is asked to admit more digits than its parent
    for a, b in ((5, 8), (3, 4), (8, 5), (2, 30)):
        for fa, fb in ((0, 0), (2, 3), (0, 2)):
            R.evaluations += 1
            if fa > a or fb > b:
                continue
            D1 = Decimal(total_digits=a, fraction_digits=fa)
            D2 = D1.customize(total_digits=b, fraction_digits=fb)
            lit = '-' + '1' * (b - fb) + ('.' + '1' * fb if fb else '')
            case = {'scenario': 'order_of_requests', 'seed': seed, 'decimal': [a, fa, b, fb], 'literal': lit}
            R.count('decimal_rederivations')
            if lit.strip('-.') and not D2.validate_string(D2, lit):
                R.violation('Decimal(%d,%d).customize(total_digits=%d, fraction_digits=%d) refuses %r (max_str_len %r)' % (a, fa, b, fb, lit, D2.Attributes.max_str_len),
                            case, mech='requested_digits_not_admitted')
            if not D1.validate_string(D1, '-' + '1' * (a - fa) + ('.' + '1' * fa if fa else '')):
                R.violation('Decimal(%d,%d) refuses its own widest literal after a wider type was derived from it' % (a, fa), case, mech='frame:decimal_parent_changed')


def run(spec, R):
    if spec['first'] == 0:
        order_of_requests(R, spec['seed'])
    for h in range(spec['first'], spec['first'] + spec['histories']):
        aliasing(R, spec['seed'], h)
    steps_range = (30, 45) if spec['tier'] == 'quick' else (40, 80)
    seeds = (1, 2, 3) if spec['tier'] == 'quick' else (1, 2, 3, 4, 5, 6, 7)
    for h in range(spec['first'], spec['first'] + spec['histories']):
        rng = core.rng_for(spec['seed'], PROP, 'len%d' % h)
        steps = rng.randint(*steps_range)
        W = run_history(R, spec['seed'], h, steps, with_schema=(h % 2 == 0 or spec['tier'] == 'thorough'))
        # hash-seed replays: same history in fresh processes
        if h % 3 == 0:
            mine = final_digest(W)
            for hs in seeds:
                env = dict(os.environ, PYTHONHASHSEED=str(hs), PYTHONPATH=core.VERIF, VERIF_REPO=core.REPO)
                try:
                    p = subprocess.run([core.PY, '-B', '-m', 'checks.c15', 'digest', str(spec['seed']), str(h), str(steps)],
                                       cwd=core.VERIF, env=env, capture_output=True, text=True, timeout=300)
                    other = json.loads(p.stdout.strip().splitlines()[-1])
                except Exception as e:
                    R.inconclusive.append('hash-seed replay failed: %r' % e)
                    continue
                R.count('hashseed_replays')
                if other != json.loads(json.dumps(mine)):
                    diff = [k for k in mine if other.get(k) != json.loads(json.dumps(mine[k]))]
                    R.violation('field order / schema sequence of history %d differs under PYTHONHASHSEED=%d: %s' % (h, hs, diff[:5]),
                                {'history': h, 'seed': spec['seed'], 'hashseed': hs, 'steps': steps}, mech='field_order_hashseed')


def replay(v, R):
    c = v['repro']
    if c.get('scenario') == 'order_of_requests':
        order_of_requests(R, c['seed'])
        for x in R.violations[:10]:
            print('replayed:', x.get('mech'), x.get('what'))
        return
    steps = c.get('steps') or (c.get('step', 0) + 1)
    run_history(R, c['seed'], c['history'], steps + 1 if 'step' in c else steps)
    for x in R.violations[:10]:
        print('replayed:', x.get('mech'), x.get('what'))


def classify(v):
    return v.get('mech')


if __name__ == '__main__':
    if sys.argv[1] == 'digest':
        core.bootstrap()
        R = core.Result()
        W = run_history(R, int(sys.argv[2]), int(sys.argv[3]), int(sys.argv[4]), with_schema=False)
        print(json.dumps(final_digest(W)))
