"""C02 - dict-document wire fidelity (JSON, YAML, MessagePack, MessagePackRpc).

Same shape as C01 with the reference dict-document codec (vflib/refdict.py):
request built by the reference encoder from the documented conventions, call
recorder in the generated user function, response parsed by stdlib json /
yaml.safe_load / msgpack.unpackb and mapped back by the reference decoder.
"""
import base64

from vflib import core, drive, gen, refdict

PROP = 'C02'
LEVEL = 'exploration'
RULE = ('random universes x {JsonDocument, YamlDocument, MessagePackDocument (str and bin keys), MessagePackRpc} x ignore_wrappers x '
        'complex_as {dict, list (fully populated objects)} x validator {None, soft}; values incl. 2^63/2^64/2^70 integers, 40-digit '
        'decimals, every Unicode scalar class; non-trivial = function entered with a non-null argument or non-null return decoded; '
        'distinct by (configuration, argument/return shapes, value classes).'
        ' Also: polymorphic=True where the wrappers are kept (subclass instances), integers either side of every wire width in both signs, classes that contain themselves, Double ranges, prefix-alternation patterns.')
ASSUMPTIONS = [
    'reference codec vflib/refdict.py implements the documented conventions; decimals are sent as strings and accepted back as strings or numbers (numeric equality)',
    'complex_as=list is only used with fully populated objects (positional form)',
    'universes without XmlAttribute/XmlData (XML-only notions) and without default= values',
]
REQUIRED_COUNTERS = ('function_entered', 'args_compared', 'responses_decoded')
SHARD_TIMEOUT = {'quick': 900, 'thorough': 3000}

CONFS = []
for fmt in ('json', 'yaml', 'msgpack', 'msgpackrpc'):
    for iw in (True, False):
        for ca in ('dict', 'list'):
            for kb in ((False, True) if fmt.startswith('msgpack') else (False,)):
                CONFS.append((fmt, iw, ca, kb))


def shards(tier, seed):
    n = 16 if tier == 'quick' else 48
    per = 3 if tier == 'quick' else 12
    return [{'shard': 'u%d' % i, 'tier': tier, 'seed': seed, 'first': i * per, 'count': per} for i in range(n)]


def universe(seed, uid):
    rng = core.rng_for(seed, PROP, 'uni%d' % uid)
    return gen.rand_universe(rng, gen.Opts(attrs=False, text_alphabet='any', nested_arrays=0.15, sub_names=True, digits=True, self_refs=True, null_items=True, bare_prims=True), uid=uid)


def make_protocols(conf, validator):
    from spyne.protocol.json import JsonDocument
    from spyne.protocol.yaml import YamlDocument
    from spyne.protocol.msgpack import MessagePackDocument, MessagePackRpc
    kw = dict(ignore_wrappers=conf.ignore_wrappers, complex_as=dict if conf.complex_as == 'dict' else list)
    if conf.fmt == 'jsonrpc':
        from spyne.protocol.json import JsonRpc
        return JsonRpc('spyne', validator=validator, **kw), JsonRpc('spyne', **kw)
    c = {'json': JsonDocument, 'yaml': YamlDocument, 'msgpack': MessagePackDocument, 'msgpackrpc': MessagePackRpc}[conf.fmt]
    return c(validator=validator, **kw), c(**kw)


def dense_needed(conf):
    return conf.complex_as == 'list'


def run_call(R, C, md, args, rets, driver, repro):
    B, ir, conf, codec = C['B'], C['ir'], C['conf'], C['codec']
    try:
        doc = codec.request(md, args)
        data = codec.dumps(doc)
    except (refdict.NotConformant, TypeError, ValueError, OverflowError) as e:
        R.skip('request not expressible in %s: %s' % (conf.fmt, type(e).__name__))
        return
    R.evaluations += 1
    sp = [B.to_spyne(t, v) for t, v in zip(md['returns'], rets)]
    B.returns[md['name']] = sp[0] if len(sp) == 1 else (tuple(sp) if sp else None)
    B.calls[:] = []
    cfg = '%s|%s|%s' % (conf.name(), C['validator'], driver)
    repro = dict(repro, method=md['name'], driver=driver, conf=conf.name(), request_b64=base64.b64encode(data).decode(),
                 request_doc=repr(doc)[:1500])
    if driver == 'server':
        r = drive.drive_server(C['server'], data)
        exc, out, err, stage = r.exc, r.out, r.error, r.exc_stage
    else:
        env, inp = drive.make_environ('POST', '/', '', data, 'application/octet-stream')
        w = drive.call_wsgi(C['wsgi'](), env, inp)
        exc, out, stage = w.exc, w.body, w.exc_stage
        err = None
        if w.code is not None and w.code >= 400:
            try:
                f = refdict.fault_of(conf, codec.loads(out))
            except Exception:
                f = None
            err = type('F', (), {'faultcode': f[0] if f else w.status, 'faultstring': f[1] if f else out[:200]})()
    if exc is not None:
        R.violation('conformant request made %s raise %s: %s' % (stage, type(exc).__name__, str(exc)[:150]), repro,
                    mech=context_mech(C, md, 'escape:%s:%s' % (type(exc).__name__, drive.innermost_spyne_frame(exc)),
                                      'out' if stage in ('get_out_string', 'join', 'iterate') else 'in'), config=cfg)
        return
    names = [c[0] for c in B.calls]
    if err is not None:
        R.violation('conformant request answered with fault %s: %s' % (getattr(err, 'faultcode', err), str(getattr(err, 'faultstring', ''))[:200]),
                    repro, mech=context_mech(C, md, 'fault_on_conformant:%s:%s' % (conf.fmt, str(getattr(err, 'faultcode', err)).split(':')[-1]),
                                             'out' if names else 'in'), config=cfg, entered=names)
        return
    if names != [md['name']]:
        R.violation('user functions entered: %r, expected exactly [%r]' % (names, md['name']), repro, mech='invocation_count', config=cfg)
        return
    R.count('function_entered')
    got_args = B.calls[0][1]
    ok = True
    if len(got_args) != len(md['args']):
        R.violation('function received %d arguments, %d declared' % (len(got_args), len(md['args'])), repro, mech='arg_count', config=cfg)
        return
    for (an, at), sent, o in zip(md['args'], args, got_args):
        d = []
        R.count('args_compared')
        if not gen.veq(ir, at, sent, B.from_spyne(at, o), an, d):
            ok = False
            R.violation('argument %s differs: %s' % (an, '; '.join(d)[:300]), repro,
                        mech=context_mech(C, md, 'arg_differs:%s:%s' % (conf.fmt, mech_diff(at, d)), 'none'), config=cfg, tspec=at)
    try:
        rdoc = codec.loads(out)
        dec = codec.response(md, rdoc)
    except Exception as e:
        R.violation('response is not decodable by the documented conventions: %s: %s' % (type(e).__name__, str(e)[:200]),
                    dict(repro, response=repr(out[:600])), mech=context_mech(C, md, 'response_undecodable:%s:%s' % (conf.name(), type(e).__name__), 'out'), config=cfg)
        return
    R.count('responses_decoded')
    for i, (rt, sent, got) in enumerate(zip(md['returns'], rets, dec)):
        d = []
        if not gen.veq(ir, rt, sent, got, 'ret%d' % i, d):
            ok = False
            R.violation('return value %d differs: %s' % (i, '; '.join(d)[:300]), dict(repro, response=repr(out[:600])),
                        mech=context_mech(C, md, 'ret_differs:%s:%s' % (conf.fmt, mech_diff(rt, d)), 'none'), config=cfg, tspec=rt)
    if ok:
        nn = any(a is not None for a in args) or any(r is not None for r in rets)
        if nn:
            R.nontrivial(cfg, md['style'], tuple(gen.shape(t) for _, t in md['args']), tuple(gen.shape(t) for t in md['returns']),
                         tuple(gen.vclass(a) for a in args), tuple(gen.vclass(r) for r in rets))
        R.cell(cfg)
        if len(R.samples) < 3 and nn:
            R.sample({'config': cfg, 'method': md, 'request': repr(data[:400]), 'response': repr(out[:300])})


def has_nested_array(t):
    if 'array' in t:
        return 'array' in t['array'] or has_nested_array(t['array'])
    for k in ('seq', 'attr', 'xmldata'):
        if k in t:
            return has_nested_array(t[k])
    return False


def nested_in(ir, t, seen=None):
    seen = seen if seen is not None else set()
    if has_nested_array(t):
        return True
    if 'ref' in t:
        if t['ref'] in seen:
            return False
        seen.add(t['ref'])
        return any(nested_in(ir, ft, seen) for _, ft in gen.all_fields(ir, t['ref'])) or \
            any(nested_in(ir, {'ref': x['name']}, seen) for x in ir['types'] if x['base'] == t['ref'])
    for k in ('array', 'seq'):
        if k in t:
            return nested_in(ir, t[k], seen)
    return False


def context_mech(C, md, base, side):
    """known-mechanism context: MessagePackRpc serves wrapped methods only - with a bare or out-bare method neither its requests nor its
    responses work at all (the whole configuration is the finding, whatever the symptom)"""
    ir, conf = C['ir'], C['conf']
    if conf.fmt == 'msgpackrpc' and md['style'] != 'wrapped':
        return 'msgpackrpc_bare_styles_unsupported'
    return base


def mech_diff(t, diffs):
    d = diffs[0] if diffs else ''
    cls = 'none_vs_value' if ('expected None' in d or 'got None' in d or "got 'None'" in d or "expected 'None'" in d) else \
        'items' if 'items' in d else 'class' if 'class' in d else 'value'
    return '%s:%s' % (gen.shape(t)[:30], cls)


def run_universe(R, seed, uid, tier):
    from spyne.server import ServerBase
    from vflib import refval
    ir = universe(seed, uid)
    rng = core.rng_for(seed, PROP, 'vals%d' % uid)
    confs = list(CONFS)
    rng.shuffle(confs)
    confs = confs[:6 if tier == 'quick' else 14]
    ncalls = 3 if tier == 'quick' else 5
    for fmt, iw, ca, kb in confs:
        conf = refdict.Conf(fmt, iw, ca, kb)
        validator = rng.choice((None, 'soft'))
        # with the wrappers kept the wrapper key is a type marker: the polymorphic setting makes both sides honour it
        poly = (not iw) and ca == 'dict' and fmt != 'msgpackrpc' and rng.random() < .5
        try:
            B = gen.Built(ir)
            inp, outp = make_protocols(conf, validator)
            if poly:
                inp.polymorphic = outp.polymorphic = True
                R.count('polymorphic_apps')
            app = B.app(inp, outp)
            server = ServerBase(app)
        except Exception as e:
            R.skip('universe rejected at construction: %s' % type(e).__name__)
            R.count('universe_rejected_at_construction')
            continue
        holder = {}

        def wsgi():
            if 'w' not in holder:
                from spyne.server.wsgi import WsgiApplication
                holder['w'] = WsgiApplication(app)
            return holder['w']
        C = {'B': B, 'ir': ir, 'conf': conf, 'codec': refdict.Codec(ir, conf), 'server': server, 'wsgi': wsgi, 'validator': validator}
        R.count('apps_built')
        for sd in ir['services']:
            for md in sd['methods']:
                for k in range(ncalls):
                    if dense_needed(conf):
                        args = [refval.dense_value(rng, ir, t) for _, t in md['args']]
                        rets = [refval.dense_value(rng, ir, t) for t in md['returns']]
                        if not all(fully_populated(ir, t, v) for (_, t), v in zip(md['args'], args)) or \
                                not all(fully_populated(ir, t, v) for t, v in zip(md['returns'], rets)):
                            R.skip('object not fully populated (positional form needs every member)')
                            continue
                    else:
                        args = [gen.gen_value(rng, ir, t, top=(md['style'] == 'bare'), alphabet='any', subclass_ok=poly) for _, t in md['args']]
                        rets = [gen.gen_value(rng, ir, t, top=(md['style'] != 'wrapped'), alphabet='any', subclass_ok=poly) for t in md['returns']]
                    if poly:
                        # the key of a bare message is the method's name, not a type marker: the message object itself is of the declared class
                        def exact(t, v):
                            return not (isinstance(v, dict) and 'ref' in t and v.get('__class__', t['ref']) != t['ref'])
                        if md['style'] == 'bare' and not all(exact(t, v) for (_, t), v in zip(md['args'], args)):
                            args = [gen.gen_value(rng, ir, t, top=True, alphabet='any') for _, t in md['args']]
                        if md['style'] != 'wrapped' and not all(exact(t, v) for t, v in zip(md['returns'], rets)):
                            rets = [gen.gen_value(rng, ir, t, top=True, alphabet='any') for t in md['returns']]
                    driver = 'wsgi' if k == ncalls - 1 else 'server'
                    run_call(R, C, md, args, rets, driver, {'seed': seed, 'uid': uid, 'call': k, 'polymorphic': poly})


def fully_populated(ir, t, v):
    if v is None:
        return False
    if 'ref' in t:
        return all(fully_populated(ir, ft, v.get(fn)) for fn, ft in gen.all_fields(ir, v.get('__class__', t['ref'])))
    for k in ('array', 'seq'):
        if k in t:
            return all(fully_populated(ir, t[k], x) for x in v)
    return True


def run(spec, R):
    for uid in range(spec['first'], spec['first'] + spec['count']):
        run_universe(R, spec['seed'], uid, spec['tier'])


def replay(v, R):
    c = v['repro']
    run_universe(R, c['seed'], c['uid'], 'thorough')
    for x in R.violations[:10]:
        print('replayed:', x.get('mech'), x.get('what')[:300])


def classify(v):
    return v.get('mech')
