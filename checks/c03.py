"""C03 - HttpRpc flat key/value fidelity.

(a) arguments spelled in the flattened notation by the reference flattener,
    pairs permuted (all permutations up to 5 pairs, random ones beyond),
    contiguous and sparse array indices, several hier_delim, strict_arrays
    on/off, GET through WsgiApplication -> call recorder;
(b) object -> flat -> object identity through the protocol's own converters;
(c) a single primitive return is sent as its exact text/bytes, out-header
    members as HTTP response headers.
"""
import base64
import itertools

from vflib import core, drive, gen, refflat, lex

PROP = 'C03'
LEVEL = 'exploration'
RULE = ('random signatures over primitives, arrays (up to 12 items, two-digit indices), nested objects and arrays of objects; '
        'query strings from the reference flattener x permutations of the pairs x {contiguous, sparse} indices x hier_delim {., /, :} x '
        'strict_arrays x validator {None, soft}; plus a ragged-array workload (all 343 member-subset combinations over three array items, '
        'random member subsets over 2/4/11/12 items, top-level and nested arrays, strict_arrays on and off); non-trivial = function entered with a non-null argument; distinct by '
        '(configuration, argument shapes, permutation class, index class).'
        ' Also: a fixed chain of a class that contains itself (known finding), Decimal digits facets.')
ASSUMPTIONS = [
    'POST form bodies need werkzeug, which is not installed: only GET query strings are driven',
    'pairs with the same key (primitive arrays) keep their relative order under permutation: their order IS the array order',
    'strict_arrays is only used with contiguous ascending indices (what strict mode documents)',
    'nested arrays, XmlAttribute/XmlData and explicit nulls have no flat notation and are not generated',
]
REQUIRED_COUNTERS = ('function_entered', 'args_compared', 'permutations_sent', 'flat_roundtrips', 'primitive_returns_checked')
SHARD_TIMEOUT = {'quick': 900, 'thorough': 3000}


def shards(tier, seed):
    n = 16 if tier == 'quick' else 48
    per = 3 if tier == 'quick' else 10
    out = [{'shard': 'u%d' % i, 'tier': tier, 'seed': seed, 'first': i * per, 'count': per} for i in range(n)]
    # ragged arrays of objects: every combination of member subsets over three items, strict_arrays on and off
    for part in range(4):
        out.append({'shard': 'ragged%d' % part, 'mode': 'ragged', 'part': part, 'tier': tier, 'seed': seed})
    return out


SIBLINGS_UNIVERSE = 9700


def siblings_ir():
    """several members of one class side by side, at every depth: their keys differ in one path element only"""
    ns = 'urn:vf:c03:siblings'
    I = lambda: {'prim': 'Integer', 'facets': {}}
    U = lambda: {'prim': 'Unicode', 'facets': {}}
    T = lambda name, fields: {'name': name, 'ns': ns, 'base': None, 'has_xmldata': False, 'fields': fields}
    types = [T('Point', [['x', I()], ['y', I()], ['tag', U()]]),
             T('Segment', [['start', {'ref': 'Point'}], ['end', {'ref': 'Point'}], ['mids', {'array': {'ref': 'Point'}}], ['more', {'array': {'ref': 'Point'}}],
                           ['name', U()]]),
             T('Route', [['first', {'ref': 'Segment'}], ['last', {'ref': 'Segment'}], ['legs', {'array': {'ref': 'Segment'}}], ['alt', {'array': {'ref': 'Segment'}}],
                         ['home', {'ref': 'Point'}]])]
    M_ = lambda name, args, style='wrapped': {'name': name, 'args': args, 'returns': [], 'style': style}
    methods = [M_('points', [['a', {'ref': 'Point'}], ['b', {'ref': 'Point'}]]), M_('segment', [['seg', {'ref': 'Segment'}]]),
               M_('segments', [['one', {'ref': 'Segment'}], ['two', {'ref': 'Segment'}], ['many', {'array': {'ref': 'Segment'}}]]),
               M_('route', [['r', {'ref': 'Route'}], ['back', {'ref': 'Route'}]]), M_('bare_segment', [['arg', {'ref': 'Segment'}]], 'bare'),
               M_('bare_route', [['arg', {'ref': 'Route'}]], 'bare')]
    return {'uid': SIBLINGS_UNIVERSE, 'tns': ns, 'types': types, 'services': [{'name': 'S', 'methods': methods}]}


def universe(seed, uid):
    if uid == SIBLINGS_UNIVERSE:
        return siblings_ir()
    rng = core.rng_for(seed, PROP, 'uni%d' % uid)
    o = gen.Opts(digits=True, sub_names=True, attrs=False, nested_arrays=0.0, styles=('wrapped', 'wrapped', 'wrapped', 'bare'), multi_return=False,
                 inheritance=True, text_alphabet='any')
    return gen.rand_universe(rng, o, uid=uid)


def flat_ok(ir, t, seen=None):
    """does the tspec have a flat notation (no nested arrays)"""
    seen = seen or set()
    if 'array' in t or 'seq' in t:
        inner = t.get('array') or t.get('seq')
        if 'array' in inner or 'seq' in inner:
            return False
        return flat_ok(ir, inner, seen)
    if 'ref' in t:
        if t['ref'] in seen:
            return True
        seen.add(t['ref'])
        return all(flat_ok(ir, ft, seen) for _, ft in gen.all_fields(ir, t['ref']))
    return True


def bigger_arrays(rng, ir, t, v):
    """stretch arrays of objects to up to 12 items so that two-digit indices occur"""
    if v is None:
        return v
    if ('array' in t or 'seq' in t) and isinstance(v, list) and v and any(k in (t.get('array') or t.get('seq')) for k in ('ref', 'prim', 'enum')):
        mx = 12 if ('array' in t or t.get('max') == 'unbounded') else t['max']
        n = min(mx, rng.choice((len(v), 11, 12)))
        return [v[i % len(v)] for i in range(n)] if n > len(v) else v
    if 'ref' in t and isinstance(v, dict) and rng.random() < .5:
        # (arrays of primitives one level down as well)
        return dict(v, **{fn: bigger_arrays(rng, ir, ft, v.get(fn)) for fn, ft in gen.all_fields(ir, v.get('__class__', t['ref']))
                          if ('array' in ft or 'seq' in ft) and any(k in (ft.get('array') or ft.get('seq')) for k in ('prim', 'enum'))})
    return v


def permutations_of(rng, pairs, tier):
    """order-preserving (per key) permutations of the pair list"""
    n = len(pairs)
    if n <= 1:
        return [list(pairs)]
    keys = [k for k, _ in pairs]
    out = []
    if n <= 5:
        for perm in itertools.permutations(range(n)):
            ok = True
            last = {}
            for pos, i in enumerate(perm):
                k = keys[i]
                if k in last and last[k] > i:
                    ok = False
                    break
                last[k] = i
            if ok:
                out.append([pairs[i] for i in perm])
    else:
        for _ in range(6 if tier == 'quick' else 30):
            order = list(range(n))
            rng.shuffle(order)
            # restore relative order among equal keys
            by = {}
            for i in sorted(order_index for order_index in range(n)):
                by.setdefault(keys[i], []).append(i)
            it = {k: iter(v) for k, v in by.items()}
            out.append([pairs[next(it[keys[i]])] for i in order])
        out.append(list(reversed_keep(pairs)))
    return out


def reversed_keep(pairs):
    keys = [k for k, _ in pairs]
    by = {}
    for i, k in enumerate(keys):
        by.setdefault(k, []).append(i)
    it = {k: iter(v) for k, v in by.items()}
    return [pairs[next(it[k])] for k in reversed(keys)]


def make_app(ir, delim, strict, validator, out='json'):
    from spyne.protocol.http import HttpRpc
    from spyne.protocol.json import JsonDocument
    from spyne.server.wsgi import WsgiApplication
    B = gen.Built(ir)
    outp = JsonDocument() if out == 'json' else HttpRpc()
    app = B.app(HttpRpc(validator=validator, hier_delim=delim, strict_arrays=strict), outp)
    return B, app, WsgiApplication(app)


def run_universe(R, seed, uid, tier):
    ir = universe(seed, uid)
    rng = core.rng_for(seed, PROP, 'vals%d' % uid)
    methods = [md for sd in ir['services'] for md in sd['methods'] if all(flat_ok(ir, t) for _, t in md['args'])]
    if not methods:
        R.skip('no method with a flat notation')
    configs = [('.', False), ('.', True), ('/', False), (':', False)]
    if tier == 'quick':
        configs = [configs[0], rng.choice(configs[1:])]
    for delim, strict in configs:
        validator = rng.choice((None, 'soft'))
        try:
            B, app, wsgi = make_app(ir, delim, strict, validator)
        except Exception as e:
            R.skip('universe rejected at construction: %s' % type(e).__name__)
            continue
        for md in methods:
            for k in range(2 if tier == 'quick' else 5):
                args = [bigger_arrays(rng, ir, t, gen.gen_value(rng, ir, t, top=(md['style'] == 'bare'), alphabet='any')) for _, t in md['args']]
                if any(refflat.has_empty_strings(ir, t, v) for (_, t), v in zip(md['args'], args)):
                    R.skip('empty string has no distinct spelling in a query string')
                    continue
                if any(refflat.has_unspellable_items(ir, t, v) for (_, t), v in zip(md['args'], args)):
                    R.skip('array item without any member has no spelling in a query string')
                    continue
                if any(refflat.unspellable_none(ir, t, refflat.fnorm(ir, t, v)) or refflat.unspellable_none(ir, t, v) for (_, t), v in zip(md['args'], args)):
                    R.skip('null for a mandatory member has no spelling in a query string')
                    continue
                sparse = (not strict) and rng.random() < .5

                def indices(n, rng=rng, sparse=sparse):
                    if not sparse:
                        return list(range(n))
                    return sorted(rng.sample(range(0, 40), n))
                # primitive arrays: repeated key, or numbered entries
                indices.prims = rng.random() < .5
                try:
                    pairs = refflat.request_pairs(ir, md, args, delim, indices)
                except refflat.NotExpressible as e:
                    R.skip('not expressible: %s' % e)
                    continue
                perms = permutations_of(rng, pairs, tier)
                if tier == 'quick' and len(perms) > 12:
                    perms = [perms[0]] + rng.sample(perms[1:], 11)
                for pi, perm in enumerate(perms):
                    one_get(R, B, wsgi, ir, md, args, perm, dict(seed=seed, uid=uid, delim=delim, strict=strict, validator=validator,
                                                                   sparse=sparse, perm=pi, numbered_prims=indices.prims), pairs)
    object_roundtrip(R, ir, rng, seed, uid, tier)
    primitive_returns(R, ir, rng, seed, uid, tier)


def one_get(R, B, wsgi, ir, md, args, pairs, repro, orig_pairs):
    qs = refflat.query_string(pairs)
    env, inp = drive.make_environ('GET', '/' + md['name'], qs, b'', None)
    B.calls[:] = []
    B.returns.clear()
    R.evaluations += 1
    R.count('permutations_sent')
    w = drive.call_wsgi(wsgi, env, inp)
    cfg = 'delim=%s|strict=%s|%s|%s' % (repro['delim'], repro['strict'], repro['validator'], 'sparse' if repro['sparse'] else 'contiguous')
    repro = dict(repro, method=md['name'], query=qs[:3000])
    if w.exc is not None:
        R.violation('GET raised %s: %s' % (type(w.exc).__name__, str(w.exc)[:150]), repro,
                    mech='escape:%s:%s' % (type(w.exc).__name__, drive.innermost_spyne_frame(w.exc)), config=cfg)
        return
    names = [c[0] for c in B.calls]
    if w.code is not None and w.code >= 400 and not names:
        R.violation('conformant query answered with %s: %s' % (w.status, w.body[:200]), repro,
                    mech=mech_fault(w, repro, pairs), config=cfg)
        return
    if names != [md['name']]:
        R.violation('user functions entered: %r, expected exactly [%r]' % (names, md['name']), repro, mech='invocation_count', config=cfg)
        return
    R.count('function_entered')
    ok = True
    for (an, at), sent, o in zip(md['args'], args, B.calls[0][1]):
        d = []
        R.count('args_compared')
        if not gen.veq(ir, at, refflat.fnorm(ir, at, sent), refflat.fnorm(ir, at, B.from_spyne(at, o)), an, d):
            ok = False
            R.violation('argument %s differs (permutation %d of the pairs): %s' % (an, repro['perm'], '; '.join(d)[:300]), repro,
                        mech='arg_differs:%s:%s' % (gen.shape(at)[:30], 'perm' if repro['perm'] else 'canonical'), config=cfg, tspec=at)
    if ok and any(a is not None for a in args):
        R.nontrivial(cfg, tuple(gen.shape(t) for _, t in md['args']), min(repro['perm'], 3), tuple(gen.vclass(a) for a in args),
                     max([0] + [int(k[k.index('[') + 1:k.index(']')]) >= 10 for k, _ in pairs if '[' in k]))
        R.cell(cfg)
        if len(R.samples) < 3 and len(pairs) > 3:
            R.sample({'config': cfg, 'method': md['name'], 'query': qs[:500], 'permutation': repro['perm']})


def mech_fault(w, repro, pairs):
    two_digit = any('[1' in k and k[k.index('[') + 1:k.index(']')].isdigit() and int(k[k.index('[') + 1:k.index(']')]) >= 10 for k, _ in pairs if '[' in k)
    if repro['strict'] and two_digit and b'Invalid array index' in w.body:
        return 'strict_arrays_lexicographic_index_order'
    return 'fault_on_conformant:%s' % (w.status.split()[0])


def object_roundtrip(R, ir, rng, seed, uid, tier):
    """(b) the protocol's own flat form maps back to an equal object."""
    from spyne.protocol.http import HttpRpc
    B = gen.Built(ir)
    try:
        B.app(HttpRpc(), HttpRpc())
    except Exception:
        return
    for td in ir['types']:
        t = {'ref': td['name']}
        if not flat_ok(ir, t):
            continue
        for delim in ('.', '/'):
            prot = HttpRpc(hier_delim=delim)
            for k in range(2 if tier == 'quick' else 6):
                v = gen.gen_value(rng, ir, t, top=True, alphabet='any')
                if refflat.has_empty_strings(ir, t, v) or refflat.has_unspellable_items(ir, t, v):
                    continue
                cls = B.classes[td['name']]
                inst = B.to_spyne(t, v)
                R.evaluations += 1
                repro = {'seed': seed, 'uid': uid, 'type': td['name'], 'delim': delim}
                try:
                    flat = prot.object_to_simple_dict(cls, inst, subinst_eater=lambda p, val, typ: to_text(p, val, typ))
                    doc = {k2: (x if isinstance(x, list) else [x]) for k2, x in flat.items()}
                    back = prot.simple_dict_to_object(None, doc, cls)
                except Exception as e:
                    R.violation('object -> flat -> object raised %s: %s' % (type(e).__name__, str(e)[:200]), dict(repro, value=repr(v)[:800]),
                                mech='flat_roundtrip_escape:%s:%s' % (type(e).__name__, drive.innermost_spyne_frame(e)))
                    continue
                R.count('flat_roundtrips')
                d = []
                if not gen.veq(ir, t, refflat.fnorm(ir, t, v), refflat.fnorm(ir, t, B.from_spyne(t, back)), td['name'], d):
                    R.violation('object -> flat -> object changed the object: %s' % '; '.join(d)[:300], dict(repro, flat=repr(flat)[:1500]),
                                mech='flat_roundtrip_differs:%s' % flat_diff_kind(d))
                else:
                    R.nontrivial('roundtrip', delim, tuple(gen.shape(ft) for _, ft in gen.all_fields(ir, td['name'])), gen.vclass(v))


def self_reference_scenario(R, seed):
    """A class that contains itself (a linked list): every level of the chain is spelled in the query string and has to arrive.
    (Kept out of the random universes: the flat notation has one fixed key table per class, so what happens to the deeper
    levels is one mechanism, looked at here with a fixed input.)"""
    from spyne import Application, Service, rpc, ComplexModel, Integer, Unicode
    from spyne.model.complex import SelfReference
    from spyne.protocol.http import HttpRpc
    from spyne.protocol.json import JsonDocument
    from spyne.server.wsgi import WsgiApplication
    got = []
    Node = type('FlatNode', (ComplexModel,), {'__namespace__': 'urn:vf:c03s', '_type_info': [('v', Integer), ('s', Unicode), ('next', SelfReference)]})

    def walk(n):
        out = []
        while n is not None and len(out) < 10:
            out.append((n.v, n.s))
            n = n.next
        return out

    class S(Service):
        @rpc(Node, _returns=Integer)
        def chain(ctx, n):
            got.append(walk(n))
            return 1
    for validator in (None, 'soft'):
        app = Application([S], 'urn:vf:c03s', in_protocol=HttpRpc(validator=validator), out_protocol=JsonDocument())
        w = WsgiApplication(app)
        for depth in (1, 2, 3, 4):
            want = [(i + 1, 'l%d' % i) for i in range(depth)]
            pairs = []
            for i in range(depth):
                pre = 'n' + '.next' * i
                pairs += [(pre + '.v', str(i + 1)), (pre + '.s', 'l%d' % i)]
            del got[:]
            R.evaluations += 1
            R.count('self_reference_requests')
            env, inp = drive.make_environ('GET', '/chain', refflat.query_string(pairs), b'', None)
            r = drive.call_wsgi(w, env, inp)
            case = {'seed': seed, 'scenario': 'self_reference', 'validator': validator, 'depth': depth, 'pairs': pairs}
            if r.exc is not None:
                R.violation('self-referencing class over HttpRpc: %r escaped' % r.exc, case, mech='escape:%s' % type(r.exc).__name__)
            elif got == [want]:
                R.nontrivial('self_reference', validator, depth, 'delivered')
            elif got == [want[:1]] and depth >= 2:
                R.violation('a chain of %d objects of a class that contains itself arrived as %r (status %s): the pairs that spell the '
                            'members of the contained object are dropped' % (depth, got, r.status), case, mech='flat_self_reference_members_dropped')
            else:
                R.violation('a chain of %d objects of a class that contains itself arrived as %r (status %s)' % (depth, got, r.status), case,
                            mech='flat_self_reference:other')


def flat_diff_kind(d):
    s = d[0] if d else ''
    return 'none_vs_value' if ('None' in s) else 'items' if 'items' in s else 'value'


def to_text(prot, val, typ):
    from spyne.model.binary import ByteArray
    if val is None:
        return None
    if issubclass(typ, ByteArray):
        return prot.to_unicode(typ, val, prot.binary_encoding)
    return prot.to_unicode(typ, val)


def primitive_returns(R, ir, rng, seed, uid, tier):
    """(c) a single primitive return value is sent as its exact text or bytes."""
    prims = [k for k in gen.PRIMS]
    n = 6 if tier == 'quick' else 20
    for i in range(n):
        kind = rng.choice(prims)
        t = {'prim': kind, 'facets': {}}
        ir2 = {'uid': uid * 100 + i, 'tns': 'urn:vf:c03r', 'types': [],
               'services': [{'name': 'S', 'methods': [{'name': 'm0', 'args': [], 'returns': [t], 'style': 'wrapped'}]}]}
        try:
            B, app, wsgi = make_app(ir2, '.', False, None, out='http')
        except Exception as e:
            continue
        v = gen.gen_prim_value(rng, kind, {}, 'any')
        if v is None:
            continue
        B.returns['m0'] = B.to_spyne(t, v)
        env, inp = drive.make_environ('GET', '/m0', '', b'', None)
        R.evaluations += 1
        w = drive.call_wsgi(wsgi, env, inp)
        repro = {'seed': seed, 'uid': uid, 'kind': kind, 'value': repr(v)[:200]}
        if w.exc is not None:
            R.violation('returning a %s through HttpRpc raised %s' % (kind, type(w.exc).__name__), repro,
                        mech='primitive_return_escape:%s:%s' % (kind, type(w.exc).__name__))
            continue
        if w.code != 200:
            R.violation('returning a %s through HttpRpc answered %s: %s' % (kind, w.status, w.body[:100]), repro, mech='primitive_return_status:%s' % kind)
            continue
        R.count('primitive_returns_checked')
        if kind == 'ByteArray':
            exp = lex.tobytes(v)
        else:
            exp = lex.print_xs(gen.PRIMS[kind], v) if kind not in ('Uuid',) else str(v)
            exp = exp.encode('utf8')
        body = w.body
        ok = body == exp
        if not ok and kind not in ('ByteArray', 'Unicode', 'AnyUri'):
            # any literal of the lexical space that denotes the same value is "its text"
            try:
                ok = lex.equal(gen.eqkind(kind), v, lex.parse(gen.PRIMS[kind], body.decode('utf8')))
            except Exception:
                ok = False
        if not ok:
            R.violation('%s return value %r sent as %r' % (kind, v, body[:120]), repro,
                        mech='decimal_exponent_print' if (kind == 'Decimal' and b'E' in body) else 'primitive_return_text:%s' % kind)
        else:
            R.nontrivial('primitive_return', kind, gen.vclass(v))


def declared_headers(R, seed):
    """... "with the declared HTTP headers": members of the out-header class of a method, set by the method, arrive as HTTP response
    headers that say the same thing - text as it is, numbers in decimal, points in time as the RFC 1123 date of that instant."""
    import datetime as dt
    import email.utils
    import pytz
    from spyne import Application, Service, rpc, Unicode, Integer, DateTime, ComplexModel
    from spyne.protocol.http import HttpRpc
    from spyne.server.wsgi import WsgiApplication
    rng = core.rng_for(seed, PROP, 'headers')

    class Hd(ComplexModel):
        __namespace__ = 'urn:vf:c03h'
        _type_info = [('Expires', DateTime), ('Last-Modified', DateTime), ('X-Count', Integer), ('X-Note', Unicode), ('Set-Cookie', Unicode(max_occurs='unbounded'))]
    box = {}

    class S(Service):
        @rpc(Unicode, _returns=Unicode, _out_header=Hd)
        def page(ctx, s):
            ctx.out_header = Hd(**box['hd'])
            return s
    wsgi = WsgiApplication(Application([S], 'urn:vf:c03h', in_protocol=HttpRpc(), out_protocol=HttpRpc()))
    zones = [None, pytz.utc, dt.timezone.utc, pytz.FixedOffset(180), pytz.FixedOffset(-330), dt.timezone(dt.timedelta(hours=14)), dt.timezone(dt.timedelta(hours=-12)),
             pytz.timezone('Europe/Istanbul'), pytz.timezone('America/New_York'), pytz.timezone('Asia/Kolkata')]
    for k in range(60):
        z1, z2 = rng.choice(zones), rng.choice(zones)

        def moment(z):
            naive = dt.datetime(rng.randint(1971, 2037), rng.randint(1, 12), rng.randint(1, 28), rng.randint(0, 23), rng.randint(0, 59), rng.randint(0, 59))
            if z is None:
                return naive, naive.replace(tzinfo=dt.timezone.utc)
            aware = z.localize(naive) if hasattr(z, 'localize') else naive.replace(tzinfo=z)
            return aware, aware
        (e_val, e_inst), (m_val, m_inst) = moment(z1), moment(z2)
        n = rng.choice((0, 1, -5, 10 ** 12))
        note = rng.choice(('plain', 'two words', 'x=1; y=2', 'caf\xe9'))
        cookies = ['a=%d' % k, 'b=2; Path=/'][:rng.randint(1, 2)]
        box['hd'] = {'Expires': e_val, 'Last-Modified': m_val, 'X-Count': n, 'X-Note': note, 'Set-Cookie': cookies}
        env, inp = drive.make_environ('GET', '/page', 's=x', b'', None)
        R.evaluations += 1
        w = drive.call_wsgi(wsgi, env, inp)
        repro = {'scenario': 'declared_headers', 'seed': seed, 'k': k, 'expires': repr(e_val), 'last_modified': repr(m_val)}
        if w.exc is not None or w.code != 200:
            R.violation('a method that sets its declared response headers was answered %s / %r' % (w.status, w.exc), repro, mech='declared_headers:not_served')
            continue
        R.count('declared_header_responses')
        hs = {}
        for hk, hv in w.headers:
            hs.setdefault(hk, []).append(hv)
        want = {'Expires': [email.utils.format_datetime(e_inst.astimezone(dt.timezone.utc), usegmt=True)],
                'Last-Modified': [email.utils.format_datetime(m_inst.astimezone(dt.timezone.utc), usegmt=True)],
                'X-Count': [str(n)], 'X-Note': [note], 'Set-Cookie': cookies}
        for hk, hv in want.items():
            got = hs.get(hk)
            if got != hv:
                same_instant = False
                if hk in ('Expires', 'Last-Modified') and got and len(got) == 1:
                    try:
                        same_instant = email.utils.parsedate_to_datetime(got[0]) == email.utils.parsedate_to_datetime(hv[0])
                    except Exception:
                        same_instant = False
                if same_instant:
                    continue
                R.violation('declared header %s: sent %r, the method set %r (%r)' % (hk, got, box['hd'][hk], hv), dict(repro, header=hk),
                            mech='declared_header_differs:%s' % ('instant' if hk in ('Expires', 'Last-Modified') else hk))
                break
        else:
            R.nontrivial('declared_headers', str(z1), str(z2), len(cookies))


RAGGED_NS = 'urn:vf:c03r'


def ragged_ir():
    I = lambda: {'prim': 'Integer', 'facets': {}}
    U = lambda: {'prim': 'Unicode', 'facets': {}}
    T = lambda name, fields: {'name': name, 'ns': RAGGED_NS, 'base': None, 'has_xmldata': False, 'fields': fields}
    types = [T('Leaf', [['a', I()], ['b', U()], ['c', I()]]),
             T('Item', [['alpha', I()], ['beta', U()], ['inner', {'ref': 'Leaf'}], ['nums', {'seq': I(), 'max': 'unbounded'}]]),
             T('Holder', [['items', {'array': {'ref': 'Item'}}], ['more', {'seq': {'ref': 'Item'}, 'max': 'unbounded'}], ['name', U()]])]
    M_ = lambda name, args: {'name': name, 'args': args, 'returns': [], 'style': 'wrapped'}
    return {'uid': 9000, 'tns': RAGGED_NS, 'types': types, 'services': [{'name': 'S', 'methods': [
        M_('m_arr', [['p', {'array': {'ref': 'Item'}}]]), M_('m_seq', [['p', {'seq': {'ref': 'Item'}, 'max': 'unbounded'}]]),
        M_('m_holder', [['o', {'ref': 'Holder'}]]), M_('m_two', [['o', {'ref': 'Holder'}], ['q', {'array': {'ref': 'Leaf'}}]])]}]}


def ragged_item(mask, i):
    """an Item carrying exactly the members selected by the bits of mask"""
    it = {'__class__': 'Item'}
    if mask & 1:
        it['alpha'] = 100 + i
    if mask & 2:
        it['beta'] = 'b%d' % i
    if mask & 4:
        it['inner'] = {'__class__': 'Leaf', 'c': 300 + i} if i % 2 else {'__class__': 'Leaf', 'a': 200 + i, 'b': 'x'}
    if mask & 8:
        it['nums'] = [i, i + 1]
    return it


def run_ragged(R, spec):
    ir = ragged_ir()
    rng = core.rng_for(spec['seed'], PROP, spec['shard'])
    tier = spec['tier']
    mds = {m['name']: m for m in ir['services'][0]['methods']}
    cases = []
    masks = range(1, 8)
    for combo in itertools.product(masks, repeat=3):
        cases.append(('m_arr', [[ragged_item(m, i) for i, m in enumerate(combo)]]))
    for n in (2, 4, 11, 12):
        for _ in range(6 if tier == 'quick' else 40):
            items = [ragged_item(rng.randint(1, 15), i) for i in range(n)]
            which = rng.choice(('m_arr', 'm_seq', 'm_holder', 'm_two'))
            if which in ('m_arr', 'm_seq'):
                cases.append((which, [items]))
            else:
                h = {'__class__': 'Holder', 'items': items, 'name': 'h'}
                if rng.random() < .5:
                    h['more'] = [ragged_item(rng.randint(1, 15), 50 + i) for i in range(rng.randint(1, 3))]
                args = [h]
                if which == 'm_two':
                    args.append([{'__class__': 'Leaf', 'c': 1}, {'__class__': 'Leaf', 'a': 2}, {'__class__': 'Leaf', 'b': 'z', 'a': 3}])
                cases.append((which, args))
    cases = [c for i, c in enumerate(cases) if i % 4 == spec['part']]
    for delim, strict in (('.', True), ('.', False), ('/', True)):
        for validator in (None, 'soft'):
            B, app, wsgi = make_app(ir, delim, strict, validator)
            for ci, (mname, args) in enumerate(cases):
                if (ci + (validator is None)) % 2 and tier == 'quick':
                    continue
                md = mds[mname]
                sparse = (not strict) and ci % 3 == 0

                def indices(n, rng=rng, sparse=sparse):
                    return list(range(n)) if not sparse else sorted(rng.sample(range(0, 40), n))
                pairs = refflat.request_pairs(ir, md, args, delim, indices)
                perms = permutations_of(rng, pairs, tier)
                perms = [perms[0]] + rng.sample(perms[1:], min(len(perms) - 1, 2 if tier == 'quick' else 8))
                for pi, perm in enumerate(perms):
                    R.count('ragged_requests')
                    one_get(R, B, wsgi, ir, md, args, perm, dict(seed=spec['seed'], uid=9000, part=spec['part'], case=ci, delim=delim, strict=strict,
                                                                   validator=validator, sparse=sparse, perm=pi), pairs)


def declared_defaults(R, seed):
    """Members and arguments that declare a default (a list, a list of objects, an object): what one request spells never shows in the next one.
    Every request of a sequence is also sent to an application of its own; the user function has to receive the same values both times."""
    from io import BytesIO
    from spyne import Application, Service, rpc, Integer, Unicode, ComplexModel, Array
    from spyne.protocol.http import HttpRpc
    from spyne.protocol.json import JsonDocument
    from spyne.server.wsgi import WsgiApplication
    rng = core.rng_for(seed, PROP, 'defaults')

    def build(strict, validator):
        seen = []
        ns = 'urn:vf:c03:dd'
        Obj = type('DdObj', (ComplexModel,), {'__namespace__': ns, 'a': Integer, 'b': Unicode})
        H = type('DdH', (ComplexModel,), {'__namespace__': ns, 'items': Array(Obj, default=[]), 'pre': Array(Obj, default=[Obj(a=9, b='nine')]), 'tags': Array(Unicode, default=[]),
                                         'one': Obj.customize(default=Obj(a=7, b='seven')), 'many': Obj.customize(max_occurs='unbounded', default=[]), 'n': Integer})

        def show(o):
            return None if o is None else (o.a, o.b)

        def lst(v):
            return None if v is None else [show(o) for o in v]

        def f(ctx, h):
            seen.append(None if h is None else (lst(h.items), lst(h.pre), h.tags if h.tags is None else list(h.tags), show(h.one), lst(h.many), h.n))
            return 1

        def g(ctx, items, tags, n):
            seen.append((lst(items), tags if tags is None else list(tags), n))
            return 1
        S = type('DdSvc', (Service,), {'f': rpc(H, _returns=Integer)(f), 'g': rpc(Array(Obj, default=[]), Array(Unicode, default=[]), Integer, _returns=Integer)(g)})
        app = Application([S], ns, name='Dd', in_protocol=HttpRpc(validator=validator, strict_arrays=strict), out_protocol=JsonDocument())
        return WsgiApplication(app), seen

    def call(w, seen, path, qs):
        del seen[:]
        env, inp = drive.make_environ('GET', path, qs, b'', None)
        r = drive.call_wsgi(w, env, inp)
        return (r.status, r.exc if r.exc is None else type(r.exc).__name__, list(seen))
    pool_f = ['h.n=1', 'h.items[0].a=1&h.items[0].b=x&h.n=2', 'h.items[0].a=5&h.items[1].a=6', 'h.tags=p&h.tags=q', 'h.pre[0].a=3', 'h.one.a=4', 'h.one.b=k&h.n=3',
              'h.many[0].a=8&h.many[1].b=z', 'h.items[0].b=only&h.pre[0].b=only&h.many[0].a=1&h.tags=t&h.one.a=0']
    pool_g = ['n=1', 'items[0].a=1&tags=x&n=2', 'items[0].a=7&items[1].b=w', 'tags=p&tags=q', 'items[0].b=only']
    for strict in (False, True):
        for validator in (None, 'soft'):
            for rep in range(3):
                seq = [('/f', q) for q in rng.sample(pool_f, 5)] + [('/g', q) for q in rng.sample(pool_g, 3)]
                rng.shuffle(seq)
                seq = seq + [('/f', 'h.n=1'), ('/g', 'n=1')]
                w, seen = build(strict, validator)
                for i, (path, qs) in enumerate(seq):
                    R.evaluations += 1
                    R.count('default_sequence_requests')
                    got = call(w, seen, path, qs)
                    w1, seen1 = build(strict, validator)
                    alone = call(w1, seen1, path, qs)
                    case = {'scenario': 'declared_defaults', 'seed': seed, 'strict': strict, 'validator': validator, 'sequence': [list(x) for x in seq[:i + 1]]}
                    if got[1] is not None or alone[1] is not None:
                        R.violation('%s?%s raised %s (alone: %s)' % (path, qs, got[1], alone[1]), case, mech='escape:%s' % (got[1] or alone[1]))
                        break
                    if got != alone:
                        R.violation('request %d of a sequence (%s?%s): the function received %r, the same request sent to an application of its own gives %r' % (
                                    i + 1, path, qs, got[2], alone[2]), case, mech='declared_default_carries_values_of_an_earlier_request')
                        break
                else:
                    R.nontrivial('declared_defaults', strict, validator, rep)


def run(spec, R):
    if spec.get('mode') == 'ragged':
        run_ragged(R, spec)
        for k in REQUIRED_COUNTERS:
            R.count(k, 0)
        return
    for uid in range(spec['first'], spec['first'] + spec['count']):
        run_universe(R, spec['seed'], uid, spec['tier'])
    if spec['first'] == 0:
        self_reference_scenario(R, spec['seed'])
        run_universe(R, spec['seed'], SIBLINGS_UNIVERSE, 'thorough')
        declared_headers(R, spec['seed'])
        declared_defaults(R, spec['seed'])


def replay(v, R):
    c = v['repro']
    if c.get('scenario') == 'declared_headers':
        declared_headers(R, c['seed'])
        for x in R.violations[:10]:
            print('replayed:', x.get('mech'), x.get('what'))
        return
    if c.get('scenario') == 'declared_defaults':
        declared_defaults(R, c['seed'])
        for x in R.violations[:10]:
            print('replayed:', x.get('mech'), x.get('what'))
        return
    if c.get('scenario') == 'self_reference':
        self_reference_scenario(R, c['seed'])
        for x in R.violations[:10]:
            print('replayed:', x.get('mech'), x.get('what'))
        return
    if c.get('uid') == 9000:
        run_ragged(R, {'seed': c['seed'], 'shard': 'ragged%d' % c['part'], 'part': c['part'], 'tier': 'thorough', 'mode': 'ragged'})
    else:
        run_universe(R, c['seed'], c['uid'], 'thorough')
    for x in R.violations[:10]:
        print('replayed:', x.get('mech'), x.get('what')[:300])


def classify(v):
    return v.get('mech')
