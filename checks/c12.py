"""C12 - concurrent requests do not interfere; lazy WSDL built once, served whole.

Engine: vflib/sched.py (deterministic line-level scheduler with preemption
bounding, cooperative locks, logical deadlock verdict) + free-running stress.
Oracle: every caller's (status, headers, body) equals what the same request
yields alone on a fresh identical application; racing ?wsdl fetches all get the
sequentially built document and the interface document is built once.
"""
import io
import time
import types

from vflib import core, drive, miniapp as M, sched as S

PROP = 'C12'
LEVEL = 'exploration'
RULE = ('per workload (2-4 concurrent requests against one WsgiApplication): recording run, then ALL single preemptions at '
        'every recorded (thread, location, occurrence) x target thread, then random schedules with up to 3 preemptions, then '
        'free-running stress with injected yields; non-trivial = a schedule in which the planned preemption was actually taken; '
        'distinct by interleaving signature (sequence of switches).'
        ' Workloads: first-use caches, lazy WSDL with 2-3 racing fetches, validation lock, protocol attribute caches, mixed faults, SOAP 1.2, multi-ref requests using the same ids.')
ASSUMPTIONS = [
    'schedule points are source lines of the modules holding shared mutable state (server/wsgi, interface/wsdl/wsdl11, interface/xml_schema/_base, interface/_base, protocol/_base, util/memo, util/cdict, application, server/_base, and the validate path of protocol/xml); code outside is atomic between points in the systematic mode and only covered by the stress mode',
    'locks created while the application/transport are constructed and the memoizer locks of memoize.registry are replaced by cooperative locks of the same interface',
    'process-global memo tables are reset before every schedule (memoize.registry / reset(), public), model classes are built fresh per schedule',
    'systematic exploration is exhaustive only for single preemptions at recorded points; deeper interleavings are sampled',
]
REQUIRED_COUNTERS = ('schedules_executed', 'preemptions_taken', 'responses_compared', 'wsdl_builds_counted')
SHARD_TIMEOUT = {'quick': 900, 'thorough': 3000}

WORKLOADS = ('wsdl2', 'wsdl3_rpc', 'wsdl_rpc', 'rpc_pa', 'rpc_pa_json', 'lxml_mix', 'json_mix', 'xml_3', 'msgpack_mix', 'soap12_mix', 'multiref', 'json_pos', 'msgpackrpc_pos', 'mixin_xml', 'poly_xml')


def shards(tier, seed):
    out = []
    for w in WORKLOADS:
        out.append({'shard': 'sys/' + w, 'mode': 'systematic', 'workload': w, 'tier': tier, 'seed': seed})
    for i in range(4 if tier == 'quick' else 6):
        out.append({'shard': 'stress/%d' % i, 'mode': 'stress', 'workload': WORKLOADS[i % len(WORKLOADS)], 'tier': tier,
                    'seed': seed, 'n': i})
    return out


_instrumented = [False]


def instrument():
    if _instrumented[0]:
        return
    import spyne.server.wsgi as a
    import spyne.interface.wsdl.wsdl11 as b
    import spyne.interface.xml_schema._base as c
    import spyne.interface._base as d
    import spyne.protocol._base as e
    import spyne.util.memo as f
    import spyne.util.cdict as g
    import spyne.application as h
    import spyne.server._base as i
    import spyne.protocol.xml as x
    n = S.instrument([a, b, c, d, e, f, g, h, i],
                     partial={x: {'XmlDocument.validate_body', 'XmlDocument._XmlDocument__validate_lxml', 'XmlDocument.validate_document',
                                  'XmlDocument.set_app', 'XmlDocument.get_cls_attrs', 'validate_body', '_XmlDocument__validate_lxml',
                                  'validate_document', 'set_app'}})
    _instrumented[0] = True
    return n


def instrument_for(name):
    instrument()
    if name.endswith('_pos') and not _instrumented[1:]:
        # the positional workloads: preemptions inside the dict-document reader as well
        import spyne.protocol.dictdoc.hier as h
        import spyne.protocol.dictdoc._base as hb
        S.instrument([h, hb])
        _instrumented.append(True)


class _ThreadingShim(object):
    """What spyne's modules see as `threading` while application and transport
    objects are constructed: lock factories are cooperative, the rest is real."""

    def __getattr__(self, name):
        import threading
        return getattr(threading, name)

    def Lock(self):
        return S.CoopLock()

    def RLock(self):
        return S.CoopLock(reentrant=True)


def swap_threading():
    import sys
    import threading
    shim = _ThreadingShim()
    out = []
    for name, mod in list(sys.modules.items()):
        if name.startswith('spyne.') and mod is not None and getattr(mod, 'threading', None) is threading:
            out.append((mod, threading))
            mod.threading = shim
    return out


def swap_memo_locks():
    from spyne.util.memo import memoize
    for m in memoize.registry:
        if hasattr(m, 'lock') and not isinstance(m.lock, S.CoopLock):
            m.lock = S.CoopLock(reentrant=True)


def reset_memos():
    from spyne.util.memo import memoize
    for m in memoize.registry:
        try:
            if hasattr(m, 'memo') and isinstance(m.memo, dict):
                m.reset()
        except Exception:
            pass


class Universe(object):
    """One application + transport + request set, built fresh."""

    def __init__(self, name, coop=True):
        import spyne.server.wsgi as W
        from spyne import Application, Service, rpc, Integer, Unicode, ComplexModel, Fault, Array
        from spyne.protocol.soap import Soap11, Soap12
        from spyne.protocol.json import JsonDocument
        from spyne.protocol.xml import XmlDocument
        from spyne.protocol.msgpack import MessagePackDocument, MessagePackRpc
        self.name = name
        self.builds = 0
        kind = {'wsdl2': 'soap11', 'wsdl3_rpc': 'soap11', 'wsdl_rpc': 'soap11', 'rpc_pa': 'soap11', 'rpc_pa_json': 'json',
                'lxml_mix': 'soap11', 'json_mix': 'json', 'xml_3': 'xml', 'msgpack_mix': 'msgpack', 'soap12_mix': 'soap12', 'multiref': 'soap11', 'json_pos': 'json', 'msgpackrpc_pos': 'msgpackrpc', 'mixin_xml': 'xml', 'poly_xml': 'xml'}[name]
        self.kind = kind
        protcls = {'soap11': Soap11, 'soap12': Soap12, 'json': JsonDocument, 'xml': XmlDocument, 'msgpack': MessagePackDocument,
                   'msgpackrpc': MessagePackRpc}[kind]

        class Stamped(object):
            """a plain mixin, listed after the model base: class-keyed handler tables are searched base by base"""

        # (only where no schema is compiled: the schema generator's own class-keyed table answers for such a class with its entry for `object`)
        mixin = (Stamped,) if name == 'mixin_xml' else ()
        Item = None

        class Item(ComplexModel, *mixin):
            __namespace__ = M.TNS
            a = Integer
            b = Unicode(pa={protcls: dict(exc=True)}) if name.startswith('rpc_pa') else Unicode
            c = Array(Unicode)

        class Other(ComplexModel, *mixin):
            __namespace__ = M.TNS
            x = Integer
            items = Array(Item)

        # subclasses that live in namespaces of their own, one known to the application by its parent alone and one handed over with classes=[...]:
        # with polymorphic output the first answers that carry them are the first uses of those namespaces
        class ItemX(Item):
            __namespace__ = 'urn:vf:c12:x'
            px = Integer

        class Loose(ComplexModel):
            __namespace__ = 'urn:vf:c12:y'
            q = Integer

        class ItemY(Item):
            __namespace__ = 'urn:vf:c12:z'
            py = Unicode
            loose = Loose

        class Svc(Service):
            @rpc(Integer, _returns=Item)
            def sub(ctx, n):
                return ItemX(a=n, b='x', px=n) if n % 2 else ItemY(a=n, b='y', py='t', loose=Loose(q=n))

            @rpc(Integer, _returns=Integer)
            def echo(ctx, n):
                return n

            @rpc(Unicode, _returns=Unicode)
            def echo_text(ctx, s):
                return s

            @rpc(Item, _returns=Item)
            def echo_item(ctx, it):
                return it

            @rpc(Item, Integer, _returns=Other)
            def wrap(ctx, it, x):
                return Other(x=x, items=[it, it])

            @rpc(Unicode, Unicode, _returns=Integer)
            def fail(ctx, code, msg):
                raise Fault(code or 'Server', msg)

        validator = 'lxml' if name == 'lxml_mix' else ('soft' if name in ('json_mix', 'soap12_mix') else None)
        if coop:
            swapped = swap_threading()
        try:
            inp, outp = M.make_protocols(kind, validator)
            if name == 'poly_xml':
                inp, outp = XmlDocument(polymorphic=True), XmlDocument(polymorphic=True)
            app = Application([Svc], M.TNS, name='C12App', in_protocol=inp, out_protocol=outp, classes=[Loose, ItemY] if name == 'poly_xml' else ())
            self.wsgi = W.WsgiApplication(app)
        finally:
            if coop:
                for mod, orig in swapped:
                    mod.threading = orig
        self.app = app
        w11 = self.wsgi.doc.wsdl11
        orig_build = w11.build_interface_document
        uni = self

        def counted(url, *a, **k):
            uni.builds += 1
            return orig_build(url, *a, **k)
        w11.build_interface_document = counted
        R = M.encode_request
        wsdl = dict(method='GET', path='/', qs='wsdl', body=b'', content_type=None)
        item1 = [('it', {'a': 1, 'b': 'one'})]
        item2 = [('it', {'a': 2, 'b': 'two'})]
        def multiref(a, b):
            # SOAP section-5 encoding as toolkits write it: the argument is an accessor (href) to an element that carries the data,
            # and every toolkit numbers those id1, id2, ... from the start
            body = ('<e:Envelope xmlns:e="%s" xmlns:tns="%s"><e:Body><tns:echo_item><tns:it href="#id1"/></tns:echo_item>'
                    '<tns:Item id="id1"><tns:a>%d</tns:a><tns:b>%s</tns:b></tns:Item></e:Body></e:Envelope>' % (M.S11, M.TNS, a, b)).encode()
            return dict(method='POST', path='/', qs='', body=body, content_type='text/xml; charset=utf-8')
        def positional(method, *args):
            # the positional form of a message and of an object: a sequence of values in declaration order instead of a mapping
            import json
            return dict(method='POST', path='/', qs='', body=json.dumps({method: list(args)}).encode(), content_type='application/json')
        self.requests = {
            'json_pos': [positional('wrap', [1, 'one', ['p', 'q']], 5), positional('wrap', [2, 'two', ['r']], 6), positional('echo_item', [3, 'three', []])],
            'msgpackrpc_pos': [R(kind, 'wrap', item1 + [('x', 5)]), R(kind, 'wrap', item2 + [('x', 6)]), R(kind, 'echo_item', item1)],
            'poly_xml': [R(kind, 'sub', [('n', 1)]), R(kind, 'sub', [('n', 2)]), R(kind, 'sub', [('n', 3)])],
            'mixin_xml': [R(kind, 'echo_item', item1), R(kind, 'wrap', item2 + [('x', 3)]), R(kind, 'echo_item', item2)],
            'multiref': [multiref(1, 'alice'), multiref(2, 'bob'), R(kind, 'echo_item', item1)],
            'wsdl2': [wsdl, wsdl],
            'wsdl3_rpc': [wsdl, wsdl, wsdl, R(kind, 'echo', [('n', 5)])],
            'wsdl_rpc': [wsdl, R(kind, 'echo_item', item1)],
            'rpc_pa': [R(kind, 'echo_item', item1), R(kind, 'echo_item', item2)],
            'rpc_pa_json': [R(kind, 'echo_item', item1), R(kind, 'echo_item', item2)],
            'lxml_mix': [R(kind, 'echo_item', item1), R(kind, 'echo', [('n', 'abc')]), R(kind, 'echo', [('n', 7)])],
            'json_mix': [R(kind, 'echo_item', item1), R(kind, 'fail', [('code', 'Client.X'), ('msg', 'm')]), R(kind, 'nosuch', [('n', 1)])],
            'xml_3': [R(kind, 'echo_item', item1), R(kind, 'echo_text', [('s', 'héllo')]), wsdl],
            'msgpack_mix': [R(kind, 'echo_item', item1), R(kind, 'echo', [('n', 'abc')]), R(kind, 'wrap', item2 + [('x', 3)])],
            'soap12_mix': [R(kind, 'wrap', item1 + [('x', 9)]), R(kind, 'fail', [('code', 'Server.Y'), ('msg', 'boom')]), R(kind, 'echo', [('n', 'zz')])],
        }[name]

    def call(self, i):
        r = self.requests[i]
        env, inp = drive.make_environ(r['method'], r['path'], r['qs'], r['body'], r['content_type'])
        res = drive.call_wsgi(self.wsgi, env, inp)
        if res.exc is not None:
            return ('EXC', type(res.exc).__name__, str(res.exc)[:200])
        hdrs = tuple(sorted((k, v) for k, v in res.headers))
        return (res.status, hdrs, res.body)


def sequential_oracle(name, coop=True):
    """Every request alone on a fresh identical application."""
    out = []
    u0 = Universe(name, coop)
    for i in range(len(u0.requests)):
        reset_memos()
        u = Universe(name, coop)
        out.append(u.call(i))
    return out


def run_schedule(name, plan, order, record=False, watchdog=20.0):
    reset_memos()
    u = Universe(name)
    names = ['w%d' % i for i in range(len(u.requests))]
    sch = S.Sched(names, plan=plan, order=order, record=record)
    jobs = {n: (lambda i=i: u.call(i)) for i, n in enumerate(names)}
    results, status = S.run_threads(sch, jobs, watchdog)
    return u, sch, results, status


def summarize(r):
    if r is None:
        return None
    if r and r[0] in ('EXC', 'ABORTED'):
        return list(r)
    import hashlib
    return [r[0], hashlib.sha1(repr(r[1]).encode() + r[2]).hexdigest()[:10], len(r[2])]


def judge(R, name, u, sch, results, status, oracle, plan, order, mode):
    nreq = len(u.requests)
    repro = {'workload': name, 'plan': [list(k) + [v] for k, v in (plan or {}).items()], 'order': order, 'mode': mode}
    if status == 'stuck':
        R.inconclusive.append('schedule stuck (watchdog): %r' % (repro,))
        R.count('schedules_stuck')
        return False
    if status == 'deadlock':
        R.violation('deadlock: every unfinished worker is blocked on a lock (switches: %r)' % (sch.switches[-6:],), repro, mech='deadlock')
        return True
    bad = False
    for i in range(nreq):
        got = results.get('w%d' % i)
        R.count('responses_compared')
        if got != oracle[i]:
            bad = True
            is_wsdl = u.requests[i].get('qs') == 'wsdl'
            R.violation('caller w%d (%s) got %r under the schedule, alone it gets %r' % (
                i, 'wsdl' if is_wsdl else u.requests[i]['path'] + (u.requests[i]['qs'] or ''), summarize(got), summarize(oracle[i])),
                dict(repro, caller=i), mech='wsdl_differs' if is_wsdl else mech_for(name, got, oracle[i]),
                switches=[list(map(str, s)) for s in sch.switches[:12]] if sch is not None else None)
    nw = sum(1 for r in u.requests if r.get('qs') == 'wsdl')
    if nw:
        R.count('wsdl_builds_counted')
        if u.builds != 1:
            bad = True
            R.violation('interface document built %d times for %d racing ?wsdl requests' % (u.builds, nw), repro, mech='wsdl_built_more_than_once')
    return bad


def mech_for(name, got, want):
    if got and got[0] == 'EXC':
        return 'exception_under_interleaving:%s' % got[1]
    return 'response_differs_under_interleaving'


def candidates(rec, rng, occ_cap=64):
    """(thread, loc, line, n) preemption candidates from a recording: every
    occurrence for locations executed <= 64 times, a sample for hot ones."""
    by_loc = {}
    for t, l, ln, n in rec:
        by_loc.setdefault((t, l, ln), []).append(n)
    out = []
    for (t, l, ln), ns in sorted(by_loc.items()):
        if len(ns) <= occ_cap:
            pick = ns
        else:
            pick = sorted(set([ns[0], ns[1], ns[-1]] + rng.sample(ns, min(3, len(ns)))))
        out += [(t, l, ln, n) for n in pick]
    return out


def run_systematic(spec, R):
    rng = core.rng_for(spec['seed'], PROP, spec['shard'])
    name = spec['workload']
    instrument_for(name)
    swap_memo_locks()
    oracle = sequential_oracle(name)
    oracle2 = sequential_oracle(name)
    if oracle != oracle2:
        R.inconclusive.append('sequential oracle of %s is not deterministic' % name)
        return
    if any(o[0] == 'EXC' for o in oracle):
        R.notes.append('%s: a request raises even alone: %r' % (name, [summarize(o) for o in oracle]))
    n = len(oracle)
    names = ['w%d' % i for i in range(n)]
    # warm-up + recording, per rotation (the first thread of the order is the one being preempted)
    run_schedule(name, {}, names)
    allc = []
    sigs = set()
    budget_t = time.time() + (40 if spec['tier'] == 'quick' else 600)
    occ_cap = 3 if spec['tier'] == 'quick' else 64
    triples = []
    for rot in range(n):
        order = names[rot:] + names[:rot]
        u, s1, r1, st1 = run_schedule(name, {}, order, record=True)
        u, s2, r2, st2 = run_schedule(name, {}, order, record=True)
        R.evaluations += 2
        R.count('schedules_executed', 2)
        judge(R, name, u, s2, r2, st2, oracle, {}, order, 'recording')
        if s1.record != s2.record:
            # iteration order over id()-keyed containers differs between fresh universes: points are
            # addressed by (thread, location, n-th occurrence), a plan that is not hit is counted below
            R.count('recordings_nondeterministic')
        cands = candidates([p for p in s1.record if p[0] == order[0]], rng, occ_cap)
        R.count('candidate_points', len(cands))
        R.counters.setdefault('locations', [])
        R.counters['locations'] = sorted(set(R.counters['locations']) | set('%s:%d' % (c[1], c[2]) for c in cands))[:600]
        allc += cands
        for c in cands:
            for tgt in names:
                if tgt != c[0]:
                    triples.append((c[3], rng.random(), order, c, tgt))
    # ALL single preemptions, lowest occurrence numbers first so that every location is reached early
    triples.sort(key=lambda t: (t[0], t[1]))
    R.count('single_preemption_schedules_planned', len(triples))
    covered = set()
    for _, _, order, c, tgt in triples:
        if time.time() > budget_t:
            R.count('single_preemptions_skipped_for_budget')
            continue
        plan = {c: tgt}
        u, s, res, st = run_schedule(name, plan, order)
        R.evaluations += 1
        R.count('schedules_executed')
        if c in s.used and any(w[0] == 'preempt' for _, _, w in s.switches):
            R.count('preemptions_taken')
            covered.add((c[1], c[2]))
            sigs.add(s.signature())
            R.nontrivial(name, s.signature())
        else:
            R.count('plan_not_hit')
        judge(R, name, u, s, res, st, oracle, plan, order, 'single')
        if len(R.samples) < 2 and c in s.used:
            R.sample({'workload': name, 'order': order, 'preempt_at': list(c), 'target': tgt,
                      'switches': [list(map(str, x)) for x in s.switches], 'responses': [summarize(res.get(x)) for x in names]})
    R.count('locations_preempted', len(covered))
    R.count('locations_total', len(set((c[1], c[2]) for c in allc)))
    R.counters['exhaustive_single_preemption'] = 0 if R.counters.get('single_preemptions_skipped_for_budget') else 1
    # random schedules with up to 3 preemptions
    nrand = 150 if spec['tier'] == 'quick' else 4000
    for k in range(nrand):
        if time.time() > budget_t + (15 if spec['tier'] == 'quick' else 300) or not allc:
            break
        order = names[:]
        rng.shuffle(order)
        plan = {}
        for _ in range(rng.randint(2, 3)):
            c = rng.choice(allc)
            plan[c] = rng.choice([t for t in names if t != c[0]])
        u, s, res, st = run_schedule(name, plan, order)
        R.evaluations += 1
        R.count('schedules_executed')
        taken = sum(1 for _, _, w in s.switches if w[0] == 'preempt')
        R.count('preemptions_taken', taken)
        if taken:
            R.nontrivial(name, s.signature())
        R.count('random_schedules')
        R.counters['max_preemptions_in_one_schedule'] = max(R.counters.get('max_preemptions_in_one_schedule', 0), taken)
        judge(R, name, u, s, res, st, oracle, plan, order, 'random')
    R.count('distinct_interleavings', len(R.sigs))
    R.cell('systematic|%s' % name, R.counters.get('schedules_executed', 0))


def run_stress_mode(spec, R):
    """Free-running threads, no cooperative locks, random yields from LINE
    callbacks over ALL instrumented code + protocol code."""
    rng = core.rng_for(spec['seed'], PROP, spec['shard'])
    instrument()
    import spyne.protocol.xml as x
    import spyne.protocol.dictdoc.hier as h
    import spyne.protocol.soap.soap11 as s11
    import spyne.model.complex as mc
    S.instrument([x, h, s11, mc])
    iters = 25 if spec['tier'] == 'quick' else 600
    tmax = time.time() + (45 if spec['tier'] == 'quick' else 800)
    for wname in WORKLOADS:
        oracle = sequential_oracle(wname, coop=False)
        for it in range(iters):
            if time.time() > tmax:
                break
            reset_memos()
            u = Universe(wname, coop=False)
            reps = rng.randint(1, 2)
            idx = list(range(len(u.requests))) * reps
            jobs = {'t%d' % k: (lambda i=i: u.call(i)) for k, i in enumerate(idx)}
            st = S.Stress(rng, p_yield=rng.choice((0.01, 0.05, 0.2)))
            results, status = S.run_stress(st, jobs)
            R.evaluations += 1
            R.count('stress_iterations')
            R.count('stress_yields', st.yields)
            R.count('schedules_executed')
            R.count('preemptions_taken', st.yields)
            if status != 'ok':
                R.inconclusive.append('stress run stuck')
                continue
            for k, i in enumerate(idx):
                R.count('responses_compared')
                got = results.get('t%d' % k)
                if got != oracle[i]:
                    is_wsdl = u.requests[i].get('qs') == 'wsdl'
                    R.violation('stress: caller %d of %s got %r, alone it gets %r' % (i, wname, summarize(got), summarize(oracle[i])),
                                {'workload': wname, 'mode': 'stress', 'caller': i},
                                mech='wsdl_differs' if is_wsdl else mech_for(wname, got, oracle[i]))
            if any(r.get('qs') == 'wsdl' for r in u.requests):
                R.count('wsdl_builds_counted')
                if u.builds != 1:
                    R.violation('stress: interface document built %d times' % u.builds, {'workload': wname, 'mode': 'stress'},
                                mech='wsdl_built_more_than_once')
            R.nontrivial('stress', wname, it, st.yields)
        R.cell('stress|%s' % wname, iters)


def run(spec, R):
    if spec['mode'] == 'systematic':
        run_systematic(spec, R)
    else:
        run_stress_mode(spec, R)


def replay(v, R):
    c = v['repro']
    if c.get('mode') == 'stress':
        print('stress violations are not replayable schedule by schedule; re-run ./vf check C12')
        return
    instrument()
    swap_memo_locks()
    name = c['workload']
    oracle = sequential_oracle(name)
    plan = {tuple(p[:4]): p[4] for p in c['plan']}
    run_schedule(name, {}, c['order'])
    u, s, res, st = run_schedule(name, plan, c['order'])
    bad = judge(R, name, u, s, res, st, oracle, plan, c['order'], 'replay')
    print('replayed schedule: status=%s switches=%r violation=%s' % (st, s.switches, bad))


def classify(v):
    return v.get('mech')
