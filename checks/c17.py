"""C17 - XML input is parsed with safe defaults.

The requests are processed by a child process that runs under
`strace -f -e trace=open,openat,connect,socket,...`; the syscall log is cut at
marker syscalls (openat of /vf-marker/<n>) so that every syscall is attributed
to one attack document. Monitors: syscall monitor (canary file, any path named
only in the request, non-local sockets, DTD loads), leak scanner (canary content
and entity replacement text in user-code arguments and in the response), logical
bomb verdict (client syntax fault, function not entered, no amplification), CPU
bound in process-virtual time.
"""
import json
import os
import re
import socket
import subprocess
import sys
import time

from vflib import core, miniapp as M

PROP = 'C17'
LEVEL = 'exploration'
RULE = ('attack corpus generated from templates (external general/parameter entities over file/http/ftp, external DTD '
        'subsets, XInclude, internal entities, entity-expansion chains fan-out 2..10 x depth 2..9, quadratic blow-up, deep '
        'nesting, huge attribute counts) placed at every text and attribute position of valid requests for XmlDocument, '
        'Soap11, Soap12 (default-constructed protocols) through ServerBase and WSGI, each also delivered under four other framings (XML declaration with an encoding, with and without a transport charset; ISO-8859-1; UTF-16 with BOM); non-trivial = the child processed the '
        'document under strace and its syscall segment was found; distinct by (protocol, driver, template, position, outcome).'
        ' Also: six delivery framings incl. multipart/related, bystander protocol instances with relaxed options in the same process, references between literal text and in declared attributes.')
ASSUMPTIONS = [
    'the child process also holds protocol instances (and a second application) constructed with every relaxed parser option; they are never attached to the target',
    'libxml2 in this sandbox is built without an HTTP/FTP client: a network fetch cannot happen even with unsafe options; the file/DTD canaries are the effective detectors, connect() is watched regardless',
    'syscalls are attributed to documents by marker syscalls issued by the child between documents (single-threaded child)',
    'CPU bound: 20 s of process-virtual time per document (ITIMER_VIRTUAL); wall-clock watchdog firing is inconclusive',
]
REQUIRED_COUNTERS = ('documents_processed', 'syscalls_inspected', 'segments_matched', 'canary_selfcheck_seen')
SHARD_TIMEOUT = {'quick': 900, 'thorough': 3000}
KINDS = ('xml', 'soap11', 'soap12')
TRACE = 'trace=open,openat,openat2,connect,socket,sendto,sendmsg,execve'


def shards(tier, seed):
    out = []
    for kind in KINDS:
        for driver in ('server', 'wsgi'):
            for part in range(1 if tier == 'quick' else 3):
                out.append({'shard': '%s/%s/%d' % (kind, driver, part), 'kind': kind, 'driver': driver, 'part': part,
                            'tier': tier, 'seed': seed})
    return out


# ------------------------------------------------------------------ corpus

def valid_requests(kind):
    """(name, xml text with {PROLOG} slot, list of text slots)"""
    out = []
    for meth, args in (('echo_text', [('s', '@@T0@@')]), ('echo_item', [('it', {'a': '7', 'b': '@@T0@@'})]),
                       ('echo_item', [('it', {'a': '@@T0@@', 'b': 'x'})]), ('echo', [('n', '@@T0@@')])):
        body = M.encode_request(kind, meth, args)['body'].decode()
        out.append((meth, body))
    return out


def place(body, payload_text=None, payload_attr=None, payload_elem=None, pos='text'):
    """Put the payload at a text position, as an attribute value, or as a child element."""
    if pos == 'text':
        return body.replace('@@T0@@', payload_text)
    if pos == 'attr':
        # attribute on the leaf element that carries the slot, and on the method element
        b = re.sub(r'<(tns:\w+)>@@T0@@', lambda m: '<%s vfattr="%s">5' % (m.group(1), payload_attr), body, count=1)
        return b
    if pos == 'attr-declared':
        # a declared XmlAttribute of the argument (user code reads it)
        b = body.replace('@@T0@@', '5')
        return re.sub(r'<tns:it>', lambda m: '<tns:it tag="%s">' % payload_attr, b, count=1)
    if pos == 'attr-root':
        b = body.replace('@@T0@@', '5')
        return re.sub(r'<(tns:\w+)>', lambda m: '<%s vfattr="%s">' % (m.group(1), payload_attr), b, count=1)
    if pos == 'elem':
        return body.replace('@@T0@@', payload_elem)
    raise KeyError(pos)


def corpus(kind, spec, canary, dtd_path, port, rng):
    tier = spec['tier']
    docs = []
    repl = 'REPLTEXT%d' % rng.randint(10 ** 6, 10 ** 7)

    def add(template, prolog, ref_text, ref_attr=None, elem=None, bomb=False, positions=('text', 'attr', 'attr-root', 'attr-declared'),
            expect_paths=(), marker_text=None):
        for meth, body in valid_requests(kind):
            for pos in positions:
                if pos in ('attr', 'attr-root', 'attr-declared') and ref_attr is None:
                    continue
                if pos == 'attr-declared' and meth != 'echo_item':
                    continue
                if pos == 'elem' and elem is None:
                    continue
                doc = prolog + place(body, ref_text, ref_attr, elem, pos)
                docs.append({'template': template, 'method': meth, 'pos': pos, 'doc': doc, 'bomb': bomb,
                             'forbidden_text': [t for t in (marker_text, ) if t]})

    root = {'xml': 'tns:x', 'soap11': 'e:Envelope', 'soap12': 'e:Envelope'}[kind]
    schemes = [('file', 'file://' + canary), ('file-rel', canary), ('http', 'http://127.0.0.1:%d/x' % port),
               ('ftp', 'ftp://127.0.0.1:%d/x' % port)]
    for sname, url in schemes:
        add('ext-general-' + sname, '<!DOCTYPE r [<!ENTITY x SYSTEM "%s">]>' % url, '&x;', '&x;', marker_text='CANARYCONTENT')
        add('ext-parameter-' + sname, '<!DOCTYPE r [<!ENTITY %% p SYSTEM "%s"> %%p;]>' % url, 'plain', 'plain',
            positions=('text',))
        add('ext-parameter-ref-' + sname,
            '<!DOCTYPE r [<!ENTITY %% p SYSTEM "%s"> %%p; ]>' % (url if sname != 'file' else 'file://' + dtd_path), '&fromdtd;',
            '&fromdtd;', marker_text='DTDLOADEDTEXT')
        add('ext-dtd-subset-' + sname, '<!DOCTYPE r SYSTEM "%s">' % (url if not sname.startswith('file') else dtd_path),
            '&fromdtd;', '&fromdtd;', marker_text='DTDLOADEDTEXT')
        add('ext-dtd-public-' + sname, '<!DOCTYPE r PUBLIC "-//VF//DTD X//EN" "%s">' % (url if not sname.startswith('file') else dtd_path),
            'plain', 'plain', positions=('text',))
    add('xinclude-text', '', None, None, elem='<xi:include xmlns:xi="http://www.w3.org/2001/XInclude" href="file://%s" parse="text"/>' % canary,
        positions=('elem',), marker_text='CANARYCONTENT')
    add('xinclude-xml', '', None, None, elem='<xi:include xmlns:xi="http://www.w3.org/2001/XInclude" href="%s"/>' % dtd_path,
        positions=('elem',))
    add('internal-entity', '<!DOCTYPE r [<!ENTITY x "%s">]>' % repl, '&x;', '&x;', marker_text=repl)
    # the reference between literal text (the element then has leading text AND an entity child node), and repeated
    add('internal-entity-mid', '<!DOCTYPE r [<!ENTITY x "%s">]>' % repl, 'pre&x;post', 'pre&x;post', marker_text=repl)
    add('internal-entity-ws', '<!DOCTYPE r [<!ENTITY x "%s">]>' % repl, ' &x; ', None, marker_text=repl, positions=('text',))
    add('internal-entity-twice', '<!DOCTYPE r [<!ENTITY x "%s">]>' % repl, 'a&x;b&x;c', None, marker_text=repl, positions=('text',))
    add('ext-general-file-mid', '<!DOCTYPE r [<!ENTITY x SYSTEM "file://%s">]>' % canary, 'pre&x;post', None, marker_text='CANARYCONTENT', positions=('text',))
    add('internal-entity-nested', '<!DOCTYPE r [<!ENTITY y "%s"><!ENTITY x "a&y;b">]>' % repl, '&x;', '&x;', marker_text=repl)
    add('doctype-only', '<!DOCTYPE r>', 'plain', 'plain', positions=('text',))
    add('pi-stylesheet', '<?xml-stylesheet href="file://%s" type="text/xsl"?>' % canary, 'plain', None, positions=('text',))
    # expansion bombs
    fans = [(2, 9), (10, 5), (4, 6)] if tier == 'quick' else [(f, d) for f in (2, 3, 5, 10) for d in (2, 4, 6, 8, 9)]
    for fan, depth in fans:
        ents = ['<!ENTITY e0 "%s">' % ('LOL' + repl)]
        for i in range(1, depth + 1):
            ents.append('<!ENTITY e%d "%s">' % (i, ('&e%d;' % (i - 1)) * fan))
        add('bomb-chain-f%d-d%d' % (fan, depth), '<!DOCTYPE r [%s]>' % ''.join(ents), '&e%d;' % depth, '&e%d;' % depth, bomb=True,
            marker_text='LOL' + repl, positions=('text', 'attr'))
    for n, size in ([(2000, 2000)] if tier == 'quick' else [(500, 500), (2000, 2000), (5000, 5000)]):
        add('bomb-quadratic-%dx%d' % (n, size), '<!DOCTYPE r [<!ENTITY q "%s">]>' % ('Q' * size), '&q;' * n, None, bomb=True,
            marker_text='Q' * 64, positions=('text',))
    # nesting and attribute floods (no DTD)
    for depth in ([300, 5000] if tier == 'quick' else [50, 255, 257, 1000, 5000, 50000]):
        add('deep-nesting-%d' % depth, '', None, None, elem='<d>' * depth + 'x' + '</d>' * depth, positions=('elem',), bomb=depth > 256)
    for n in ([10 ** 2, 10 ** 4] if tier == 'quick' else [10 ** 2, 10 ** 3, 10 ** 4, 10 ** 5]):
        attrs = ' '.join('a%d="v"' % i for i in range(n))
        for meth, body in valid_requests(kind)[:2]:
            b = re.sub(r'<(tns:\w+)>', lambda m: '<%s %s>' % (m.group(1), attrs), body.replace('@@T0@@', 'x'), count=1)
            docs.append({'template': 'attr-flood-%d' % n, 'method': meth, 'pos': 'attr-root', 'doc': b, 'bomb': False,
                         'forbidden_text': []})
            # the same flood on an argument element (a child of the message element)
            b2 = re.sub(r'<(tns:\w+)>(x|7)<', lambda m: '<%s %s>%s<' % (m.group(1), attrs, m.group(2)), body.replace('@@T0@@', 'x'), count=1)
            if b2 != body.replace('@@T0@@', 'x'):
                docs.append({'template': 'attr-flood-child-%d' % n, 'method': meth, 'pos': 'attr', 'doc': b2, 'bomb': False,
                             'forbidden_text': []})
    # a document inside a document: the value of an attribute of type AnyXml is XML text that the protocol parses by itself
    from xml.sax.saxutils import quoteattr
    frag_body = M.encode_request(kind, 'echo_frag', [('c', {'y': '@@Y@@'})])['body'].decode().replace('@@Y@@', '')
    inner = [('anyxml-attr-plain', '<x>5</x>', False, None), ('anyxml-attr-internal-entity', '<!DOCTYPE x [<!ENTITY a "%s"><!ENTITY b "%s">]><x>&a;&b;</x>' % (repl[:6], repl[6:]), False, repl),
             ('anyxml-attr-ext-general-file', '<!DOCTYPE x [<!ENTITY a SYSTEM "file://%s">]><x>&a;</x>' % canary, False, 'CANARYCONTENT'),
             ('anyxml-attr-ext-general-http', '<!DOCTYPE x [<!ENTITY a SYSTEM "http://127.0.0.1:%d/x">]><x>&a;</x>' % port, False, None),
             ('anyxml-attr-ext-dtd-subset', '<!DOCTYPE x SYSTEM "%s"><x>&fromdtd;</x>' % dtd_path, False, 'DTDLOADEDTEXT'),
             ('anyxml-attr-ext-parameter', '<!DOCTYPE x [<!ENTITY %% p SYSTEM "file://%s"> %%p;]><x>&fromdtd;</x>' % dtd_path, False, 'DTDLOADEDTEXT'),
             ('anyxml-attr-xinclude', '<x><xi:include xmlns:xi="http://www.w3.org/2001/XInclude" href="file://%s" parse="text"/></x>' % canary, False, 'CANARYCONTENT')]
    for fan, depth in ((10, 5), (2, 9)) if tier == 'quick' else ((10, 5), (2, 9), (10, 8), (3, 12)):
        # (a refusal may quote the text it refuses: the marker is spelled by two entities, so it only exists where they were expanded)
        ents = ['<!ENTITY z "LOL"><!ENTITY e0 "&z;%s">' % repl] + ['<!ENTITY e%d "%s">' % (i, ('&e%d;' % (i - 1)) * fan) for i in range(1, depth + 1)]
        inner.append(('bomb-anyxml-attr-chain-f%d-d%d' % (fan, depth), '<!DOCTYPE x [%s]><x>&e%d;</x>' % (''.join(ents), depth), True, 'LOL' + repl))
    # the same inner documents the way a stored file starts: with an XML declaration that names an encoding
    inner = inner + [('%s-decl%d' % (tname, di), decl + text, is_bomb, marker) for tname, text, is_bomb, marker in inner
                     for di, decl in enumerate(('<?xml version="1.0" encoding="utf-8"?>', "<?xml version='1.0' encoding='ISO-8859-1' standalone='no'?>\n",
                                                '<?xml version="1.0"?>'))]
    for tname, text, is_bomb, marker in inner:
        doc = re.sub(r'<tns:c>', lambda m: '<tns:c x=%s>' % quoteattr(text), frag_body, count=1)
        docs.append({'template': tname, 'method': 'echo_frag', 'pos': 'attr-declared', 'doc': doc, 'bomb': is_bomb, 'control': tname.endswith('-plain'),
                     'forbidden_text': [marker] if marker else []})
    # SOAP multi-reference values (id/href): a value referenced from several places is expanded at each of them, so chains of
    # references multiply like entity chains do; and what is copied for each reference includes the attributes of the value
    if kind in ('soap11', 'soap12'):
        mr_body = [b for m, b in valid_requests(kind) if m == 'echo_item'][0]
        def multiref(extra_attrs, values):
            b = re.sub(r'<tns:it>.*</tns:it>', '<tns:it href="#top"/>', mr_body, count=1, flags=re.S)
            return re.sub(r'</tns:echo_item>', lambda m: '</tns:echo_item>' + values, b, count=1)
        mfans = [(10, 5), (2, 16)] if tier == 'quick' else [(2, 3), (10, 3), (10, 5), (10, 7), (10, 9), (2, 16), (2, 22), (3, 12), (100, 3), (1000, 2)]
        for fan, depth in mfans:
            vals = ['<tns:v id="l0"><tns:a>7</tns:a><tns:b>x</tns:b></tns:v>']
            for i in range(1, depth + 1):
                vals.append('<tns:v id="l%d">%s</tns:v>' % (i, ''.join('<tns:k href="#l%d"/>' % (i - 1) for _ in range(fan))))
            vals.append('<tns:Item id="top"><tns:a>7</tns:a><tns:b>x</tns:b><tns:k href="#l%d"/></tns:Item>' % depth)
            docs.append({'template': 'multiref-chain-f%d-d%d' % (fan, depth), 'method': 'echo_item', 'pos': 'elem', 'doc': multiref('', ''.join(vals)),
                         'bomb': False, 'multiref': True, 'forbidden_text': []})
        for n in ([10 ** 4] if tier == 'quick' else [10 ** 2, 10 ** 4, 10 ** 5]):
            attrs = ' '.join('a%d=""' % i for i in range(n))
            docs.append({'template': 'multiref-attr-flood-%d' % n, 'method': 'echo_item', 'pos': 'attr', 'bomb': False, 'multiref': True,
                         'forbidden_text': [], 'doc': multiref('', '<tns:Item id="top" %s><tns:a>7</tns:a><tns:b>x</tns:b></tns:Item>' % attrs)})
            docs.append({'template': 'multiref-accessor-attr-flood-%d' % n, 'method': 'echo_item', 'pos': 'attr', 'bomb': False, 'multiref': True,
                         'forbidden_text': [], 'doc': multiref('', '<tns:Item id="top"><tns:a>7</tns:a><tns:b>x</tns:b></tns:Item>').replace(
                             '<tns:it href="#top"/>', '<tns:it href="#top" %s/>' % attrs)})
        # the same expansion below plain elements and below elements that carry an href attribute of their own (a link in the user's model,
        # not an accessor: it has children): what decides whether the request is served must not depend on that attribute
        for n_w, n_c in ((600, 40), (30, 10)) if tier == 'quick' else ((600, 40), (30, 10), (3000, 40), (100, 200), (2000, 4)):
            big = '<tns:v id="big">%s</tns:v>' % ('<tns:c>x</tns:c>' * n_c)
            for role, attr in (('plain', ''), ('href-attr', ' href="http://example.com/%d"'), ('href-local-attr', ' href="#nosuch%d"'), ('other-attr', ' rel="r%d"')):
                ws = ''.join('<tns:w%s><tns:k href="#big"/></tns:w>' % ((attr % i) if attr else '') for i in range(n_w))
                docs.append({'template': 'multiref-wide-%dx%d-%s' % (n_w, n_c, role), 'method': 'echo_item', 'pos': 'elem', 'bomb': False, 'multiref': True,
                             'forbidden_text': [], 'twin': 'multiref-wide-%dx%d' % (n_w, n_c), 'twin_role': role,
                             'doc': multiref('', big).replace('<tns:it href="#top"/>', '<tns:it><tns:a>7</tns:a><tns:b>x</tns:b>%s</tns:it>' % ws)})
        # what is copied for every reference includes the attributes of the referenced element and of its descendants
        for n_attr, n_ref in ((5000, 400),) if tier == 'quick' else ((5000, 400), (200, 5000), (20000, 100)):
            attrs = ' '.join('a%d=""' % i for i in range(n_attr))
            docs.append({'template': 'multiref-attrs-%dx%d' % (n_attr, n_ref), 'method': 'echo_item', 'pos': 'attr', 'bomb': False, 'multiref': True, 'forbidden_text': [],
                         'doc': multiref('', '<tns:v id="big" %s/>' % attrs).replace(
                             '<tns:it href="#top"/>', '<tns:it><tns:a>7</tns:a><tns:b>x</tns:b>%s</tns:it>' % ('<tns:k href="#big"/>' * n_ref))})
        # depth through chains of referenced elements: each of them nests its accessor deeply
        for n_t, depth in ((8, 200),) if tier == 'quick' else ((8, 200), (3, 240), (40, 100), (200, 20)):
            vals = ''.join('<tns:v id="m%d">%s%s%s</tns:v>' % (i, '<tns:q>' * depth, '<tns:k href="#m%d"/>' % (i + 1) if i + 1 < n_t else '<tns:c>x</tns:c>',
                                                                '</tns:q>' * depth) for i in range(n_t))
            docs.append({'template': 'multiref-deep-%dx%d' % (n_t, depth), 'method': 'echo_item', 'pos': 'elem', 'bomb': False, 'multiref': True, 'forbidden_text': [],
                         'doc': multiref('', vals).replace('<tns:it href="#top"/>', '<tns:it><tns:a>7</tns:a><tns:b>x</tns:b><tns:k href="#m0"/></tns:it>')})
        docs.append({'template': 'multiref-plain', 'method': 'echo_item', 'pos': 'elem', 'bomb': False, 'multiref': True, 'control': True,
                     'forbidden_text': [], 'doc': multiref('', '<tns:Item id="top"><tns:a>7</tns:a><tns:b>x</tns:b></tns:Item>')})
    # attribute floods on the element of a class that declares attributes (user code reads them, so the reader walks them): the cost of reading
    # must grow with the request, not with its square - the same flood at n and at 4n attributes
    for n in ((20000, 80000) if tier == 'quick' else (20000, 80000, 160000)):
        attrs = ' '.join('a%d="v"' % i for i in range(n))
        body = [b for m, b in valid_requests(kind) if m == 'echo_item'][0].replace('@@T0@@', 'x')
        b3 = re.sub(r'<tns:it>', lambda m: '<tns:it tag="t" %s>' % attrs, body, count=1)
        docs.append({'template': 'attr-flood-declared-%d' % n, 'method': 'echo_item', 'pos': 'attr-declared', 'doc': b3, 'bomb': False, 'forbidden_text': [],
                     'scaling': ('attr-flood-declared', n)})
    # benign controls: the monitors must see a normal call
    for meth, body in valid_requests(kind):
        docs.append({'template': 'control-valid', 'method': meth, 'pos': 'text', 'doc': body.replace('@@T0@@', '5'), 'bomb': False,
                     'forbidden_text': [], 'control': True})
    # the same documents delivered differently: an XML declaration with its own encoding, with and without a transport charset,
    # and other encodings - each combination may take another route to the parser
    framed = []
    keys = ('internal-entity', 'ext-general-file', 'ext-dtd-subset-file', 'ext-parameter-ref-file', 'xinclude-text', 'control-valid',
            'bomb-chain-f10-d5', 'bomb-chain-f2-d9')
    for d in docs:
        if d['template'] in keys or (tier != 'quick' and not d['template'].startswith(('attr-flood', 'deep-nesting', 'bomb-quadratic'))):
            for fr in FRAMINGS[1:]:
                if fr == 'multipart' and (kind == 'xml' or spec['driver'] != 'wsgi'):
                    continue          # SOAP over HTTP only
                if tier == 'quick' and d['pos'] not in ('text', 'elem') and fr != 'decl-utf8':
                    continue
                framed.append(dict(d, framing=fr, template=d['template'] + '@' + fr))
    docs += framed
    part, nparts = spec['part'], (1 if tier == 'quick' else 3)
    docs = [d for i, d in enumerate(docs) if i % nparts == part]
    for i, d in enumerate(docs):
        d['i'] = i
    return docs, repl


FRAMINGS = ('plain', 'decl-utf8', 'decl-nocharset', 'decl-latin1', 'utf16-bom', 'multipart')


def frame(kind, doc, framing):
    """-> (request bytes, Content-Type, charset handed to generate_contexts)"""
    base = {'xml': 'text/xml', 'soap11': 'text/xml', 'soap12': 'application/soap+xml'}[kind]
    if framing in (None, 'plain'):
        cs = None if kind == 'xml' else 'utf-8'
        return doc.encode('utf8'), base + ('; charset=utf-8' if cs else ''), None
    if framing == 'decl-utf8':
        return ('<?xml version="1.0" encoding="UTF-8"?>' + doc).encode('utf8'), base + '; charset=utf-8', 'utf-8'
    if framing == 'decl-nocharset':
        return ('<?xml version="1.0" encoding="UTF-8"?>' + doc).encode('utf8'), base, None
    if framing == 'decl-latin1':
        return ('<?xml version="1.0" encoding="ISO-8859-1"?>' + doc).encode('latin-1', 'xmlcharrefreplace'), base + '; charset=iso-8859-1', 'iso-8859-1'
    if framing == 'utf16-bom':
        return ('<?xml version="1.0" encoding="UTF-16"?>' + doc).encode('utf-16'), base, None
    if framing == 'multipart':
        # SOAP with attachments: the envelope is the root part of a multipart/related body (takes another route to the parser)
        b = b'vfboundary'
        body = (b'--' + b + b'\r\nContent-Type: text/xml; charset=utf-8\r\nContent-ID: <root>\r\n\r\n' + doc.encode('utf8') + b'\r\n--' + b +
                b'\r\nContent-Type: application/octet-stream\r\nContent-Transfer-Encoding: base64\r\nContent-ID: <att1>\r\n\r\nQUJD\r\n--' + b + b'--\r\n')
        return body, 'multipart/related; boundary="vfboundary"; start="<root>"; type="text/xml"', None
    raise KeyError(framing)


def make_bystanders(tag):
    """relaxed protocol instances and a peer application; the relaxed instances are the last ones constructed"""
    from spyne import Application
    from spyne.protocol.xml import XmlDocument
    from spyne.protocol.soap import Soap11, Soap12
    relaxed = dict(resolve_entities=True, huge_tree=True, load_dtd=True, no_network=False, dtd_validation=False, attribute_defaults=True,
                   remove_pis=False)
    out = []
    for cls in (XmlDocument, Soap11, Soap12):
        plain_out = cls()
        out.append(Application([M.build_service(M.Recorder())[0]], '%s:peer:%s' % (M.TNS, tag), name='Peer%s%s' % (cls.__name__, tag),
                               in_protocol=cls(**relaxed), out_protocol=plain_out))
        out.append(cls(**relaxed))
    return out


# ------------------------------------------------------------------ child

def child_main(corpus_path, out_path):
    """Runs under strace. Processes every document and records what user code
    and the client saw."""
    import resource
    import signal
    import traceback
    core.bootstrap()
    from vflib import drive
    with open(corpus_path) as f:
        job = json.load(f)
    kind, driver = job['kind'], job['driver']
    rec = M.Recorder()
    early = make_bystanders('before')
    inp, outp = M.make_protocols(kind)         # default-constructed protocols
    from spyne import Application
    svc, _ = M.build_service(rec, {'anyxml': True})
    app = Application([svc], M.TNS, name='C17App', in_protocol=inp, out_protocol=outp)
    if driver == 'wsgi':
        from spyne.server.wsgi import WsgiApplication
        target = WsgiApplication(app)
    else:
        from spyne.server import ServerBase
        target = ServerBase(app)
    # bystanders: other protocol instances of the same process, configured with every documented relaxation (think of a
    # second application for a trusted peer). They are never attached to the target; "default settings" is a property of
    # the target's own protocol instances and must not depend on who else was constructed, before or after.
    bystanders = make_bystanders('after')
    try:
        resource.setrlimit(resource.RLIMIT_AS, (6 * 2 ** 30, 6 * 2 ** 30))
    except Exception:
        pass

    class CpuBound(Exception):
        pass

    def on_vtalrm(signum, frame):
        raise CpuBound(''.join(traceback.format_stack(frame)[-6:]))
    signal.signal(signal.SIGVTALRM, on_vtalrm)

    def marker(name):
        try:
            os.close(os.open('/vf-marker/%s' % name, os.O_RDONLY))
        except OSError:
            pass

    # self-check of the monitor: the child itself opens the canary once, inside a
    # dedicated segment, so that the parent can verify strace sees such an open
    marker('selfcheck-begin')
    try:
        open(job['canary']).read()
    except OSError:
        pass
    marker('selfcheck-end')
    results = []
    for d in job['docs']:
        body, ctype, charset = frame(kind, d['doc'], d.get('framing'))
        rec.reset()
        r = {'i': d['i']}
        ru0 = resource.getrusage(resource.RUSAGE_SELF)
        marker('begin-%d' % d['i'])
        signal.setitimer(signal.ITIMER_VIRTUAL, 20.0)
        try:
            if driver == 'wsgi':
                env, inp_ = drive.make_environ('POST', '/', '', body, ctype)
                w = drive.call_wsgi(target, env, inp_)
                r['status'] = w.status
                r['body'] = w.body.decode('utf8', 'replace')
                r['exc'] = repr(w.exc) if w.exc is not None else None
                if isinstance(w.exc, CpuBound):
                    r['cpu_bound'] = str(w.exc)
            else:
                s = drive.drive_server(target, body, charset)
                r['body'] = (s.out or b'').decode('utf8', 'replace')
                r['exc'] = repr(s.exc) if s.exc is not None else None
                r['fault'] = s.error.faultcode if s.error is not None else None
                if isinstance(s.exc, CpuBound):
                    r['cpu_bound'] = str(s.exc)
        except CpuBound as e:
            r['cpu_bound'] = str(e)
        except MemoryError:
            r['memory_error'] = True
        finally:
            signal.setitimer(signal.ITIMER_VIRTUAL, 0)
        marker('end-%d' % d['i'])
        ru1 = resource.getrusage(resource.RUSAGE_SELF)
        r['cpu_s'] = round((ru1.ru_utime + ru1.ru_stime) - (ru0.ru_utime + ru0.ru_stime), 4)
        r['maxrss_kb'] = ru1.ru_maxrss
        r['rss_growth_kb'] = ru1.ru_maxrss - ru0.ru_maxrss
        r['calls'] = [[c[0], [_flat(a) for a in c[1]]] for c in rec.calls]
        if len(r['body']) > 200000:
            r['body_len'] = len(r['body'])
            r['body'] = r['body'][:100000]
        results.append(r)
    with open(out_path, 'w') as f:
        json.dump(results, f)


def _flat(a):
    if a is None or isinstance(a, (int, float)):
        return a
    if isinstance(a, str):
        return a if len(a) < 100000 else a[:50000] + '...(%d chars)' % len(a)
    try:
        return {k: _flat(getattr(a, k, None)) for k in ('a', 'b', 'tag')}
    except Exception:
        return repr(a)[:200]


# ------------------------------------------------------------------ parent

SYSCALL = re.compile(r'^(\d+)\s+(\w+)\((.*)$')


def parse_strace(path):
    """-> dict segment name -> list of (syscall, args-text)"""
    segs = {}
    cur = None
    n = 0
    with open(path, errors='replace') as f:
        for line in f:
            m = SYSCALL.match(line)
            if not m:
                continue
            n += 1
            call, args = m.group(2), m.group(3)
            mm = re.search(r'"/vf-marker/([\w-]+)"', args)
            if mm:
                name = mm.group(1)
                if name.startswith('begin-'):
                    cur = name[6:]
                    segs[cur] = []
                elif name == 'selfcheck-begin':
                    cur = 'selfcheck'
                    segs[cur] = []
                else:
                    cur = None
                continue
            if cur is not None:
                segs[cur].append((call, args))
    return segs, n


def run(spec, R):
    rng = core.rng_for(spec['seed'], PROP, spec['shard'])
    os.makedirs(core.WORK, exist_ok=True)
    tag = os.path.join(core.WORK, 'c17-%d-%s' % (os.getpid(), spec['shard'].replace('/', '_')))
    canary = tag + '-canary.txt'
    dtd = tag + '-canary.dtd'
    token = 'CANARYCONTENT%d' % rng.randint(10 ** 8, 10 ** 9)
    with open(canary, 'w') as f:
        f.write(token)
    with open(dtd, 'w') as f:
        f.write('<!ENTITY fromdtd "DTDLOADEDTEXT">\n')
    lsock = socket.socket()
    lsock.bind(('127.0.0.1', 0))
    lsock.listen(16)
    lsock.settimeout(0)
    port = lsock.getsockname()[1]
    docs, repl = corpus(spec['kind'], spec, canary, dtd, port, rng)
    for d in docs:
        d['forbidden_text'] = [token if t == 'CANARYCONTENT' else t for t in d['forbidden_text']]
    job = {'kind': spec['kind'], 'driver': spec['driver'], 'docs': docs, 'canary': canary}
    cpath, opath, spath = tag + '-corpus.json', tag + '-out.json', tag + '-strace.log'
    with open(cpath, 'w') as f:
        json.dump(job, f)
    env = dict(os.environ, PYTHONPATH=core.VERIF, VERIF_REPO=core.REPO, PYTHONDONTWRITEBYTECODE='1')
    t0 = time.time()
    try:
        p = subprocess.run(['strace', '-f', '-qq', '-o', spath, '-e', TRACE, '-s', '512', core.PY, '-B', '-m', 'checks.c17',
                            'child', cpath, opath], cwd=core.VERIF, env=env, capture_output=True, text=True,
                           timeout=SHARD_TIMEOUT[spec['tier']] - 60)
    except subprocess.TimeoutExpired:
        R.inconclusive.append('child watchdog fired')
        _rm(canary, dtd, cpath, opath, spath)
        return
    if not os.path.exists(opath):
        R.inconclusive.append('child died: rc=%s %s' % (p.returncode, (p.stderr or '')[-800:]))
        R.notes.append('child died: rc=%s %s' % (p.returncode, (p.stderr or '')[-400:]))
        _rm(canary, dtd, cpath, opath, spath)
        return
    with open(opath) as f:
        results = {r['i']: r for r in json.load(f)}
    segs, nsys = parse_strace(spath)
    R.count('syscalls_inspected', nsys)
    accepted = 0
    try:
        while True:
            c, _ = lsock.accept()
            c.close()
            accepted += 1
    except (BlockingIOError, OSError):
        pass
    lsock.close()
    # monitor self-check: strace must have shown the child's own canary open
    sc = segs.get('selfcheck', [])
    if any(canary in a for c, a in sc if c.startswith('open')):
        R.count('canary_selfcheck_seen')
    else:
        R.inconclusive.append('strace did not show the self-check open of the canary: syscall monitor blind')
        _rm(canary, dtd, cpath, opath, spath)
        return
    if accepted:
        R.violation('network canary accepted %d connections' % accepted, {'spec': spec}, mech='network_connect')
    twins = {}
    scaling = {}
    for d in docs:
        r = results.get(d['i'])
        if r is None:
            R.inconclusive.append('document %d not processed' % d['i'])
            continue
        R.evaluations += 1
        R.count('documents_processed')
        seg = segs.get(str(d['i']))
        case = {'kind': spec['kind'], 'driver': spec['driver'], 'template': d['template'], 'method': d['method'], 'pos': d['pos'],
                'doc': d['doc'] if len(d['doc']) < 4000 else d['doc'][:2000] + '...(%d chars)' % len(d['doc'])}
        if seg is None:
            R.inconclusive.append('no syscall segment for document %d' % d['i'])
            continue
        R.count('segments_matched')
        # --- syscall monitor
        for call, args in seg:
            if call.startswith('open'):
                mm = re.search(r'"([^"]*)"', args)
                path = mm.group(1) if mm else ''
                if path in (canary, dtd) or path.endswith('.dtd') or (path and path in d['doc'] and not path.startswith('/vf-marker')):
                    R.violation('request made the server open %r' % path, case, mech='file_open:%s' % ('dtd' if path.endswith('.dtd') else 'canary'),
                                template=d['template'])
            elif call == 'connect' and ('AF_INET' in args):
                R.violation('request made the server connect: %s' % args[:120], case, mech='network_connect')
            elif call == 'socket' and 'AF_INET' in args:
                R.violation('request made the server create an inet socket: %s' % args[:80], case, mech='network_socket')
        # --- leak scanner
        hay = [r.get('body') or ''] + [json.dumps(c) for c in r.get('calls', [])]
        for t in d['forbidden_text']:
            if any(t in h for h in hay):
                where = 'response' if t in hay[0] else 'user-code arguments'
                R.violation('replacement text %r reached %s' % (t[:40], where), case, mech='replacement_text_leak:%s' % where,
                            template=d['template'])
        # --- escape / bounded progress
        if r.get('cpu_bound'):
            R.violation('more than 20 s of CPU for one %d-byte document; stack: %s' % (len(d['doc']), r['cpu_bound'][-600:]), case,
                        mech='cpu_bound_exceeded')
        if d.get('multiref') and r.get('rss_growth_kb', 0) > 300000:
            R.violation('resident set grew by %d MB while a %d-byte request with multi-reference values was read' % (r['rss_growth_kb'] // 1024, len(d['doc'])),
                        case, mech='memory_bound_exceeded:multiref')
        if d.get('multiref'):
            R.count('multiref_documents')
        if r.get('memory_error'):
            R.violation('MemoryError while processing a %d-byte document' % len(d['doc']), case, mech='memory_bound_exceeded')
        if r.get('exc') and not r.get('cpu_bound'):
            R.violation('exception escaped request processing: %s' % r['exc'][:200], case, mech='escape:' + r['exc'].split('(')[0])
        # --- logical verdict
        entered = bool(r.get('calls'))
        fault = _fault_of(spec, r)
        if d['bomb']:
            big = max([len(h) for h in hay] + [r.get('body_len', 0)])
            amplified = big >= 8 * len(d['doc']) and big > 10000
            leaked = any(t in h for t in d['forbidden_text'] for h in hay)
            rejected = fault is not None and str(fault).split(':')[-1].startswith('Client')
            if amplified:
                R.violation('amplification: %d bytes from a %d-byte request' % (big, len(d['doc'])), case, mech='bomb_amplification')
            if not rejected:
                if d['template'].startswith('bomb-') and not amplified and not leaked and not r.get('cpu_bound'):
                    # the entity bomb was neutralised (references left unexpanded) instead of rejected
                    R.violation('entity bomb %s parsed without expansion but not rejected (function entered=%s)' % (d['template'], entered),
                                case, mech='entity_bomb_inert_not_rejected')
                else:
                    if entered:
                        R.violation('user function ran for a bomb document (%s)' % d['template'], case, mech='bomb_reached_user_code')
                    R.violation('bomb document not answered with a client fault: %r' % (fault,), case, mech='bomb_not_client_fault')
        if d.get('scaling'):
            scaling.setdefault(d['scaling'][0], {})[d['scaling'][1]] = (r.get('cpu_s', 0), case, fault)
        if d.get('twin'):
            twins.setdefault(d['twin'], {})[d['twin_role']] = ('refused' if fault is not None else 'served' if entered else 'other', case)
        if d.get('control'):
            if not entered or fault is not None:
                R.inconclusive.append('control request did not run normally: %r' % (fault,))
            else:
                R.count('controls_ok')
        outcome = 'fault:%s' % fault if fault else ('entered' if entered else 'other')
        R.nontrivial(spec['kind'], spec['driver'], d['template'], d['pos'], outcome)
        R.cell('%s|%s|%s' % (spec['kind'], spec['driver'], d['template'].split('-')[0]))
        R.count('outcome:' + outcome.split('.')[0][:40])
        R.count('cpu_ms_total', int(r.get('cpu_s', 0) * 1000))
        if len(R.samples) < 4 and d['template'].startswith(('ext-general-file', 'bomb-chain', 'internal')):
            R.sample({'case': {k: case[k] for k in ('kind', 'driver', 'template', 'pos')}, 'doc': case['doc'][:400], 'outcome': outcome,
                      'syscalls_in_segment': len(seg), 'cpu_s': r.get('cpu_s')})
    for key, pts in sorted(scaling.items()):
        ns_ = sorted(pts)
        for a_, b_ in zip(ns_, ns_[1:]):
            (ca, _, fa), (cb, case_b, fb) = pts[a_], pts[b_]
            R.count('scaling_pairs_compared')
            # four times the input may cost four times the time, with slack for noise; sixteen times is the square
            if fa is None and fb is None and cb > 2.0 and cb > 9 * max(ca, 0.05) * (b_ / a_) / 4:
                R.violation('%s: %d attributes took %.2f s of CPU, %d took %.2f s - the cost grows faster than the request' % (key, a_, ca, b_, cb), case_b,
                            mech='cost_superlinear:%s' % key)
    for key, roles in sorted(twins.items()):
        base = roles.get('plain')
        for role, (verdict, case) in sorted(roles.items()):
            R.count('twin_documents_compared')
            if base is not None and verdict != base[0]:
                R.violation('%s: the request is %s below plain elements and %s below elements with the attribute variant %r' % (key, base[0], verdict, role), case,
                            mech='multiref_verdict_depends_on_attribute:%s' % role)
    R.counters['max_rss_kb'] = max([r.get('maxrss_kb', 0) for r in results.values()] or [0])
    _rm(canary, dtd, cpath, opath, spath)
    R.counters['wall_child_s'] = int(time.time() - t0)


def _fault_of(spec, r):
    if spec['driver'] == 'server':
        return r.get('fault')
    f = M.decode_fault(spec['kind'], (r.get('body') or '').encode('utf8'))
    return f[0] if f else None


def _rm(*paths):
    for p in paths:
        try:
            os.unlink(p)
        except OSError:
            pass


def post_merge(total, tier, seed):
    # max, not sum
    pass


def replay(v, R):
    c = v['repro']
    print('replay: re-run `./vf check C17` (a single document needs the strace harness); document was:\n%s' % c.get('doc', '')[:600])


def classify(v):
    return v.get('mech')


if __name__ == '__main__':
    if sys.argv[1] == 'child':
        child_main(sys.argv[2], sys.argv[3])
