"""C01 - XML/SOAP wire fidelity.

Generated universes x {XmlDocument, Soap11, Soap12} x validator {None, soft,
lxml}. The request is built by the reference encoder from the PUBLISHED
WSDL/XSD (never by spyne), checked valid against that schema, pushed through
the ServerBase stages and through WSGI; a call recorder inside the generated
user function captures what user code received; the response is decoded by the
reference decoder, by the loopback spyne client and (SOAP) by zeep.
"""
import base64
import io
import json
import random

from vflib import core, drive, gen, refxml, clients

PROP = 'C01'
LEVEL = 'exploration'
RULE = ('random type universes (primitives with facets, nested complex types across namespaces, inheritance, wrapped and '
        'unwrapped arrays, XmlAttribute/XmlData, enums; wrapped/bare/out_bare methods; 0..3 return values) x protocol x validator; '
        'boundary-biased conformant values; non-trivial = user function entered with at least one non-null argument or a non-null '
        'return decoded; distinct by (protocol, validator, driver, argument/return shapes, value classes).'
        ' Also: requests written the way other toolkits write them (white space around collapse-type literals, indentation, comments, PIs, CDATA), public member names that differ from the attribute names (sub_name), Decimal(total_digits, fraction_digits), classes that contain themselves, SOAP headers in subsets, id/href attribute universes, the spyne client library round trip.')
ASSUMPTIONS = [
    'reference codec vflib/refxml.py (driven by the published WSDL/XSD) + vflib/lex.py are trusted; every reference request is first validated against the published schema (invalid => skipped, C06 looks at it)',
    'zeep comparisons only for value classes zeep can represent; universes without default= values',
    'text restricted to the XML 1.0 Char production',
]
REQUIRED_COUNTERS = ('function_entered', 'args_compared', 'responses_decoded', 'requests_schema_valid')
SHARD_TIMEOUT = {'quick': 900, 'thorough': 3000}

PROTOCOLS = ('xml', 'soap11', 'soap12')
VALIDATORS = (None, 'soft', 'lxml')


def shards(tier, seed):
    n = 16 if tier == 'quick' else 48
    per = 3 if tier == 'quick' else 14
    step = 4 if tier == 'quick' else 1
    return [{'shard': 'u%d' % i, 'tier': tier, 'seed': seed, 'first': i * per, 'count': per} for i in range(n)] + \
           [{'shard': 'leaf%d' % i, 'scenario': 'leaf', 'tier': tier, 'seed': seed, 'first': i, 'count': step} for i in range(0, len(LEAVES), step)]


def make_protocols(kind, validator):
    from spyne.protocol.xml import XmlDocument
    from spyne.protocol.soap import Soap11, Soap12
    c = {'xml': XmlDocument, 'soap11': Soap11, 'soap12': Soap12}[kind]
    return c(validator=validator), c()


def idhref_ir():
    """fixed universe: attributes named id and href (names SOAP 1.1 encoding gives a meaning to) in one message"""
    ns = 'urn:vf:c01:idhref'
    U = lambda: {'prim': 'Unicode', 'facets': {}}
    I = lambda: {'prim': 'Integer', 'facets': {}}
    T = lambda name, fields: {'name': name, 'ns': ns, 'base': None, 'has_xmldata': False, 'fields': fields}
    types = [T('WithId', [['id', {'attr': U()}], ['v', I()], ['s', U()]]), T('WithHref', [['href', {'attr': U()}], ['w', I()]]),
             T('Both', [['id', {'attr': U()}], ['href', {'attr': U()}], ['n', I()]])]
    M_ = lambda name, args, rets: {'name': name, 'args': args, 'returns': rets, 'style': 'wrapped'}
    return {'uid': 9400, 'tns': ns, 'types': types, 'services': [{'name': 'S', 'methods': [
        M_('pair', [['a', {'ref': 'WithId'}], ['b', {'ref': 'WithHref'}]], [{'ref': 'WithHref'}]),
        M_('many', [['xs', {'array': {'ref': 'WithId'}}], ['ys', {'array': {'ref': 'WithHref'}}]], [{'array': {'ref': 'WithId'}}]),
        M_('both', [['x', {'ref': 'Both'}], ['y', {'ref': 'Both'}]], [{'ref': 'Both'}])]}]}


def universe(seed, uid, opts=None):
    if uid == 9400:
        return idhref_ir()
    rng = core.rng_for(seed, PROP, 'uni%d' % uid)
    return gen.rand_universe(rng, opts or gen.Opts(id_href_attrs=True, sub_names=True, digits=True, self_refs=True, null_items=True, bare_prims=True, cross_ns_inheritance=True), uid=uid)


def universe_h(seed, uid):
    """universes whose methods declare SOAP request/response headers (one or two classes per direction)"""
    rng = core.rng_for(seed, PROP, 'unih%d' % uid)
    ir = gen.rand_universe(rng, gen.Opts(headers=True, multi_headers=True, methods=(2, 3), services=(1, 1), sub_names=True), uid=uid)
    for sd in ir['services']:
        for md in sd['methods']:
            md.pop('throws', None)
    ir.pop('faults', None)
    return ir


class Ctx(object):
    """One built application + reference wire for a configuration."""

    def __init__(self, ir, kind, validator, rng, transport='server'):
        from spyne.server import ServerBase
        self.ir = ir
        self.kind = kind
        self.validator = validator
        self.B = gen.Built(ir)
        inp, outp = make_protocols(kind, validator)
        self.app = self.B.app(inp, outp)
        w = self.app.interface.docs.wsdl11
        w.build_interface_document('http://localhost/')
        self.wsdl = w.get_interface_document()
        self.W = refxml.Wire(self.B, self.wsdl, rng)
        self.server = ServerBase(self.app)
        self.wsgi = None
        self.schema_validator = None
        try:
            self.app.interface.docs.xml_schema.build_validation_schema()
            self.schema_validator = self.app.interface.docs.xml_schema.validation_schema
        except Exception as e:
            self.schema_error = repr(e)

    def get_wsgi(self):
        if self.wsgi is None:
            from spyne.server.wsgi import WsgiApplication
            self.wsgi = WsgiApplication(self.app)
        return self.wsgi


def run_call(R, C, md, args, rets, driver, rng, repro):
    """One request/response. Returns after judging."""
    B, W, ir = C.B, C.W, C.ir
    kind = C.kind
    # the same values written the way other toolkits write them (what the document denotes under the schema does not change)
    how = rng.choice(((), (), (), ('pad',), ('indent',), ('comments',), ('cdata',), ('pad', 'indent', 'comments', 'cdata', 'pi'), ('indent', 'pi')))
    repro = dict(repro, written=list(how))
    W.codec.pad = 'pad' in how
    try:
        body_el = W.request_element(md, args)
        W.codec.pad = False
        if how:
            refxml.vary_document(rng, body_el, how)
            R.count('requests_written_differently')
    except refxml.NotConformant as e:
        R.skip('value not expressible under the published schema: %s' % str(e)[:60])
        return
    except refxml.SchemaMismatch as e:
        R.skip('published schema does not match the IR (C06/C07 matter): %s' % str(e)[:80])
        R.count('schema_mismatch')
        return
    R.evaluations += 1
    if C.schema_validator is not None:
        if not C.schema_validator.validate(body_el):
            R.skip('reference request not valid against the published schema')
            R.count('reference_request_schema_invalid')
            if len(R.notes) < 10:
                R.notes.append('schema-invalid reference request: %s | %s' % (
                    str(C.schema_validator.error_log.last_error)[:200], refxml.etree.tostring(body_el)[:300]))
            return
        R.count('requests_schema_valid')
    hin, hout, hin_names, hout_names = [], [], [], []
    if kind == 'xml':
        data = W.serialize(body_el)
    else:
        hin_names, hout_names = gen.header_names(md, 'in_header'), gen.header_names(md, 'out_header')
        tds = {t['name']: t for t in ir['types']}
        hels = []
        try:
            for h in hin_names:
                if len(hin_names) > 1 and rng.random() < .35:
                    hin.append(None)          # a client may supply only some of the declared headers
                    continue
                v = gen.gen_value(rng, ir, {'ref': h}, top=True)
                heq = refxml.Q(tds[h]['ns'], h)
                if heq not in W.schema.elements:
                    raise refxml.SchemaMismatch('header class %s has no global element' % h)
                hel = refxml.etree.Element(heq, nsmap=W.nsmap)
                W.codec.fill(hel, W.schema.elements[heq][0], {'ref': h}, v)
                hin.append(v)
                hels.append(hel)
        except (refxml.NotConformant, refxml.SchemaMismatch) as e:
            R.skip('header not expressible under the published schema: %s' % str(e)[:60])
            return
        hout = [gen.gen_value(rng, ir, {'ref': h}, top=True) for h in hout_names]
        data = W.serialize(W.envelope(body_el, 11 if kind == 'soap11' else 12, hels))
    sp = [B.to_spyne(t, v) for t, v in zip(md['returns'], rets)]
    B.returns[md['name']] = sp[0] if len(sp) == 1 else (tuple(sp) if sp else None)
    B.out_headers.pop(md['name'], None)
    if hout:
        oh = [B.to_spyne({'ref': h}, v) for h, v in zip(hout_names, hout)]
        B.out_headers[md['name']] = oh[0] if len(oh) == 1 else oh
    B.calls[:] = []
    repro = dict(repro, method=md['name'], driver=driver, request_b64=base64.b64encode(data).decode())
    if driver == 'server':
        r = drive.drive_server(C.server, data)
        exc, out, err = r.exc, r.out, r.error
        stage = r.exc_stage
    else:
        ctype = 'application/soap+xml; charset=utf-8' if kind == 'soap12' else 'text/xml; charset=utf-8'
        env, inp = drive.make_environ('POST', '/', '', data, ctype)
        w = drive.call_wsgi(C.get_wsgi(), env, inp)
        exc, out, stage = w.exc, w.body, w.exc_stage
        err = None
        if w.code is not None and w.code >= 400:
            from vflib import miniapp
            f = miniapp.decode_fault(kind, out)
            err = type('F', (), {'faultcode': f[0] if f else w.status, 'faultstring': f[1] if f else out[:200]})()
    cfg = '%s|%s|%s' % (kind, C.validator, driver)
    if exc is not None:
        R.violation('conformant request made %s raise %s: %s' % (stage, type(exc).__name__, str(exc)[:150]), repro,
                    mech='escape:%s:%s' % (type(exc).__name__, drive.innermost_spyne_frame(exc)), config=cfg)
        return
    names = [c[0] for c in B.calls]
    if err is not None:
        fc = getattr(err, 'faultcode', err)
        fs = getattr(err, 'faultstring', '')
        R.violation('conformant request answered with fault %s: %s' % (fc, str(fs)[:200]), repro,
                    mech='fault_on_conformant:%s' % mech_fault(fc, fs, md, args), config=cfg, entered=names)
        return
    if names != [md['name']]:
        R.violation('user functions entered: %r, expected exactly [%r]' % (names, md['name']), repro, mech='invocation_count', config=cfg)
        return
    R.count('function_entered')
    got_args = B.calls[0][1]
    ok = True
    if len(got_args) != len(md['args']):
        R.violation('function received %d arguments, %d declared' % (len(got_args), len(md['args'])), repro, mech='arg_count', config=cfg)
        return
    for (an, at), sent, o in zip(md['args'], args, got_args):
        got = B.from_spyne(at, o)
        d = []
        R.count('args_compared')
        if not gen.veq(ir, at, sent, got, an, d):
            ok = False
            R.violation('argument %s differs: %s' % (an, '; '.join(d)[:300]), repro, mech='arg_differs:%s' % mech_diff(at, d), config=cfg,
                        tspec=at)
    # request headers as user code reads them
    if hin and any(x is not None for x in hin):
        got_h = getattr(B.calls[0][2], 'in_header', None)
        got_hs = list(got_h) if isinstance(got_h, (list, tuple)) else [got_h]
        R.count('in_headers_compared')
        if len(got_hs) != len(hin):
            ok = False
            R.violation('ctx.in_header holds %d objects, %d header elements were sent' % (len(got_hs), len(hin)), repro, mech='in_header_count', config=cfg)
        else:
            for h, sent, o in zip(hin_names, hin, got_hs):
                d = []
                if sent is None:
                    if o is not None:
                        ok = False
                        R.violation('request header %s was not sent, ctx.in_header has %r for it' % (h, type(o).__name__), repro, mech='in_header_invented', config=cfg)
                    continue
                if not gen.veq(ir, {'ref': h}, sent, B.from_spyne({'ref': h}, o), 'in_header.' + h, d):
                    ok = False
                    R.violation('request header %s differs: %s' % (h, '; '.join(d)[:300]), repro, mech='in_header_differs:%s' % mech_diff({'ref': h}, d), config=cfg)
    # response
    try:
        if kind == 'xml':
            el = refxml.etree.fromstring(out)
        else:
            header, kids = W.open_envelope(out, 11 if kind == 'soap11' else 12)
            if len(kids) != 1:
                raise refxml.NotConformant('SOAP body has %d children' % len(kids))
            el = kids[0]
            if hout:
                R.count('out_headers_compared')
                hk = [c for c in (header if header is not None else []) if isinstance(c.tag, str)]
                tds = {t['name']: t for t in ir['types']}
                for h, sent in zip(hout_names, hout):
                    heq = refxml.Q(tds[h]['ns'], h)
                    if heq not in W.schema.elements:
                        R.skip('out header class has no global element in the published schema (C07 matter)')
                        continue
                    found = [c for c in hk if c.tag == heq]
                    if len(found) != 1:
                        ok = False
                        R.violation('response carries %d %s header elements, the function set one' % (len(found), h),
                                    dict(repro, response=out[:600].decode('utf8', 'replace')), mech='out_header_missing', config=cfg)
                        continue
                    d = []
                    if not gen.veq(ir, {'ref': h}, sent, W.codec.dec_one(found[0], W.schema.elements[heq][0], {'ref': h}), 'out_header.' + h, d):
                        ok = False
                        R.violation('response header %s differs: %s' % (h, '; '.join(d)[:300]), dict(repro, response=out[:600].decode('utf8', 'replace')),
                                    mech='out_header_differs:%s' % mech_diff({'ref': h}, d), config=cfg)
        if C.schema_validator is not None and md['returns']:
            R.count('responses_schema_checked')
        dec = W.decode_response_element(md, el)
    except refxml.SchemaMismatch as e:
        R.skip('published schema does not match the IR (response): %s' % str(e)[:80])
        R.count('schema_mismatch')
        return
    except (refxml.NotConformant, ValueError, refxml.etree.XMLSyntaxError) as e:
        R.violation('response is not decodable under the published schema: %s' % str(e)[:200], dict(repro, response=out[:600].decode('utf8', 'replace')),
                    mech='response_undecodable:%s' % mech_undecodable(e), config=cfg)
        return
    R.count('responses_decoded')
    for i, (rt, sent, got) in enumerate(zip(md['returns'], rets, dec)):
        d = []
        if not gen.veq(ir, rt, sent, got, 'ret%d' % i, d):
            ok = False
            R.violation('return value %d differs: %s' % (i, '; '.join(d)[:300]), dict(repro, response=out[:600].decode('utf8', 'replace')),
                        mech='ret_differs:%s' % mech_diff(rt, d), config=cfg, tspec=rt)
    if ok:
        nn = any(a is not None for a in args) or any(r is not None for r in rets)
        if nn:
            R.nontrivial(cfg, md['style'], tuple(gen.shape(t) for _, t in md['args']), tuple(gen.shape(t) for t in md['returns']),
                         tuple(gen.vclass(a) for a in args), tuple(gen.vclass(r) for r in rets), len(hin), len(hout))
        R.cell(cfg)
        if len(R.samples) < 3 and nn:
            R.sample({'config': cfg, 'method': md, 'request': data.decode('utf8', 'replace')[:700], 'response': out.decode('utf8', 'replace')[:500]})


def mech_fault(fc, fs, md, args):
    return str(fc).split(':')[-1]


def mech_undecodable(e):
    if 'not an xs:decimal literal' in str(e) and 'E' in str(e):
        return 'decimal_exponent_print'
    return type(e).__name__


def mech_diff(t, diffs):
    """shape of a value difference: innermost tspec kind at the differing path is not
    tracked; use the declared top-level shape + a coarse class of the message"""
    d = diffs[0] if diffs else ''
    cls = 'none_vs_value' if ('expected None' in d or 'got None' in d) else 'items' if 'items' in d else 'class' if 'class' in d else 'value'
    return '%s:%s' % (gen.shape(t)[:30], cls)


def client_call(R, C, client, md, args, rets, repro):
    """the spyne client library on the other side: natives in, natives out (wrapped call style, default names)"""
    B, ir, kind = C.B, C.ir, C.kind
    cfg = '%s|%s|client' % (kind, C.validator)
    sargs = [B.to_spyne(t, v) for (_, t), v in zip(md['args'], args)]
    sp = [B.to_spyne(t, v) for t, v in zip(md['returns'], rets)]
    B.returns[md['name']] = sp[0] if len(sp) == 1 else (tuple(sp) if sp else None)
    B.out_headers.pop(md['name'], None)
    B.calls[:] = []
    R.evaluations += 1
    try:
        res = getattr(client.service, md['name'])(*sargs)
    except Exception as e:
        from spyne import Fault
        repro = dict(repro, client_request=(client.last_request or b'')[:1500].decode('utf8', 'replace'))
        if isinstance(e, Fault):
            R.violation('spyne client call answered with fault %s: %s' % (e.faultcode, str(e.faultstring)[:200]), repro,
                        mech='client_fault_on_conformant:%s' % client_fault_mech(e.faultcode, e.faultstring), config=cfg)
        else:
            R.violation('spyne client call raised %s: %s' % (type(e).__name__, str(e)[:150]), repro,
                        mech='client_escape:%s:%s' % (type(e).__name__, drive.innermost_spyne_frame(e)), config=cfg)
        return
    R.count('client_calls')
    repro = dict(repro, client_request=(client.last_request or b'')[:1500].decode('utf8', 'replace'),
                 client_response=(client.last_response or b'')[:1500].decode('utf8', 'replace'))
    if not B.calls:
        from vflib import miniapp
        f = miniapp.decode_fault(kind, client.last_response or b'')
        if f is not None:
            # (the XmlDocument client does not turn a fault document into an exception)
            R.violation('spyne client call answered with fault %s: %s' % (f[0], str(f[1])[:200]), repro,
                        mech='client_fault_on_conformant:%s' % client_fault_mech(f[0], f[1]), config=cfg)
            return
    if [c[0] for c in B.calls] != [md['name']]:
        R.violation('spyne client call entered %r' % [c[0] for c in B.calls], repro, mech='client_invocation_count', config=cfg)
        return
    ok = True
    for (an, at), sent, o in zip(md['args'], args, B.calls[0][1]):
        d = []
        if not gen.veq(ir, at, sent, B.from_spyne(at, o), an, d):
            ok = False
            R.violation('argument %s sent by the spyne client arrived differently: %s' % (an, '; '.join(d)[:300]), repro,
                        mech='client_arg_differs:%s' % mech_diff(at, d), config=cfg)
    rts = md['returns']
    if len(rts) == 1:
        got = [res]
    elif len(rts) == 0:
        got = []
    else:
        got = list(res) if isinstance(res, (list, tuple)) else [getattr(res, n, None) for n in
                                                               (md.get('out_variable_names') or ['%sResult%d' % (md['name'], i) for i in range(len(rts))])]
    for i, (rt, sent, o) in enumerate(zip(rts, rets, got)):
        d = []
        if not gen.veq(ir, rt, sent, B.from_spyne(rt, o), 'ret%d' % i, d):
            ok = False
            R.violation('return value %d decoded by the spyne client differs: %s' % (i, '; '.join(d)[:300]), repro,
                        mech='client_ret_differs:%s' % mech_diff(rt, d), config=cfg)
    if ok and (any(a is not None for a in args) or any(r is not None for r in rets)):
        R.nontrivial(cfg, 'client', tuple(gen.shape(t) for _, t in md['args']), tuple(gen.shape(t) for t in rts),
                     tuple(gen.vclass(a) for a in args), tuple(gen.vclass(r) for r in rets))
        R.cell(cfg)


def client_fault_mech(code, string):
    import re
    s = str(string)
    if 'SchemaValidationError' in str(code) and re.search(r"'-?[0-9.]+E[+-]?[0-9]+' is not a valid value of the atomic type '", s):
        return 'decimal_exponent_print'
    return str(code).split(':')[-1]


def link_id_href(ir, tspecs, values, rng):
    """make the value of an attribute named href equal to (or '#' +) the value of some attribute named id in the same message"""
    ids, hrefs = [], []

    def walk(t, v):
        if v is None:
            return
        if 'ref' in t and isinstance(v, dict):
            for fn, ft in gen.all_fields(ir, v.get('__class__', t['ref'])):
                if 'attr' in ft and ft['attr'].get('prim') == 'Unicode' and isinstance(v.get(fn), str):
                    if fn == 'id' and v[fn]:
                        ids.append(v[fn])
                    elif fn == 'href' and any(v.get(f2) is not None for f2, t2 in gen.all_fields(ir, v.get('__class__', t['ref'])) if 'attr' not in t2):
                        # (an element WITHOUT content whose href is '#' + an id of the message is, to SOAP section 5, the accessor of
                        #  a multi-reference value - that reading and the user's own schema cannot both hold, so such a value is not made)
                        hrefs.append((v, fn))
                elif fn in v:
                    walk(ft, v[fn])
        for k in ('array', 'seq'):
            if k in t and isinstance(v, list):
                for x in v:
                    walk(t[k], x)
    for t, v in zip(tspecs, values):
        walk(t, v)
    n = 0
    for holder, fn in hrefs:
        if ids and rng.random() < .7:
            holder[fn] = rng.choice(('', '#')) + rng.choice(ids)
            n += 1
    return n


def run_universe(R, seed, uid, tier, only=None, headers=False):
    ir = universe_h(seed, uid) if headers else universe(seed, uid)
    rng = core.rng_for(seed, PROP, 'vals%d%s' % (uid, 'h' if headers else ''))
    ncalls = 3 if tier == 'quick' else 6
    configs = [(k, v) for k in PROTOCOLS for v in VALIDATORS if not (headers and k == 'xml')]
    if tier == 'quick':
        # every universe sees every protocol and every validator, not the full product
        rng.shuffle(configs)
        configs = configs[:2 if headers else 5]
    for kind, validator in configs:
        try:
            C = Ctx(ir, kind, validator, rng)
        except Exception as e:
            if type(e).__name__ == 'XMLSchemaParseError':
                R.skip('published schema does not compile (C06 matter)')
                R.count('schema_does_not_compile')
                continue
            # spyne refused the signature when the application was constructed: there is no service to talk to,
            # so the wire-fidelity statement does not apply (recorded, not judged)
            R.skip('universe rejected at construction: %s' % type(e).__name__)
            R.count('universe_rejected_at_construction')
            if len(R.notes) < 6:
                R.notes.append('construction rejected (seed %s uid %s): %r at %s' % (seed, uid, e, drive.innermost_spyne_frame(e)))
            continue
        R.count('apps_built')
        client = None
        if not headers:
            try:
                inp, outp = make_protocols(kind, None)
                capp = C.B.app(inp, outp, name='Client%d' % ir['uid'])
                ctype = 'application/soap+xml; charset=utf-8' if kind == 'soap12' else 'text/xml; charset=utf-8'
                client = clients.make_loopback_client(capp, clients.wsgi_sender(C.get_wsgi(), ctype))
            except Exception as e:
                R.skip('loopback client not constructible: %s' % type(e).__name__)
        for sd in ir['services']:
            for md in sd['methods']:
                if headers and not (md.get('in_header') or md.get('out_header')):
                    continue
                if client is not None and md['style'] == 'wrapped' and not md.get('operation_name'):
                    for k in range(1 if tier == 'quick' else 3):
                        args = [gen.gen_value(rng, ir, t) for _, t in md['args']]
                        rets = [gen.gen_value(rng, ir, t) for t in md['returns']]
                        client_call(R, C, client, md, args, rets, {'seed': seed, 'uid': uid, 'kind': kind, 'validator': validator, 'client_call': k,
                                                                   'method': md['name'], 'headers': headers})
                for k in range(ncalls):
                    args = [gen.gen_value(rng, ir, t, top=(md['style'] == 'bare')) for _, t in md['args']]
                    rets = [gen.gen_value(rng, ir, t, top=(md['style'] != 'wrapped')) for t in md['returns']]
                    driver = 'wsgi' if k == ncalls - 1 else 'server'
                    R.count('id_href_links', link_id_href(ir, [t for _, t in md['args']], args, rng))
                    repro = {'seed': seed, 'uid': uid, 'kind': kind, 'validator': validator, 'call': k, 'headers': headers}
                    run_call(R, C, md, args, rets, driver, rng, repro)


LEAVES = [
    {'prim': 'Unicode', 'facets': {}}, {'prim': 'Unicode', 'facets': {'max_len': 3}}, {'prim': 'Unicode', 'facets': {'min_len': 1}},
    {'prim': 'Unicode', 'facets': {'pattern': '[a-c]+'}}, {'prim': 'Unicode', 'facets': {'values': ['a', 'bb', 'c c', ' d ']}},
    {'prim': 'Integer', 'facets': {}}, {'prim': 'Integer', 'facets': {'ge': -3, 'le': 7}}, {'prim': 'Integer32', 'facets': {}},
    {'prim': 'Integer64', 'facets': {}}, {'prim': 'UnsignedInteger64', 'facets': {}}, {'prim': 'UnsignedInteger8', 'facets': {}},
    {'prim': 'Decimal', 'facets': {}}, {'prim': 'Decimal', 'facets': {'ge': '-1.5', 'le': '2.25'}},
    {'prim': 'Decimal', 'facets': {'total_digits': 4, 'fraction_digits': 4}}, {'prim': 'Decimal', 'facets': {'total_digits': 5, 'fraction_digits': 2}},
    {'prim': 'Decimal', 'facets': {'total_digits': 3, 'fraction_digits': 0}}, {'prim': 'Decimal', 'facets': {'total_digits': 1, 'fraction_digits': 1}},
    {'prim': 'Double', 'facets': {}}, {'prim': 'Double', 'facets': {'ge': '0.0', 'lt': '1.0'}},
    {'prim': 'Boolean', 'facets': {}}, {'prim': 'DateTime', 'facets': {}}, {'prim': 'Date', 'facets': {}}, {'prim': 'Time', 'facets': {}},
    {'prim': 'Duration', 'facets': {}}, {'prim': 'Uuid', 'facets': {}}, {'prim': 'AnyUri', 'facets': {}}, {'prim': 'ByteArray', 'facets': {}},
]
LEAF_UID = 9600


def leaf_ir(li):
    """one leaf declaration at every position a leaf can have: argument, return value, member, array item, repeated member,
    attribute, and the text of an element that has attributes (XmlData)"""
    import json
    lt = LEAVES[li]
    leaf = lambda **kw: dict(json.loads(json.dumps(lt)), **kw)
    ns = 'urn:vf:c01:leaf%d' % li
    U = {'prim': 'Unicode', 'facets': {}}
    T0 = {'name': 'T0', 'ns': ns, 'base': None, 'has_xmldata': False,
          'fields': [['f', leaf()], ['fl', {'array': leaf()}], ['fs', {'seq': leaf(), 'max': 'unbounded'}], ['fa', {'attr': leaf()}]]}
    TX = {'name': 'TX', 'ns': ns, 'base': None, 'has_xmldata': True, 'fields': [['body', {'xmldata': leaf()}], ['note', {'attr': dict(U)}]]}
    M_ = lambda name, args, rets, style='wrapped': {'name': name, 'args': args, 'returns': rets, 'style': style}
    methods = [M_('leaf', [['a', leaf()]], [leaf()]), M_('obj', [['o', {'ref': 'T0'}]], [{'ref': 'T0'}]),
               M_('body', [['x', {'ref': 'TX'}], ['xs', {'array': {'ref': 'TX'}}]], [{'ref': 'TX'}]),
               M_('many', [['a', leaf()], ['o', {'ref': 'T0'}], ['x', {'ref': 'TX'}]], [leaf(), {'ref': 'T0'}, {'ref': 'TX'}]),
               M_('bare_leaf', [['a', leaf()]], [leaf()], 'bare'), M_('out_bare', [['a', leaf()]], [{'array': leaf()}], 'out_bare')]
    return {'uid': LEAF_UID + li, 'tns': ns, 'types': [T0, TX], 'services': [{'name': 'S', 'methods': methods}]}


def leaf_matrix(R, seed, li, tier):
    """boundary-biased conformant values of one leaf declaration, the same value at every position of a call and of its reply"""
    ir = leaf_ir(li)
    lt = LEAVES[li]
    rng = core.rng_for(seed, PROP, 'leaf%d' % li)
    vals = []
    for _ in range(60 if tier == 'quick' else 400):
        v = gen.gen_prim_value(rng, lt['prim'], lt.get('facets'), 'xml')
        if v is not None and not any(type(v) is type(w) and repr(v) == repr(w) for w in vals):
            vals.append(v)
    vals = vals[:12 if tier == 'quick' else 80]
    configs = [(k, v) for k in PROTOCOLS for v in VALIDATORS]
    if tier == 'quick':
        rng.shuffle(configs)
        configs = configs[:3]
    for kind, validator in configs:
        try:
            C = Ctx(ir, kind, validator, rng)
        except Exception as e:
            R.skip('leaf universe rejected at construction: %s' % type(e).__name__)
            if len(R.notes) < 6:
                R.notes.append('leaf universe %d rejected: %r' % (li, e))
            continue
        R.count('apps_built')
        for v in vals:
            w = rng.choice(vals)
            obj = lambda a, b: {'__class__': 'T0', 'f': a, 'fl': [a, b], 'fs': [b, a], 'fa': a}
            tx = lambda a: {'__class__': 'TX', 'body': a, 'note': 'n'}
            for md in ir['services'][0]['methods']:
                args = {'leaf': [v], 'obj': [obj(v, w)], 'body': [tx(v), [tx(w), tx(v)]], 'many': [v, obj(w, v), tx(v)], 'bare_leaf': [v], 'out_bare': [v]}[md['name']]
                rets = {'leaf': [v], 'obj': [obj(v, w)], 'body': [tx(v)], 'many': [w, obj(v, v), tx(w)], 'bare_leaf': [v], 'out_bare': [[v, w]]}[md['name']]
                repro = {'scenario': 'leaf', 'leaf': li, 'seed': seed, 'uid': ir['uid'], 'kind': kind, 'validator': validator, 'method': md['name'], 'value': repr(v)[:80]}
                run_call(R, C, md, args, rets, rng.choice(('server', 'wsgi')), rng, repro)
                R.count('leaf_matrix_calls')


def long_text(R, seed, tier):
    """requests larger than the blocks a transport reads them in (WsgiApplication: 8 KiB), made of characters that take 1 to 4 bytes, shifted so that
    characters fall on both sides of every kind of block boundary"""
    ir = leaf_ir(0)
    rng = core.rng_for(seed, PROP, 'longtext')
    configs = [(k, v) for k in PROTOCOLS for v in VALIDATORS]
    if tier == 'quick':
        rng.shuffle(configs)
        configs = configs[:4]
    md = [m for m in ir['services'][0]['methods'] if m['name'] == 'leaf'][0]
    mo = [m for m in ir['services'][0]['methods'] if m['name'] == 'obj'][0]
    for kind, validator in configs:
        try:
            C = Ctx(ir, kind, validator, rng)
        except Exception as e:
            R.skip('leaf universe rejected at construction: %s' % type(e).__name__)
            continue
        for ch in ('\xe9', '\u4e84', '\U0001f642', 'a', '\xe9\u4e84a'):
            for n in (9000, 20011) if tier == 'quick' else (4096, 9000, 16384, 20011, 70000):
                for shift in range(4):
                    v = 'x' * shift + ch * (n // len(ch))
                    repro = {'scenario': 'long_text', 'seed': seed, 'kind': kind, 'validator': validator, 'char': ch, 'n': n, 'shift': shift}
                    run_call(R, C, md, [v], [v[: n // 2]], 'wsgi', rng, repro)
                    R.count('long_text_calls')
            v = '\xe9' * 5000
            run_call(R, C, mo, [{'__class__': 'T0', 'f': v, 'fl': [v, 'y' + v], 'fs': [v], 'fa': 'z' + v}], [{'__class__': 'T0', 'f': v, 'fl': [], 'fs': [], 'fa': v}], 'wsgi', rng,
                     {'scenario': 'long_text', 'seed': seed, 'kind': kind, 'validator': validator, 'char': ch, 'n': 5000, 'shift': 'obj'})


def multiref_scenario(R, seed):
    """SOAP section-5 multi-reference values as the toolkits that use that encoding write them: the arguments are accessors
    (href) to independent elements of the Body that carry the data; one target may be referenced twice, targets may refer
    to further targets. Every accessor denotes the value of its target."""
    from spyne import Application, Service, rpc, ComplexModel, Integer, Unicode, Array
    from spyne.protocol.soap import Soap11, Soap12
    from spyne.server import ServerBase
    got = []
    NS = 'urn:vf:c01:mr'
    Inner = type('MrInner', (ComplexModel,), {'__namespace__': NS, '_type_info': [('k', Integer)]})
    Item = type('MrItem', (ComplexModel,), {'__namespace__': NS, '_type_info': [('v', Integer), ('s', Unicode), ('inner', Inner), ('many', Array(Integer))]})

    def flat(it):
        return None if it is None else (it.v, it.s, None if it.inner is None else it.inner.k, None if it.many is None else list(it.many))

    class S(Service):
        @rpc(Item, Item, Item, _returns=Integer)
        def three(ctx, a, b, c):
            got.append((flat(a), flat(b), flat(c)))
            return 1
    T1 = '<t:MrItem id="id1"><t:v>1</t:v><t:s>one</t:s><t:inner href="#id3"/><t:many><t:integer>4</t:integer><t:integer>5</t:integer></t:many></t:MrItem>'
    T2 = '<t:MrItem id="id2"><t:v>2</t:v><t:s>two</t:s></t:MrItem>'
    T3 = '<t:MrInner id="id3"><t:k>7</t:k></t:MrInner>'
    one, two = (1, 'one', 7, [4, 5]), (2, 'two', None, None)
    cases = [('same_target_twice', '<t:a href="#id1"/><t:b href="#id1"/><t:c href="#id2"/>', (one, one, two)),
             ('all_same', '<t:a href="#id2"/><t:b href="#id2"/><t:c href="#id2"/>', (two, two, two)),
             ('mixed_inline', '<t:a><t:v>9</t:v><t:s>in</t:s></t:a><t:b href="#id1"/><t:c href="#id1"/>', ((9, 'in', None, None), one, one)),
             ('reverse_order', '<t:a href="#id2"/><t:b href="#id1"/>', (two, one, None))]
    for cls, envns in ((Soap11, 'http://schemas.xmlsoap.org/soap/envelope/'), (Soap12, 'http://www.w3.org/2003/05/soap-envelope')):
        for validator in (None, 'soft'):
            app = Application([S], NS, name='MrApp', in_protocol=cls(validator=validator), out_protocol=cls())
            srv = ServerBase(app)
            for label, accessors, want in cases:
                for targets in (T1 + T2 + T3, T3 + T2 + T1):
                    body = ('<e:Envelope xmlns:e="%s" xmlns:t="%s"><e:Body><t:three>%s</t:three>%s</e:Body></e:Envelope>' % (
                        envns, NS, accessors, targets)).encode()
                    del got[:]
                    R.evaluations += 1
                    R.count('multiref_requests')
                    r = drive.drive_server(srv, body)
                    case = {'seed': seed, 'scenario': 'multiref', 'protocol': cls.__name__, 'validator': validator, 'label': label,
                            'request': body.decode()}
                    if r.exc is not None:
                        R.violation('multi-reference request: %r escaped' % r.exc, case, mech='escape:%s' % type(r.exc).__name__)
                    elif r.error is not None:
                        R.violation('multi-reference request answered with fault %s: %s' % (r.error.faultcode, str(r.error.faultstring)[:150]), case,
                                    mech='multiref_fault:%s' % str(r.error.faultcode).split(':')[-1])
                    elif got != [want]:
                        R.violation('multi-reference request (%s): the function received %r, the accessors denote %r' % (label, got, want), case,
                                    mech='multiref_values_differ:%s' % label)
                    else:
                        R.nontrivial('multiref', cls.__name__, validator, label)


def run(spec, R):
    if spec.get('scenario') == 'leaf':
        for li in range(spec['first'], min(len(LEAVES), spec['first'] + spec['count'])):
            leaf_matrix(R, spec['seed'], li, spec['tier'])
        return
    if spec['shard'] == 'u1':
        long_text(R, spec['seed'], spec['tier'])
    if spec['first'] == 0:
        multiref_scenario(R, spec['seed'])
        run_universe(R, spec['seed'], 9400, spec['tier'])
    for uid in range(spec['first'], spec['first'] + spec['count']):
        run_universe(R, spec['seed'], uid, spec['tier'])
        if uid % 2 == 0 or spec['tier'] != 'quick':
            run_universe(R, spec['seed'], uid, spec['tier'], headers=True)


def replay(v, R):
    c = v['repro']
    if c.get('scenario') == 'long_text':
        long_text(R, c['seed'], 'thorough')
        for x in R.violations[:10]:
            print('replayed:', x.get('mech'), x.get('what')[:300])
        return
    if c.get('scenario') == 'leaf':
        leaf_matrix(R, c['seed'], c['leaf'], 'thorough')
        for x in R.violations[:10]:
            print('replayed:', x.get('mech'), x.get('what'))
        return
    if c.get('scenario') == 'multiref':
        multiref_scenario(R, c['seed'])
        for x in R.violations[:10]:
            print('replayed:', x.get('mech'), x.get('what'))
        return
    run_universe(R, c['seed'], c['uid'], 'thorough', headers=bool(c.get('headers')))
    for x in R.violations[:10]:
        print('replayed:', x.get('mech'), x.get('what'))


def classify(v):
    return v.get('mech')
