"""C01 - XML/SOAP wire fidelity.

Generated universes x {XmlDocument, Soap11, Soap12} x validator {None, soft,
lxml}. The request is built by the reference encoder from the PUBLISHED
WSDL/XSD (never by spyne), checked valid against that schema, pushed through
the ServerBase stages and through WSGI; a call recorder inside the generated
user function captures what user code received; the response is decoded by the
reference decoder, by the loopback spyne client and (SOAP) by zeep.
"""
import base64
import io
import json
import random

from vflib import core, drive, gen, refxml

PROP = 'C01'
LEVEL = 'exploration'
RULE = ('random type universes (primitives with facets, nested complex types across namespaces, inheritance, wrapped and '
        'unwrapped arrays, XmlAttribute/XmlData, enums; wrapped/bare/out_bare methods; 0..3 return values) x protocol x validator; '
        'boundary-biased conformant values; non-trivial = user function entered with at least one non-null argument or a non-null '
        'return decoded; distinct by (protocol, validator, driver, argument/return shapes, value classes).')
ASSUMPTIONS = [
    'reference codec vflib/refxml.py (driven by the published WSDL/XSD) + vflib/lex.py are trusted; every reference request is first validated against the published schema (invalid => skipped, C06 looks at it)',
    'zeep comparisons only for value classes zeep can represent; universes without default= values',
    'text restricted to the XML 1.0 Char production',
]
REQUIRED_COUNTERS = ('function_entered', 'args_compared', 'responses_decoded', 'requests_schema_valid')
SHARD_TIMEOUT = {'quick': 900, 'thorough': 3000}

PROTOCOLS = ('xml', 'soap11', 'soap12')
VALIDATORS = (None, 'soft', 'lxml')


def shards(tier, seed):
    n = 16 if tier == 'quick' else 48
    per = 3 if tier == 'quick' else 14
    return [{'shard': 'u%d' % i, 'tier': tier, 'seed': seed, 'first': i * per, 'count': per} for i in range(n)]


def make_protocols(kind, validator):
    from spyne.protocol.xml import XmlDocument
    from spyne.protocol.soap import Soap11, Soap12
    c = {'xml': XmlDocument, 'soap11': Soap11, 'soap12': Soap12}[kind]
    return c(validator=validator), c()


def universe(seed, uid, opts=None):
    rng = core.rng_for(seed, PROP, 'uni%d' % uid)
    return gen.rand_universe(rng, opts or gen.Opts(), uid=uid)


class Ctx(object):
    """One built application + reference wire for a configuration."""

    def __init__(self, ir, kind, validator, rng, transport='server'):
        from spyne.server import ServerBase
        self.ir = ir
        self.kind = kind
        self.validator = validator
        self.B = gen.Built(ir)
        inp, outp = make_protocols(kind, validator)
        self.app = self.B.app(inp, outp)
        w = self.app.interface.docs.wsdl11
        w.build_interface_document('http://localhost/')
        self.wsdl = w.get_interface_document()
        self.W = refxml.Wire(self.B, self.wsdl, rng)
        self.server = ServerBase(self.app)
        self.wsgi = None
        self.schema_validator = None
        try:
            self.app.interface.docs.xml_schema.build_validation_schema()
            self.schema_validator = self.app.interface.docs.xml_schema.validation_schema
        except Exception as e:
            self.schema_error = repr(e)

    def get_wsgi(self):
        if self.wsgi is None:
            from spyne.server.wsgi import WsgiApplication
            self.wsgi = WsgiApplication(self.app)
        return self.wsgi


def run_call(R, C, md, args, rets, driver, rng, repro):
    """One request/response. Returns after judging."""
    B, W, ir = C.B, C.W, C.ir
    kind = C.kind
    try:
        body_el = W.request_element(md, args)
    except refxml.NotConformant as e:
        R.skip('value not expressible under the published schema: %s' % str(e)[:60])
        return
    except refxml.SchemaMismatch as e:
        R.skip('published schema does not match the IR (C06/C07 matter): %s' % str(e)[:80])
        R.count('schema_mismatch')
        return
    R.evaluations += 1
    if C.schema_validator is not None:
        if not C.schema_validator.validate(body_el):
            R.skip('reference request not valid against the published schema')
            R.count('reference_request_schema_invalid')
            if len(R.notes) < 10:
                R.notes.append('schema-invalid reference request: %s | %s' % (
                    str(C.schema_validator.error_log.last_error)[:200], refxml.etree.tostring(body_el)[:300]))
            return
        R.count('requests_schema_valid')
    if kind == 'xml':
        data = W.serialize(body_el)
    else:
        data = W.serialize(W.envelope(body_el, 11 if kind == 'soap11' else 12))
    sp = [B.to_spyne(t, v) for t, v in zip(md['returns'], rets)]
    B.returns[md['name']] = sp[0] if len(sp) == 1 else (tuple(sp) if sp else None)
    B.calls[:] = []
    repro = dict(repro, method=md['name'], driver=driver, request_b64=base64.b64encode(data).decode())
    if driver == 'server':
        r = drive.drive_server(C.server, data)
        exc, out, err = r.exc, r.out, r.error
        stage = r.exc_stage
    else:
        ctype = 'application/soap+xml; charset=utf-8' if kind == 'soap12' else 'text/xml; charset=utf-8'
        env, inp = drive.make_environ('POST', '/', '', data, ctype)
        w = drive.call_wsgi(C.get_wsgi(), env, inp)
        exc, out, stage = w.exc, w.body, w.exc_stage
        err = None
        if w.code is not None and w.code >= 400:
            from vflib import miniapp
            f = miniapp.decode_fault(kind, out)
            err = type('F', (), {'faultcode': f[0] if f else w.status, 'faultstring': f[1] if f else out[:200]})()
    cfg = '%s|%s|%s' % (kind, C.validator, driver)
    if exc is not None:
        R.violation('conformant request made %s raise %s: %s' % (stage, type(exc).__name__, str(exc)[:150]), repro,
                    mech='escape:%s:%s' % (type(exc).__name__, drive.innermost_spyne_frame(exc)), config=cfg)
        return
    names = [c[0] for c in B.calls]
    if err is not None:
        fc = getattr(err, 'faultcode', err)
        fs = getattr(err, 'faultstring', '')
        R.violation('conformant request answered with fault %s: %s' % (fc, str(fs)[:200]), repro,
                    mech='fault_on_conformant:%s' % mech_fault(fc, fs, md, args), config=cfg, entered=names)
        return
    if names != [md['name']]:
        R.violation('user functions entered: %r, expected exactly [%r]' % (names, md['name']), repro, mech='invocation_count', config=cfg)
        return
    R.count('function_entered')
    got_args = B.calls[0][1]
    ok = True
    if len(got_args) != len(md['args']):
        R.violation('function received %d arguments, %d declared' % (len(got_args), len(md['args'])), repro, mech='arg_count', config=cfg)
        return
    for (an, at), sent, o in zip(md['args'], args, got_args):
        got = B.from_spyne(at, o)
        d = []
        R.count('args_compared')
        if not gen.veq(ir, at, sent, got, an, d):
            ok = False
            R.violation('argument %s differs: %s' % (an, '; '.join(d)[:300]), repro, mech='arg_differs:%s' % mech_diff(at, d), config=cfg,
                        tspec=at)
    # response
    try:
        if kind == 'xml':
            el = refxml.etree.fromstring(out)
        else:
            header, kids = W.open_envelope(out, 11 if kind == 'soap11' else 12)
            if len(kids) != 1:
                raise refxml.NotConformant('SOAP body has %d children' % len(kids))
            el = kids[0]
        if C.schema_validator is not None and md['returns']:
            R.count('responses_schema_checked')
        dec = W.decode_response_element(md, el)
    except refxml.SchemaMismatch as e:
        R.skip('published schema does not match the IR (response): %s' % str(e)[:80])
        R.count('schema_mismatch')
        return
    except (refxml.NotConformant, ValueError, refxml.etree.XMLSyntaxError) as e:
        R.violation('response is not decodable under the published schema: %s' % str(e)[:200], dict(repro, response=out[:600].decode('utf8', 'replace')),
                    mech='response_undecodable:%s' % mech_undecodable(e), config=cfg)
        return
    R.count('responses_decoded')
    for i, (rt, sent, got) in enumerate(zip(md['returns'], rets, dec)):
        d = []
        if not gen.veq(ir, rt, sent, got, 'ret%d' % i, d):
            ok = False
            R.violation('return value %d differs: %s' % (i, '; '.join(d)[:300]), dict(repro, response=out[:600].decode('utf8', 'replace')),
                        mech='ret_differs:%s' % mech_diff(rt, d), config=cfg, tspec=rt)
    if ok:
        nn = any(a is not None for a in args) or any(r is not None for r in rets)
        if nn:
            R.nontrivial(cfg, md['style'], tuple(gen.shape(t) for _, t in md['args']), tuple(gen.shape(t) for t in md['returns']),
                         tuple(gen.vclass(a) for a in args), tuple(gen.vclass(r) for r in rets))
        R.cell(cfg)
        if len(R.samples) < 3 and nn:
            R.sample({'config': cfg, 'method': md, 'request': data.decode('utf8', 'replace')[:700], 'response': out.decode('utf8', 'replace')[:500]})


def mech_fault(fc, fs, md, args):
    return str(fc).split(':')[-1]


def mech_undecodable(e):
    if 'not an xs:decimal literal' in str(e) and 'E' in str(e):
        return 'decimal_exponent_print'
    return type(e).__name__


def mech_diff(t, diffs):
    """shape of a value difference: innermost tspec kind at the differing path is not
    tracked; use the declared top-level shape + a coarse class of the message"""
    d = diffs[0] if diffs else ''
    cls = 'none_vs_value' if ('expected None' in d or 'got None' in d) else 'items' if 'items' in d else 'class' if 'class' in d else 'value'
    return '%s:%s' % (gen.shape(t)[:30], cls)


def run_universe(R, seed, uid, tier, only=None):
    ir = universe(seed, uid)
    rng = core.rng_for(seed, PROP, 'vals%d' % uid)
    ncalls = 3 if tier == 'quick' else 6
    configs = [(k, v) for k in PROTOCOLS for v in VALIDATORS]
    if tier == 'quick':
        # every universe sees every protocol and every validator, not the full product
        rng.shuffle(configs)
        configs = configs[:5]
    for kind, validator in configs:
        try:
            C = Ctx(ir, kind, validator, rng)
        except Exception as e:
            if type(e).__name__ == 'XMLSchemaParseError':
                R.skip('published schema does not compile (C06 matter)')
                R.count('schema_does_not_compile')
                continue
            # spyne refused the signature when the application was constructed: there is no service to talk to,
            # so the wire-fidelity statement does not apply (recorded, not judged)
            R.skip('universe rejected at construction: %s' % type(e).__name__)
            R.count('universe_rejected_at_construction')
            if len(R.notes) < 6:
                R.notes.append('construction rejected (seed %s uid %s): %r at %s' % (seed, uid, e, drive.innermost_spyne_frame(e)))
            continue
        R.count('apps_built')
        for sd in ir['services']:
            for md in sd['methods']:
                for k in range(ncalls):
                    args = [gen.gen_value(rng, ir, t, top=(md['style'] == 'bare')) for _, t in md['args']]
                    rets = [gen.gen_value(rng, ir, t, top=(md['style'] != 'wrapped')) for t in md['returns']]
                    driver = 'wsgi' if k == ncalls - 1 else 'server'
                    repro = {'seed': seed, 'uid': uid, 'kind': kind, 'validator': validator, 'call': k}
                    run_call(R, C, md, args, rets, driver, rng, repro)


def run(spec, R):
    for uid in range(spec['first'], spec['first'] + spec['count']):
        run_universe(R, spec['seed'], uid, spec['tier'])


def replay(v, R):
    c = v['repro']
    run_universe(R, c['seed'], c['uid'], 'thorough')
    for x in R.violations[:10]:
        print('replayed:', x.get('mech'), x.get('what'))


def classify(v):
    return v.get('mech')
