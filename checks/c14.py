"""C14 - event hooks fire in documented order, exactly once, on success and failure.

Fault enumeration: one injected failure per pipeline stage x protocol family x
driver (ServerBase stages / WSGI) x listener layout; every listener appends to
one event trace; the trace is judged by the specification automaton of
DESIGN.md A.3 (per manager level).
"""
from vflib import core, drive, miniapp as M

PROP = 'C14'
LEVEL = 'fault_enumeration'
RULE = ('enumeration of 13 injections (success; malformed bytes; bad envelope; unknown method; invalid argument; '
        'method_call listener raising Fault/non-Fault at app/service/method level; method_return_object listener raising; '
        'function raising Fault/non-Fault; unserialisable return) x 9 protocol configurations x {ServerBase, WSGI} x 4 '
        'listener layouts (application only; all levels; every listener registered twice; listeners inherited from a grandparent and two unrelated bases; listeners registered at every level after a first call); non-trivial when the application-level trace contains created and closed; distinct by '
        '(protocol, driver, layout, injection, observed trace shape).'
        ' Now 23 injections: also generator functions failing before / after their first item and methods declaring 0, 2, 3 return values; 5 listener layouts.')
ASSUMPTIONS = [
    'relative order BETWEEN managers (application vs service vs method) is not stated by the property and not judged',
    'for the unserialisable-return injection presence of method_exception_object is recorded, not judged (origin not enumerated by the statement)',
    'recording listeners are registered before the raising listener so that they observe the event the raiser aborts',
]
REQUIRED_COUNTERS = ('traces_judged', 'user_fn_entered', 'faults_observed')

KINDS = ('soap11', 'soap12', 'xml', 'json', 'yaml', 'msgpack', 'msgpackrpc', 'httprpc-json', 'httprpc')

EVENTS = ('method_context_created', 'method_call', 'method_return_object', 'method_exception_object',
          'method_return_document', 'method_return_string', 'method_exception_document',
          'method_exception_string', 'method_context_closed')
SHORT = {'method_context_created': 'created', 'method_call': 'call', 'method_return_object': 'return_object',
         'method_exception_object': 'exception_object', 'method_return_document': 'return_document',
         'method_return_string': 'return_string', 'method_exception_document': 'exception_document',
         'method_exception_string': 'exception_string', 'method_context_closed': 'closed'}

INJECTIONS = ['success', 'malformed', 'bad_envelope', 'unknown_method', 'invalid_argument',
              'call_listener_fault@app', 'call_listener_exc@app', 'call_listener_fault@service',
              'call_listener_exc@method', 'return_listener_fault@app', 'return_listener_exc@service',
              'function_fault', 'function_exc', 'unserialisable_return', 'genfunction_fault', 'genfunction_exc',
              'genfunction_late_fault', 'genfunction_late_exc',
              'invalid_argument_range', 'bad_envelope_scalar', 'malformed_declared', 'malformed_charset', 'malformed_declared_other', 'malformed_badbytes', 'success_declared',
              'success_returns0', 'success_returns2', 'success_returns3', 'function_fault_returns2', 'return_listener_exc_returns2@method']
LAYOUTS = ('app_only', 'all_levels', 'duplicates', 'diamond', 'late', 'member')
# 'member': the method called is a member method (@mrpc) of a class, bound to the service with _service_class
MEMBER_INJECTIONS = ('success', 'unknown_method', 'invalid_argument', 'invalid_argument_range', 'call_listener_fault@app', 'call_listener_exc@app',
                     'call_listener_fault@service', 'call_listener_exc@method', 'return_listener_fault@app', 'return_listener_exc@service', 'function_fault', 'function_exc')
INHERITED = ('service_base', 'service_grand', 'service_base2')


def strip_returns(injection):
    """'success_returns2' -> ('success', 2): the same injection on a method that declares that many return values"""
    import re
    m = re.search(r'_returns(\d)', injection)
    if m:
        return injection.replace(m.group(0), ''), int(m.group(1))
    return injection, None


def shards(tier, seed):
    out = []
    for kind in KINDS:
        for driver in ('server', 'wsgi'):
            out.append({'shard': '%s/%s' % (kind, driver), 'kind': kind, 'driver': driver, 'tier': tier, 'seed': seed})
    return out


class Boom(Exception):
    pass


def build(kind, layout, injection, trace):
    """Fresh application with recording listeners. Returns (app, wsgi_or_none, method name)."""
    from spyne import Application, Service, rpc, Integer, Unicode, Fault, EventManager

    injection, nret = strip_returns(injection)
    inj, _, level = injection.partition('@')

    def rec(level_name, lid):
        def make(evname):
            def listener(ctx, *a, **k):
                trace.add(level_name, SHORT.get(evname, evname), lid)
            listener.__name__ = 'L_%s_%s_%s' % (level_name, lid, evname)
            return listener
        return make

    def raiser(evname, fault):
        def listener(ctx, *a, **k):
            trace.add('raiser', SHORT.get(evname, evname), 'raise')
            if fault:
                raise Fault('Client.Injected', 'listener fault')
            raise Boom('listener exception')
        return listener

    def attach(mgr, level_name, events, n_listeners, dup):
        made = []
        for lid in range(n_listeners):
            for ev in events:
                l = rec(level_name, lid)(ev)
                mgr.add_listener(ev, l)
                if dup:
                    mgr.add_listener(ev, l)      # registered twice: must run once
                made.append(l)
        return made

    method_mgr = EventManager(None)
    sub_events = [e for e in EVENTS if e not in ('method_context_created', 'method_context_closed')]
    late = layout == 'late'
    member = layout == 'member'
    if late or member:
        layout = 'all_levels'
    multi = layout != 'app_only'
    dup = layout == 'duplicates'

    diamond = layout == 'diamond'
    if diamond:
        # listeners on the same events at a grandparent and at two unrelated bases: the subclass inherits all of them
        class Grand(Service):
            pass
        attach(Grand.event_manager, 'service_grand', sub_events, 1, dup)

        class BaseSvc(Grand):
            pass

        class Base2(Service):
            pass
        attach(Base2.event_manager, 'service_base2', sub_events, 1, dup)
        bases = (BaseSvc, Base2)
    else:
        class BaseSvc(Service):
            pass
        bases = (BaseSvc,)
    if multi:
        attach(BaseSvc.event_manager, 'service_base', sub_events, 1, dup)

    def body(ctx, n):
        trace.add('USER', 'enter', None)
        if inj == 'function_fault':
            trace.add('USER', 'raise', None)
            raise Fault('Client.FromFunction', 'f fault')
        if inj == 'function_exc':
            trace.add('USER', 'raise', None)
            raise Boom('f exception')
        trace.add('USER', 'return', None)
        if inj == 'unserialisable_return':
            return object()
        if nret is not None:
            return tuple([n] * nret) if nret != 1 else n
        return n

    def body_gen(ctx, n):
        # a generator function: its body runs when the transport asks for the first item
        trace.add('USER', 'enter', None)
        if 'late' in inj:
            yield n     # ... or fails after the first item, while the response is being written
        trace.add('USER', 'raise', None)
        if inj.endswith('_fault'):
            raise Fault('Client.FromFunction', 'f fault')
        raise Boom('f exception')
        yield n

    # the argument has a range: a value outside it is a number the validator refuses, not text it cannot read
    ArgInt = Integer(ge=-1000, le=1000)

    # one list of managers handed to both methods (what a helper that decorates several methods does)
    shared_mgrs = [method_mgr]

    class Svc(*bases):
        if inj.startswith('genfunction'):
            from spyne import Iterable
            f = rpc(ArgInt, _returns=Iterable(Integer), _evmgrs=shared_mgrs)(body_gen)
        elif nret is not None:
            # a method that returns nothing / two / three values (the response message has that many members)
            f = rpc(ArgInt, _returns=(tuple([Integer] * nret) if nret else None), _evmgrs=shared_mgrs)(body)
        else:
            f = rpc(ArgInt, _returns=Integer, _evmgrs=shared_mgrs)(body)

        @rpc(Integer, _returns=Integer, _evmgrs=shared_mgrs)
        def g(ctx, n):
            trace.add('USER', 'enter-other', None)
            return n
    if multi:
        attach(Svc.event_manager, 'service', sub_events, 2, dup)
        attach(method_mgr, 'method', sub_events, 2, dup)

    services = [Svc]
    if member:
        from spyne import ComplexModel, mrpc

        class Thing(ComplexModel):
            __namespace__ = M.TNS
            id = Integer

            @classmethod
            def __respawn__(cls, ctx=None, filters=None):
                return ctx.in_object[0]

            # (the name 'f' of the plain method stays taken: this one is published as Thing.f)
            f = mrpc(ArgInt, _returns=Integer, _service_class=Svc, _evmgrs=shared_mgrs)(lambda self, ctx, n: body(ctx, n))

        class Things(Service):
            @rpc(_returns=Thing)
            def get_thing(ctx):
                return Thing(id=1)
        services = [Svc, Things]

    inp, outp = M.make_protocols(kind, 'soft')
    app = Application(services, M.TNS, name='EvApp', in_protocol=inp, out_protocol=outp)
    attach(app.event_manager, 'app', EVENTS, 2 if multi else 1, dup)

    # the raising listener goes last on its manager
    if inj in ('call_listener_fault', 'call_listener_exc', 'return_listener_fault', 'return_listener_exc'):
        ev = 'method_call' if inj.startswith('call') else 'method_return_object'
        mgr = {'app': app.event_manager, 'service': Svc.event_manager, 'method': method_mgr}[level]
        mgr.add_listener(ev, raiser(ev, inj.endswith('fault')))

    # protocol level: recorded only
    for p, pname in ((inp, 'in_protocol'), (outp, 'out_protocol')):
        for ev in ('before_deserialize', 'after_deserialize', 'before_serialize', 'after_serialize'):
            p.event_manager.add_listener(ev, rec(pname, 0)(ev))

    def attach_late():
        # listeners registered after the application has already served a call
        attach(Svc.event_manager, 'service_late', sub_events, 1, False)
        attach(method_mgr, 'method_late', sub_events, 1, False)
        attach(app.event_manager, 'app_late', sub_events, 1, False)
    app._vf_attach_late = attach_late
    return app


def request_for(kind, injection, layout=None):
    inj = strip_returns(injection)[0].partition('@')[0]
    if layout == 'member':
        arg = {'unknown_method': 1, 'invalid_argument': 'not-a-number', 'invalid_argument_range': 5000}.get(inj, 7)
        try:
            return M.encode_request(kind, 'Thing.nosuch' if inj == 'unknown_method' else 'Thing.f', [('self', {'id': 1}), ('n', arg)])
        except Exception:
            return None
    if inj == 'malformed':
        if kind in ('httprpc', 'httprpc-json'):
            return None
        return dict(method='POST', path='/', qs='', body=M.malformed_body(kind), content_type='text/xml')
    if inj.startswith('malformed_') or inj == 'success_declared':
        # what real clients send: the transport names a character set (Content-Type; in_string_charset for ServerBase) and, for XML, the document
        # starts with a declaration that names one too - the protocols read such requests on a path of their own
        if kind in ('httprpc', 'httprpc-json'):
            return None
        xmlkind = kind in ('soap11', 'soap12', 'xml')
        body = M.malformed_body(kind)
        if inj == 'success_declared':
            body = M.encode_request(kind, 'f', [('n', 7)])['body']
        if inj == 'malformed_badbytes':
            # well-formed but for one byte that is not UTF-8
            good = M.encode_request(kind, 'f', [('n', 7)])['body']
            if b'7' not in good or kind.startswith('msgpack'):
                return None
            body = good.replace(b'7', b'7\xff', 1)
        if inj in ('malformed_declared', 'malformed_declared_other', 'success_declared'):
            if not xmlkind:
                return None
            body = (b'<?xml version="1.0" encoding="%s"?>\n' % (b'ISO-8859-1' if inj == 'malformed_declared_other' else b'UTF-8')) + body
        ct = {'soap12': 'application/soap+xml', 'json': 'application/json', 'yaml': 'text/yaml'}.get(kind, 'text/xml' if xmlkind else 'application/x-msgpack')
        return dict(method='POST', path='/', qs='', body=body, content_type=ct + '; charset=utf-8', charset='utf-8')
    if inj == 'bad_envelope':
        if kind == 'soap11':
            return dict(method='POST', path='/', qs='', content_type='text/xml',
                        body=('<e:Envelope xmlns:e="%s"><e:NotBody/></e:Envelope>' % M.S11).encode())
        if kind == 'soap12':
            return dict(method='POST', path='/', qs='', content_type='application/soap+xml',
                        body=b'<NotAnEnvelope xmlns="urn:x"/>')
        if kind in ('json', 'yaml'):
            return dict(method='POST', path='/', qs='', content_type='application/json', body=b'{"f": {"n": 1}, "g": {"n": 2}}')
        if kind == 'msgpackrpc':
            import msgpack
            return dict(method='POST', path='/', qs='', content_type='application/x-msgpack', body=msgpack.packb([9, 1, 'f', [1]]))
        return None
    if inj == 'invalid_argument_range':
        return M.encode_request(kind, 'f', [('n', 5000)])
    if inj == 'bad_envelope_scalar':
        # the whole request is one number
        if kind in ('json', 'yaml'):
            return dict(method='POST', path='/', qs='', content_type='application/json', body=b'42')
        if kind in ('msgpack', 'msgpackrpc'):
            import msgpack
            return dict(method='POST', path='/', qs='', content_type='application/x-msgpack', body=msgpack.packb(42))
        return None
    if inj == 'unknown_method':
        return M.encode_request(kind, 'nosuch', [('n', 1)])
    if inj == 'invalid_argument':
        return M.encode_request(kind, 'f', [('n', 'not-a-number')])
    return M.encode_request(kind, 'f', [('n', 7)])


def is_fault_response(kind, driver, out, r):
    if driver == 'wsgi':
        if r.code is not None and r.code >= 400:
            return True
        return M.decode_fault(kind, r.body) is not None if kind != 'httprpc' else False
    return out.error is not None


def judge(kind, driver, layout, injection, trace, fault_sent, escaped):
    """Specification automaton, per manager level and per listener."""
    V = []
    injection = strip_returns(injection)[0]
    inj = injection.partition('@')[0]
    seq = trace.seq
    multi = layout != 'app_only'

    def positions(level, ev, lid=None):
        return [i for i, e in enumerate(seq) if e[0] == level and e[1] == ev and (lid is None or e[2] == lid)]

    user_enter = positions('USER', 'enter')
    user_return = positions('USER', 'return')
    other = positions('USER', 'enter-other')
    if other:
        V.append(('other_function_ran', 'another user function ran'))
    if len(user_enter) > 1:
        V.append(('user_fn_twice', 'user function ran %d times' % len(user_enter)))

    levels = [('app', 2 if multi else 1)]
    if multi:
        levels += [('service_base', 1), ('service', 2), ('method', 2)]
    if layout == 'diamond':
        levels += [('service_grand', 1), ('service_base2', 1)]
    if layout == 'late':
        levels += [('service_late', 1), ('method_late', 1), ('app_late', 1)]
    dispatched = bool(positions('app', 'call')) or any(positions(l, e) for l, _ in levels[1:] for e in SHORT.values())
    for level, nl in levels:
        for lid in range(nl):
            def pos(ev):
                return positions(level, ev, lid)
            # each event at most once per listener
            for ev in SHORT.values():
                if len(pos(ev)) > 1:
                    V.append(('event_fired_twice:%s' % ev, '%s listener %d saw %s %d times' % (level, lid, ev, len(pos(ev)))))
            if level == 'app':
                c, z = pos('created'), pos('closed')
                own = [i for i, e in enumerate(seq) if e[0] == 'app' and e[2] == lid]
                if len(c) != 1 or (own and own[0] != c[0]):
                    V.append(('created_not_first_once', 'app listener %d: created positions %r, first own event %r' % (lid, c, own[:1])))
                if len(z) != 1 or (own and own[-1] != z[-1] if z else True):
                    V.append(('closed_not_last_once', 'app listener %d: closed positions %r, last own event %r' % (lid, z, own[-1:])))
            elif not dispatched:
                continue
            call = pos('call')
            # user function only after method_call (all of its listeners)
            if user_enter and (level == 'app' or dispatched):
                if (not call and 'call' not in set(e[1] for e in seq if e[0] == 'raiser')) or (call and call[0] > user_enter[0]):
                    V.append(('user_fn_before_method_call', '%s listener %d: method_call at %r, user function at %r' % (level, lid, call, user_enter)))
            ro, eo = pos('return_object'), pos('exception_object')
            if level != 'app' and not call and not ro and not eo and not pos('return_document') and not pos('exception_document'):
                # this manager never heard of the call (fault before dispatch)
                if user_enter:
                    V.append(('listener_missed_call', '%s listener %d saw nothing although the function ran' % (level, lid)))
                continue
            raised_on = set(e[1] for e in seq if e[0] == 'raiser')
            inj_level = injection.partition('@')[2]
            same_mgr = (level.replace('_late', '') == inj_level) or (level in INHERITED and inj_level == 'service')
            if 'return_object' in raised_on and (not same_mgr or level.endswith('_late')):
                pass    # another manager's listener aborted the event (inter-manager order is not judged), or this listener was
                #         registered after the raising one on the same manager and cannot see the aborted event
            elif inj.startswith('genfunction'):
                pass    # a generator object was returned before the body ran: what "returned normally" means here is not stated
            elif bool(ro) != bool(user_return):
                V.append(('return_object_iff_returned', '%s listener %d: method_return_object fired=%s, function returned normally=%s' % (level, lid, bool(ro), bool(user_return))))
            if inj != 'unserialisable_return' and bool(eo) != bool(fault_sent):
                V.append(('exception_object_iff_fault', '%s listener %d: method_exception_object fired=%s, fault sent=%s' % (level, lid, bool(eo), fault_sent)))
            rd, rs, ed, es = pos('return_document'), pos('return_string'), pos('exception_document'), pos('exception_string')
            if fault_sent:
                if rd or rs:
                    # (a generator that fails after its first item: a lazily serialising protocol has by then announced the
                    #  return document it was writing)
                    if inj != 'unserialisable_return' and not (inj.startswith('genfunction_late') and not rs):
                        V.append(('return_doc_events_on_fault', '%s listener %d: return document/string events although a fault was sent' % (level, lid)))
                if not ed or not es or ed[0] > es[0]:
                    V.append(('exception_doc_string_pair', '%s listener %d: exception_document %r exception_string %r' % (level, lid, ed, es)))
                if eo and ed and eo[0] > ed[0]:
                    V.append(('exception_object_after_document', '%s listener %d' % (level, lid)))
            else:
                if ed or es:
                    V.append(('exception_doc_events_on_success', '%s listener %d' % (level, lid)))
                if not rd or not rs or rd[0] > rs[0]:
                    V.append(('return_doc_string_pair', '%s listener %d: return_document %r return_string %r' % (level, lid, rd, rs)))
                if ro and rd and ro[0] > rd[0]:
                    V.append(('return_object_after_document', '%s listener %d' % (level, lid)))
            if user_return and ro and ro[0] < user_return[0]:
                V.append(('return_object_before_return', '%s listener %d' % (level, lid)))
        # registration order inside one manager: listener 0 before listener 1
        if nl == 2:
            for ev in SHORT.values():
                a, b = positions(level, ev, 0), positions(level, ev, 1)
                if a and b and a[0] > b[0]:
                    V.append(('registration_order', '%s: listener 1 ran before listener 0 for %s' % (level, ev)))
                if bool(a) != bool(b) and not _raiser_between(seq, level, ev):
                    V.append(('listener_skipped', '%s: %s seen by listener0=%s listener1=%s' % (level, ev, bool(a), bool(b))))
    # inheritance: base-service listeners see what the service's own listeners see, and first
    for inh in (INHERITED if layout == 'diamond' else INHERITED[:1] if multi else ()):
        for ev in SHORT.values():
            a, b = positions(inh, ev, 0), positions('service', ev, 0)
            if bool(a) != bool(b) and not _raiser_between(seq, 'service', ev):
                V.append(('service_inheritance', 'event %s: listener inherited from %s saw=%s, own listener saw=%s' % (ev, inh, bool(a), bool(b))))
            if a and b and a[0] > b[0]:
                V.append(('service_inheritance_order', 'event %s: own listener ran before the one inherited from %s' % (ev, inh)))
    if escaped is not None and inj != 'unserialisable_return':
        V.append(('escape:%s' % type(escaped).__name__, 'exception escaped the %s driver: %r' % (driver, escaped)))
    return V


def _raiser_between(seq, level, ev):
    return any(e[0] == 'raiser' and e[1] == ev for e in seq)


def run_case(R, kind, driver, layout, injection):
    trace = drive.Events()
    req = request_for(kind, injection, layout)
    if req is None:
        R.skip('injection not expressible for protocol')
        return
    app = build(kind, layout, injection, trace)
    if injection.startswith('genfunction') and driver != 'wsgi':
        R.skip('generator functions are consumed by the transport; judged through WSGI only')
        return
    if strip_returns(injection)[1] not in (None, 0, 1) and kind == 'httprpc':
        R.skip('HttpRpc as output protocol writes one primitive: several return values fail in the serializer')
        return
    if injection.startswith('genfunction_late') and kind == 'httprpc':
        R.skip('HttpRpc as output protocol only serialises primitives: the response fails before the generator does')
        return
    if injection == 'unserialisable_return' and kind not in ('soap11', 'soap12', 'xml'):
        R.skip('unserialisable return: only the eagerly serialising XML protocols (statement)')
        return
    R.evaluations += 1
    escaped = None
    fault_sent = None
    if driver == 'wsgi':
        from spyne.server.wsgi import WsgiApplication
        w = WsgiApplication(app)
        for ev in ('wsgi_call', 'wsgi_return', 'wsgi_exception', 'wsgi_close'):
            w.event_manager.add_listener(ev, (lambda e: (lambda ctx: trace.add('transport', e, 0)))(ev))
        if layout == 'late':
            # first call (not judged), then more listeners are registered, then the judged call
            env, inp = drive.make_environ(req['method'], req['path'], req['qs'], req['body'], req['content_type'])
            drive.call_wsgi(w, env, inp)
            app._vf_attach_late()
            del trace.seq[:]
        env, inp = drive.make_environ(req['method'], req['path'], req['qs'], req['body'], req['content_type'])
        r = drive.call_wsgi(w, env, inp)
        escaped = r.exc
        if escaped is None:
            fault_sent = is_fault_response(kind, driver, None, r)
            tn = [e[1] for e in trace.seq if e[0] == 'transport']
            if tn.count('wsgi_call') != 1 or tn[:1] != ['wsgi_call']:
                R.violation('wsgi_call not first/once: %r' % tn, case(kind, driver, layout, injection), mech='wsgi_call_once')
            if tn.count('wsgi_return') + tn.count('wsgi_exception') != 1:
                R.violation('not exactly one of wsgi_return/wsgi_exception: %r' % tn, case(kind, driver, layout, injection), mech='wsgi_return_xor_exception')
            if tn.count('wsgi_close') != 1:
                R.violation('wsgi_close fired %d times' % tn.count('wsgi_close'), case(kind, driver, layout, injection), mech='wsgi_close_once')
    else:
        if injection == 'unserialisable_return':
            R.skip('serialisation failure is handled by the transport; judged through WSGI only')
            return
        from spyne.server import ServerBase
        srv = ServerBase(app)
        if kind in ('httprpc', 'httprpc-json'):
            R.skip('HttpRpc needs an HTTP transport')
            return
        if layout == 'late':
            drive.drive_server(srv, req['body'], req.get('charset'))
            app._vf_attach_late()
            del trace.seq[:]
        out = drive.drive_server(srv, req['body'], req.get('charset'))
        escaped = out.exc
        if escaped is None:
            fault_sent = out.error is not None
    if escaped is not None and injection != 'unserialisable_return':
        R.violation('exception escaped the %s driver: %r' % (driver, escaped), case(kind, driver, layout, injection),
                    mech='escape:%s:%s' % (type(escaped).__name__, drive.innermost_spyne_frame(escaped)))
        return
    if escaped is not None:
        R.skip('unserialisable return escaped (C10 matter)')
        return
    R.count('traces_judged')
    if any(e[0] == 'USER' and e[1] == 'enter' for e in trace.seq):
        R.count('user_fn_entered')
    if fault_sent:
        R.count('faults_observed')
    V = judge(kind, driver, layout, injection, trace, fault_sent, None)
    shape = tuple((e[0], e[1]) for e in trace.seq if e[0] in ('app', 'USER') and e[2] in (0, None))
    for mech, what in V:
        R.violation(what, dict(case(kind, driver, layout, injection), trace=[list(e) for e in trace.seq]), mech=mech)
    if any(e[1] == 'created' for e in trace.seq) and any(e[1] == 'closed' for e in trace.seq):
        R.nontrivial(kind, driver, layout, injection, shape)
        R.cell('%s|%s|%s' % (kind, driver, injection))
    if len(R.samples) < 5 and layout == 'all_levels':
        R.sample({'case': case(kind, driver, layout, injection), 'fault_sent': fault_sent,
                  'app_trace': [e[1] for e in trace.seq if e[0] in ('app', 'USER') and e[2] in (0, None)]})


def case(kind, driver, layout, injection):
    return {'kind': kind, 'driver': driver, 'layout': layout, 'injection': injection}


def run(spec, R):
    for layout in LAYOUTS:
        for inj in INJECTIONS:
            if layout == 'app_only' and ('@service' in inj or '@method' in inj):
                continue
            if layout == 'member' and inj not in MEMBER_INJECTIONS:
                continue
            run_case(R, spec['kind'], spec['driver'], layout, inj)


def replay(v, R):
    c = v['repro']
    run_case(R, c['kind'], c['driver'], c['layout'], c['injection'])
    for x in R.violations:
        print('replayed:', x.get('mech'), x.get('what'))


def classify(v):
    return v.get('mech')
