"""C07 - WSDL/XSD well-formed, closed, deterministic, drive a foreign client.

Monitors: QName resolver over the generated WSDL (every QName-valued attribute
must resolve in the right symbol space), operation/binding/message structure
checker, byte comparator across rebuilds in fresh processes under different
PYTHONHASHSEEDs, and zeep (an independent SOAP toolkit) building a client from
the WSDL alone and round-tripping values through the real server.
"""
import hashlib
import json
import os
import subprocess
import sys

from lxml import etree

from vflib import core, drive, gen, refxml

PROP = 'C07'
LEVEL = 'exploration'
RULE = ('generated applications (1-3 services, custom operation/out-variable names, in/out headers, declared faults, multiple '
        'namespaces, wrapped/bare/out_bare methods): QName closure of the WSDL and embedded schemas, method<->operation<->binding<->message '
        'structure, byte identity across 4 (quick) / 12 (thorough) fresh processes with different hash seeds and twice in-process, zeep '
        'round trips for every method zeep can call; non-trivial = a WSDL whose QNames were all resolved or a zeep call that reached '
        'user code; distinct by (application shape, check kind, method shape).'
        ' Also: the naming matrix universe ({0,1,2} request x {0,1,2} response headers x default / _operation_name / _in_message_name / namespace-qualified _in_message_name x faults x two port types, plus bare and out-bare methods whose reply is decoded by the WSDL\'s description alone), several port types, a second build on the same document object, two transports over one application, validator None/soft/lxml.')
ASSUMPTIONS = [
    'zeep 4.3.3 is the independent toolkit; value classes it cannot represent are skipped before execution and counted',
    'QName-valued attributes checked: schema @type/@base/@ref/@itemType, wsdl part/@element, input|output|fault/@message, binding/@type, port/@binding, soap:header/@message',
]
REQUIRED_COUNTERS = ('wsdl_checked', 'qnames_resolved', 'determinism_builds', 'zeep_calls_entered')
SHARD_TIMEOUT = {'quick': 900, 'thorough': 3000}
WSDL = refxml.WSDL
XS = refxml.XS
SOAP_BIND = (refxml.WSDLSOAP11, refxml.WSDLSOAP12)
XSD_BUILTINS = set('''string boolean decimal float double duration dateTime time date gYearMonth gYear gMonthDay gDay gMonth hexBinary
base64Binary anyURI QName NOTATION normalizedString token language NMTOKEN NMTOKENS Name NCName ID IDREF IDREFS ENTITY ENTITIES integer
nonPositiveInteger negativeInteger long int short byte nonNegativeInteger unsignedLong unsignedInt unsignedShort unsignedByte positiveInteger
anyType anySimpleType'''.split())


def shards(tier, seed):
    n = 16 if tier == 'quick' else 48
    per = 2 if tier == 'quick' else 8
    return [{'shard': 'a%d' % i, 'tier': tier, 'seed': seed, 'first': i * per, 'count': per} for i in range(n)]


def opts():
    return gen.Opts(sub_names=True, headers=True, multi_headers=True, custom_names=True, port_types=True, services=(1, 3), methods=(1, 4), namespaces=3, cross_ns_inheritance=True)


def universe(seed, uid):
    rng = core.rng_for(seed, PROP, 'uni%d' % uid)
    ir = gen.rand_universe(rng, opts(), uid=uid)
    if uid == NAMING_MATRIX:
        naming_matrix(ir, rng)
    return ir


NAMING_MATRIX = 9300


def naming_matrix(ir, rng):
    """Replaces the services of a generated universe by one whose methods are the full product
    {0, 1, 2 request headers} x {0, 1, 2 response headers} x {default names, _operation_name, _in_message_name} x {declared faults or not},
    spread over two port types: every way a message, part, header or fault reference of the document gets its name."""
    tns = ir['tns']
    other = ([t['ns'] for t in ir['types'] if t['ns'] != tns] or [tns])[0]
    prim = lambda k: {'prim': k, 'facets': {}}
    ir['types'] = list(ir['types']) + [
        {'name': 'Hx0', 'ns': tns, 'base': None, 'has_xmldata': False, 'fields': [['h', prim('Unicode')]]},
        {'name': 'Hx1', 'ns': other, 'base': None, 'has_xmldata': False, 'fields': [['k', prim('Integer')]]},
        {'name': 'Hx2', 'ns': tns, 'base': None, 'has_xmldata': False, 'fields': [['t', prim('Unicode')], ['u', prim('Integer')]]}]
    ir.setdefault('faults', [{'name': 'F0', 'ns': tns}, {'name': 'F1', 'ns': other}])
    heads = {0: None, 1: 'Hx0', 2: ['Hx1', 'Hx2']}
    methods = []
    i = 0
    for nin in (0, 1, 2):
        for nout in (0, 1, 2):
            for naming in ('default', 'operation_name', 'in_message_name', 'in_message_name_qualified'):
                md = {'name': 'nm%d' % i, 'args': [['a', prim('Integer')]], 'returns': [prim('Unicode')], 'style': 'wrapped'}
                if heads[nin]:
                    md['in_header'] = heads[nin]
                if heads[nout]:
                    md['out_header'] = heads[nout] if nout != 1 else 'Hx2'
                if naming == 'in_message_name_qualified':
                    md['in_message_name'] = '{%s}imq_%s' % (other, md['name'])      # the request element lives in another namespace
                elif naming != 'default':
                    md[naming] = ('op_%s' if naming == 'operation_name' else 'im_%s') % md['name']
                if i % 2:
                    md['throws'] = ['F0', 'F1'][: 1 + i % 3 % 2]
                md['port_type'] = 'PtA' if i % 3 else 'PtB'
                methods.append(md)
                i += 1
    # bare and out-bare methods whose response element is of another type than the request element: a class the interface knows
    # already, a primitive, an array
    for j, (style, args, rets) in enumerate([
            ('bare', [['arg', {'ref': 'Hx0'}]], [{'ref': 'Hx2'}]),
            ('bare', [['arg', {'ref': 'Hx2'}]], [prim('Unicode')]),
            ('out_bare', [['a', prim('Integer')]], [prim('Unicode')]),
            ('out_bare', [['a', prim('Unicode')], ['b', prim('Integer')]], [{'ref': 'Hx0'}]),
            ('out_bare', [['a', prim('Unicode')]], [{'array': prim('Integer')}]),
            ('out_bare', [['a', {'ref': 'Hx1'}]], [prim('Integer')])]):
        methods.append({'name': 'bm%d' % j, 'args': args, 'returns': rets, 'style': style, 'port_type': 'PtA' if j % 2 else 'PtB'})
    ir['services'] = [{'name': 'NamingSvc', 'methods': methods, 'port_types': ['PtA', 'PtB']}]


def build_wsdl(ir, kind='soap11'):
    from spyne.protocol.soap import Soap11, Soap12
    B = gen.Built(ir)
    c = Soap11 if kind == 'soap11' else Soap12
    # the validator is part of the application's configuration; which one is used follows from the universe id so that the
    # determinism subprocesses build the same application
    validator = (None, 'soft', 'lxml')[ir['uid'] % 3]
    app = B.app(c(validator=validator), c())
    from spyne.server.wsgi import WsgiApplication
    app._vf_wsgi = WsgiApplication(app)        # the transport names itself in the binding (soap/http)
    w = app.interface.docs.wsdl11
    w.build_interface_document('http://localhost/')
    return B, app, w.get_interface_document()


# ---------------------------------------------------------------- QName closure

def check_closure(R, wsdl_bytes, ir, repro):
    try:
        root = etree.fromstring(wsdl_bytes)
    except etree.XMLSyntaxError as e:
        R.violation('WSDL is not well-formed: %s' % e, repro, mech='wsdl_not_wellformed')
        return None
    tns = root.get('targetNamespace')
    types, elements = set(), set()
    for sch in root.iter('{%s}schema' % XS):
        sns = sch.get('targetNamespace')
        for c in sch:
            if not isinstance(c.tag, str):
                continue
            ln = etree.QName(c).localname
            if ln in ('complexType', 'simpleType'):
                types.add((sns, c.get('name')))
            elif ln == 'element':
                elements.add((sns, c.get('name')))
    for imp in root.iter('{%s}import' % XS):
        R.count('imports_checked')
        if imp.get('schemaLocation') is not None:
            # the schemas are embedded: a schemaLocation points outside the one document a client is given
            R.violation('xs:import of %s carries schemaLocation="%s": the WSDL is not self-contained' % (imp.get('namespace'), imp.get('schemaLocation')),
                        repro, mech='import_schema_location_outside_document')
    messages = set((tns, m.get('name')) for m in root.findall('{%s}message' % WSDL))
    port_types = set((tns, m.get('name')) for m in root.findall('{%s}portType' % WSDL))
    bindings = set((tns, m.get('name')) for m in root.findall('{%s}binding' % WSDL))

    def resolve(node, attr, space, what):
        val = node.get(attr)
        if val is None:
            return
        for one in (val.split() if attr == 'memberTypes' else [val]):
            p, _, l = one.rpartition(':')
            ns = node.nsmap.get(p or None)
            R.count('qnames_resolved')
            if p and ns is None:
                R.violation('%s="%s" on <%s>: prefix %r is not bound' % (attr, one, etree.QName(node).localname, p), repro,
                            mech='qname_prefix_unbound:%s' % what)
                continue
            if space == 'type' and ns == XS:
                if l not in XSD_BUILTINS:
                    R.violation('%s="%s": not an XSD builtin' % (attr, one), repro, mech='qname_unknown_builtin')
                continue
            table = {'type': types, 'element': elements, 'message': messages, 'portType': port_types, 'binding': bindings}[space]
            if (ns, l) not in table and what == 'part_element' and header_also_bare(ir, l):
                R.violation('%s="%s": the class is used as a SOAP header and as a bare message; its own global element is not published' % (attr, one),
                            repro, mech='header_class_also_bare_message_loses_element')
            elif (ns, l) not in table and what == 'schema_base' and etree.QName(node.getparent()).localname == 'simpleContent':
                R.violation('%s="%s": the simple type of an XmlData member is not published' % (attr, one), repro,
                            mech='xmldata_type_not_published')
            elif (ns, l) not in table:
                R.violation('%s="%s" on <%s> does not resolve to a %s definition in the document ({%s}%s)' % (
                    attr, one, etree.QName(node).localname, space, ns, l), repro, mech='qname_unresolved:%s:%s' % (what, space))

    for sch in root.iter('{%s}schema' % XS):
        for n in sch.iter():
            if not isinstance(n.tag, str):
                continue
            ln = etree.QName(n).localname
            if ln in ('element', 'attribute'):
                resolve(n, 'type', 'type', 'schema_' + ln)
                resolve(n, 'ref', 'element', 'schema_ref') if ln == 'element' else None
            elif ln in ('extension', 'restriction'):
                resolve(n, 'base', 'type', 'schema_base')
            elif ln == 'list':
                resolve(n, 'itemType', 'type', 'schema_list')
            elif ln == 'union':
                resolve(n, 'memberTypes', 'type', 'schema_union')
    for m in root.findall('{%s}message' % WSDL):
        for p in m.findall('{%s}part' % WSDL):
            resolve(p, 'element', 'element', 'part_element')
            resolve(p, 'type', 'type', 'part_type')
    for pt in root.findall('{%s}portType' % WSDL):
        for op in pt.findall('{%s}operation' % WSDL):
            for c in op:
                if isinstance(c.tag, str) and etree.QName(c).localname in ('input', 'output', 'fault'):
                    resolve(c, 'message', 'message', 'operation_' + etree.QName(c).localname)
    for b in root.findall('{%s}binding' % WSDL):
        resolve(b, 'type', 'portType', 'binding_type')
        for h in b.iter():
            if isinstance(h.tag, str) and etree.QName(h).localname == 'header' and etree.QName(h).namespace in SOAP_BIND:
                resolve(h, 'message', 'message', 'soap_header')
    for s in root.findall('{%s}service' % WSDL):
        for p in s.findall('{%s}port' % WSDL):
            resolve(p, 'binding', 'binding', 'port_binding')
    R.count('wsdl_checked')
    return root


def header_also_bare(ir, tname):
    hdr = any(tname in gen.header_names(m, 'in_header') + gen.header_names(m, 'out_header') for s in ir['services'] for m in s['methods'])
    bare = any(m['style'] == 'bare' and m['args'] and m['args'][0][1].get('ref') == tname for s in ir['services'] for m in s['methods']) or \
        any(m['style'] in ('bare', 'out_bare') and m['returns'] and m['returns'][0].get('ref') == tname for s in ir['services'] for m in s['methods'])
    return hdr and bare


def check_structure(R, root, ir, repro):
    """every exposed method: exactly one portType operation, a binding operation of the same name,
    messages and declared faults."""
    ops = {}
    op_pt = {}
    for pt in root.findall('{%s}portType' % WSDL):
        for op in pt.findall('{%s}operation' % WSDL):
            ops.setdefault(op.get('name'), []).append(op)
            op_pt.setdefault(op.get('name'), []).append(pt.get('name'))
    bops = {}
    bop_pt = {}
    for b in root.findall('{%s}binding' % WSDL):
        for op in b.findall('{%s}operation' % WSDL):
            bops.setdefault(op.get('name'), []).append(op)
            bop_pt.setdefault(op.get('name'), []).append((b.get('type') or '').split(':')[-1])
    for sd in ir['services']:
        for md in sd['methods']:
            name = md.get('operation_name') or md['name']
            R.count('methods_structure_checked')
            if len(ops.get(name, [])) != 1:
                R.violation('method %s appears as %d portType operations named %s' % (md['name'], len(ops.get(name, [])), name), repro,
                            mech='operation_count')
                continue
            if len(bops.get(name, [])) != 1:
                R.violation('method %s has %d binding operations' % (md['name'], len(bops.get(name, []))), repro, mech='binding_operation_count')
            elif bop_pt[name] != op_pt[name]:
                # "matching binding operation": the binding that carries the operation is bound to the portType that declares it
                R.violation('operation %s is declared in portType %s but bound in a binding of portType %s' % (name, op_pt[name][0], bop_pt[name][0]), repro,
                            mech='binding_porttype_mismatch')
            if md.get('port_type') and op_pt[name] != [md['port_type']]:
                R.violation('method %s declares port type %s, its operation is in portType %s' % (md['name'], md['port_type'], op_pt[name][0]), repro,
                            mech='operation_in_wrong_porttype')
            op = ops[name][0]
            if op.find('{%s}input' % WSDL) is None or op.find('{%s}output' % WSDL) is None:
                R.violation('operation %s lacks input/output' % name, repro, mech='operation_messages')
            declared = set(md.get('throws') or [])
            got = set(f.get('name') for f in op.findall('{%s}fault' % WSDL))
            if declared != got:
                R.violation('operation %s declares faults %s, method throws %s' % (name, sorted(got), sorted(declared)), repro,
                            mech='operation_faults')
    extra = set(ops) - set((md.get('operation_name') or md['name']) for sd in ir['services'] for md in sd['methods'])
    if extra:
        R.violation('portType operations without a method: %s' % sorted(extra), repro, mech='operation_without_method')


# ---------------------------------------------------------------- determinism

def check_determinism(R, seed, uid, B, wsdl_bytes, n_procs, repro):
    # rebuild on the same classes (a second Application over the same services)
    from spyne.protocol.soap import Soap11
    from spyne.server.wsgi import WsgiApplication
    app2 = B.app(Soap11(), Soap11())
    WsgiApplication(app2)
    w2 = app2.interface.docs.wsdl11
    w2.build_interface_document('http://localhost/')
    again = w2.get_interface_document()
    R.count('determinism_builds')
    if again != wsdl_bytes:
        R.violation('two builds in one process differ: %s' % first_diff(wsdl_bytes, again), repro, mech='nondeterministic_in_process')
    # build repetition on the same document object (what two transports over one Application do)
    w2.build_interface_document('http://localhost/')
    third = w2.get_interface_document()
    R.count('determinism_builds')
    if third != wsdl_bytes:
        R.violation('building the WSDL a second time on the same interface document object changes it: %s' % first_diff(wsdl_bytes, third), repro,
                    mech='rebuild_on_same_document_differs')
    # two WSGI transports over one Application serve the same ?wsdl
    served = []
    for k in range(2):
        wa = WsgiApplication(app2)
        env, inp = drive.make_environ('GET', '/', 'wsdl', b'', None)
        env['HTTP_HOST'] = 'localhost'
        r = drive.call_wsgi(wa, env, inp)
        if r.exc is None and r.code == 200:
            served.append(r.body)
    R.count('determinism_builds', len(served))
    if len(served) == 2 and served[0] != served[1]:
        R.violation('a second WsgiApplication over the same Application serves a different ?wsdl: %s' % first_diff(served[0], served[1]), repro,
                    mech='second_transport_serves_other_wsdl')
    mine = hashlib.sha1(wsdl_bytes).hexdigest()
    for hs in range(n_procs):
        env = dict(os.environ, PYTHONHASHSEED=str(hs if hs else 0), PYTHONPATH=core.VERIF, VERIF_REPO=core.REPO)
        if hs == n_procs - 1:
            env['PYTHONHASHSEED'] = 'random'
        try:
            p = subprocess.run([core.PY, '-B', '-m', 'checks.c07', 'wsdl', str(seed), str(uid)], cwd=core.VERIF, env=env,
                               capture_output=True, timeout=120)
            other = p.stdout
        except Exception as e:
            R.inconclusive.append('determinism subprocess failed: %r' % e)
            continue
        if not other:
            R.inconclusive.append('determinism subprocess printed nothing: %s' % p.stderr[-300:])
            continue
        R.count('determinism_builds')
        if other != wsdl_bytes:
            R.violation('WSDL differs under PYTHONHASHSEED=%s: %s' % (env['PYTHONHASHSEED'], first_diff(wsdl_bytes, other)),
                        dict(repro, hashseed=env['PYTHONHASHSEED']), mech='nondeterministic_across_hashseeds:%s' % diff_kind(wsdl_bytes, other))


def first_diff(a, b):
    i = next((i for i, (x, y) in enumerate(zip(a, b)) if x != y), min(len(a), len(b)))
    return 'at byte %d: %r vs %r' % (i, a[max(0, i - 60):i + 60], b[max(0, i - 60):i + 60])


def diff_kind(a, b):
    i = next((i for i, (x, y) in enumerate(zip(a, b)) if x != y), min(len(a), len(b)))
    ctx = a[max(0, i - 200):i + 40]
    j = ctx.rfind(b'<')
    tag = ctx[j + 1:].split(b' ')[0].split(b'>')[0].decode('ascii', 'replace') if j >= 0 else '?'
    return tag.split(':')[-1][:20]


# ---------------------------------------------------------------- zeep

def check_zeep(R, seed, uid, ir, tier, repro):
    from vflib import clients, zeepconv
    from spyne.server.wsgi import WsgiApplication
    rng = core.rng_for(seed, PROP, 'zeep%d' % uid)
    for kind in (('soap11',) if tier == 'quick' else ('soap11', 'soap12')):
        B, app, wsdl = build_wsdl(ir, kind)
        wsgi = app._vf_wsgi
        try:
            W = refxml.Wire(B, wsdl, rng)
        except Exception as e:
            R.skip('reference model cannot read the WSDL: %s' % type(e).__name__)
            continue
        try:
            Z = clients.ZeepInProc(wsdl, wsgi, soap12=(kind == 'soap12'))
        except Exception as e:
            R.violation('zeep cannot build a client from the WSDL: %s: %s' % (type(e).__name__, str(e)[:200]), dict(repro, kind=kind),
                        mech='zeep_load_failed:%s' % zeep_load_kind(e, ir, wsdl))
            continue
        R.count('zeep_clients_built')
        S = W.schema
        for sd in ir['services']:
            for md in sd['methods']:
                if md['style'] != 'wrapped':
                    described_reply(R, B, W, wsgi, ir, md, kind, rng, dict(repro, kind=kind, method=md['name']))
                    continue
                for k in range(2 if tier == 'quick' else 4):
                    args = [gen.gen_value(rng, ir, t) for _, t in md['args']]
                    rets = [gen.gen_value(rng, ir, t) for t in md['returns']]
                    if not all(zeepconv.all_representable(ir, t, v) for (_, t), v in zip(md['args'], args)) or \
                            not all(zeepconv.all_representable(ir, t, v) for t, v in zip(md['returns'], rets)):
                        R.skip('value class zeep cannot represent')
                        continue
                    one_zeep_call(R, B, W, S, Z, ir, md, args, rets, dict(repro, kind=kind, method=md['name'], call=k))


def described_reply(R, B, W, wsgi, ir, md, kind, rng, repro):
    """bare / out-bare methods (which the zeep driver of this check does not call): the reply to a request built from the WSDL is
    decoded by nothing but what the WSDL says about the response element - its declared type has to be the type of what is returned"""
    args = [gen.gen_value(rng, ir, t, top=(md['style'] == 'bare')) for _, t in md['args']]
    rets = [gen.gen_value(rng, ir, t, top=True) for t in md['returns']]
    try:
        el = W.request_element(md, args)
    except (refxml.NotConformant, refxml.SchemaMismatch) as e:
        if isinstance(e, refxml.SchemaMismatch):
            R.violation('the request element the WSDL describes for %s does not fit the declared arguments: %s' % (md['name'], str(e)[:200]), repro,
                        mech='described_request_differs:%s' % md['style'])
        return
    sp = [B.to_spyne(t, v) for t, v in zip(md['returns'], rets)]
    B.returns[md['name']] = sp[0] if len(sp) == 1 else (tuple(sp) if sp else None)
    B.calls[:] = []
    data = W.serialize(W.envelope(el, 11 if kind == 'soap11' else 12))
    env, inp = drive.make_environ('POST', '/', '', data, 'text/xml; charset=utf-8' if kind == 'soap11' else 'application/soap+xml; charset=utf-8')
    r = drive.call_wsgi(wsgi, env, inp)
    R.evaluations += 1
    R.count('described_replies')
    if r.exc is not None or (r.code or 0) >= 400:
        R.skip('bare request not served (C01 matter)')
        return
    try:
        h, kids = W.open_envelope(r.body, 11 if kind == 'soap11' else 12)
        dec = W.decode_response_element(md, kids[0])
    except refxml.SchemaMismatch as e:
        R.violation('the response element the WSDL describes for %s does not fit what the method returns: %s' % (md['name'], str(e)[:200]),
                    dict(repro, response=r.body[:600].decode('utf8', 'replace')), mech='described_response_differs:%s' % md['style'])
        return
    except Exception as e:
        import re
        if re.search(r"not an xs:decimal literal: '-?[0-9.]+E[+-]?[0-9]+'", str(e)):
            R.skip('a Decimal written with an exponent (the C01/C08 finding decimal_exponent_print, not a matter of the WSDL)')
            return
        R.violation('the reply of %s cannot be decoded by what the WSDL says about its response element: %s: %s' % (
            md['name'], type(e).__name__, str(e)[:200]), dict(repro, response=r.body[:600].decode('utf8', 'replace')),
            mech='described_response_undecodable:%s' % md['style'])
        return
    for i, (rt, sent, got) in enumerate(zip(md['returns'], rets, dec)):
        d = []
        if not gen.veq(ir, rt, sent, got, 'ret%d' % i, d):
            R.violation('the reply of %s decoded by the WSDL alone differs from the value returned: %s' % (md['name'], '; '.join(d)[:300]),
                        dict(repro, response=r.body[:600].decode('utf8', 'replace')), mech='described_response_value_differs:%s' % md['style'])
            return
    R.nontrivial('described_reply', kind, md['style'], tuple(gen.shape(t) for t in md['returns']))


def zeep_load_kind(e, ir=None, wsdl=b''):
    import re
    s = str(e)
    m = re.search(r"No definition '\{[^}]*\}(\w+)' in 'messages'", s)
    if m and ir is not None and header_also_bare(ir, m.group(1)):
        return 'header_class_also_bare_message_loses_element'
    if m and ir is not None and m.group(1).endswith('HeaderMsg') and ('<wsdl:message name="%s"' % m.group(1)).encode() in (wsdl or b''):
        # the multi-part header message IS defined; zeep dropped it because one of its parts names an element that is not
        # published - the same mechanism when that part's class is also a bare message
        mname, which = (m.group(1)[:-len('InHeaderMsg')], 'in_header') if m.group(1).endswith('InHeaderMsg') else \
            (m.group(1)[:-len('OutHeaderMsg')], 'out_header')
        for sd in ir['services']:
            for md in sd['methods']:
                if mname in (md['name'], md.get('operation_name'), md.get('in_message_name')) and any(header_also_bare(ir, h) for h in gen.header_names(md, which)):
                    return 'header_class_also_bare_message_loses_element'
    m2 = re.search(r"Unable to resolve type \{[^}]*\}(\w+)", s) if 'Unable to resolve type' in s else None
    if m2 and ir is not None and any('xmldata' in ft for t in ir['types'] for _, ft in t['fields']):
        return 'xmldata_type_not_published'
    if 'No definition' in s and 'messages' in s:
        return 'message_not_found'
    return type(e).__name__


def one_zeep_call(R, B, W, S, Z, ir, md, args, rets, repro):
    from vflib import zeepconv
    import zeep
    opname = md.get('operation_name') or md['name']
    try:
        eq = W.wsdl.in_element(opname)
        tq, ens, enode = S.elements[eq]
        attrs, elems, simple = S.content(tq)
        be = {e['name']: e for e in elems}
        kwargs = {}
        for (an, at), v in zip(md['args'], args):
            if v is not None:
                kwargs[an] = zeepconv.to_zeep(S, ir, at, v, be[an]['type'])
        oq = W.wsdl.out_element(opname)
        otq = S.elements[oq][0]
        oattrs, oelems, osimple = S.content(otq)
    except (refxml.SchemaMismatch, KeyError) as e:
        R.skip('published schema does not match the IR: %s' % str(e)[:60])
        return
    sp = [B.to_spyne(t, v) for t, v in zip(md['returns'], rets)]
    B.returns[md['name']] = sp[0] if len(sp) == 1 else (tuple(sp) if sp else None)
    B.calls[:] = []
    R.evaluations += 1
    headers = {}
    try:
        svc_proxy = Z.service
        if md.get('port_type'):
            # zeep's default proxy is the first port of the first service: bind to the port of this method's port type
            for sname, sv in Z.client.wsdl.services.items():
                if md['port_type'] in sv.ports:
                    svc_proxy = Z.client.bind(sname, md['port_type'])
        else:
            for sname, sv in Z.client.wsdl.services.items():
                for pname, port in sv.ports.items():
                    if opname in port.binding._operations:
                        svc_proxy = Z.client.bind(sname, pname)
        op = getattr(svc_proxy, opname)
        if md.get('in_header'):
            res = op(_soapheaders={h: {} for h in gen.header_names(md, 'in_header')}, **kwargs)
        else:
            res = op(**kwargs)
    except zeep.exceptions.ValidationError as e:
        R.skip('zeep refuses the value before sending: %s' % str(e)[:60])
        return
    except zeep.exceptions.Fault as e:
        R.violation('server answered zeep\'s request for %s with fault %s: %s' % (md['name'], e.code, str(e.message)[:200]),
                    dict(repro, request=(Z.last_request or b'')[:1500].decode('utf8', 'replace')), mech='zeep_request_rejected:%s' % str(e.code).split(':')[-1])
        return
    except Exception as e:
        R.violation('zeep call failed: %s: %s' % (type(e).__name__, str(e)[:200]),
                    dict(repro, request=(Z.last_request or b'')[:1000].decode('utf8', 'replace'), response=(Z.last_response or b'')[:1000].decode('utf8', 'replace')),
                    mech='zeep_call_failed:%s' % type(e).__name__)
        return
    names = [c[0] for c in B.calls]
    if names != [md['name']]:
        R.violation('zeep call to %s entered %r' % (md['name'], names), repro, mech='zeep_invocation_count')
        return
    R.count('zeep_calls_entered')
    ok = True
    for (an, at), sent, o in zip(md['args'], args, B.calls[0][1]):
        d = []
        if not gen.veq(ir, at, zeepconv.znorm(ir, at, sent), zeepconv.znorm(ir, at, B.from_spyne(at, o)), an, d):
            ok = False
            R.violation('argument %s sent by zeep arrived differently: %s' % (an, '; '.join(d)[:300]),
                        dict(repro, request=(Z.last_request or b'')[:1500].decode('utf8', 'replace')), mech='zeep_arg_differs:%s' % gen.shape(at)[:30])
    # decode zeep's view of the reply
    try:
        if md.get('out_header') and zeepconv._get(res, 'body') is not None and hasattr(res, 'header'):
            # with a declared out header zeep returns {header, body}; body holds the wrapper members
            res = res.body
            if len(md['returns']) == 1:
                res = zeepconv._get(res, oelems[0]['name'])
        if len(md['returns']) == 0:
            got = []
        elif len(md['returns']) == 1:
            d0 = oelems[0]
            got = [zeepconv.from_zeep(S, ir, md['returns'][0], res, d0['type'])]
        else:
            got = [zeepconv.from_zeep(S, ir, t, zeepconv._get(res, d['name']), d['type']) for t, d in zip(md['returns'], oelems)]
    except Exception as e:
        R.skip('zeep result not convertible by the harness: %s' % type(e).__name__)
        return
    for i, (t, sent, g) in enumerate(zip(md['returns'], rets, got)):
        d = []
        if not gen.veq(ir, t, zeepconv.znorm(ir, t, sent), zeepconv.znorm(ir, t, g), 'ret%d' % i, d):
            ok = False
            R.violation('zeep decoded return value %d differently: %s' % (i, '; '.join(d)[:300]),
                        dict(repro, response=(Z.last_response or b'')[:1500].decode('utf8', 'replace')), mech='zeep_ret_differs:%s' % gen.shape(t)[:30])
    if ok:
        R.nontrivial('zeep', tuple(gen.shape(t) for _, t in md['args']), tuple(gen.shape(t) for t in md['returns']),
                     tuple(gen.vclass(a) for a in args))
        R.cell('zeep|%s' % repro['kind'])


# ---------------------------------------------------------------- driver

def run_app(R, seed, uid, tier):
    ir = universe(seed, uid)
    repro = {'seed': seed, 'uid': uid}
    try:
        B, app, wsdl = build_wsdl(ir)
    except Exception as e:
        R.skip('universe rejected at construction: %s' % type(e).__name__)
        R.count('universe_rejected_at_construction')
        return
    R.evaluations += 1
    root = check_closure(R, wsdl, ir, repro)
    if root is not None:
        check_structure(R, root, ir, repro)
        nv = sum(1 for v in R.violations if v.get('repro', {}).get('uid') == uid)
        if not nv:
            R.nontrivial('closure', len(ir['services']), len(ir['types']), sum(len(s['methods']) for s in ir['services']),
                         any(m.get('in_header') for s in ir['services'] for m in s['methods']))
        if len(R.samples) < 2:
            R.sample({'uid': uid, 'services': [[m['name'], m['style'], m.get('operation_name'), m.get('in_header'), m.get('throws')]
                                                 for s in ir['services'] for m in s['methods']], 'wsdl_bytes': len(wsdl),
                      'wsdl_sha1': hashlib.sha1(wsdl).hexdigest()})
    check_determinism(R, seed, uid, B, wsdl, 4 if tier == 'quick' else 12, repro)
    check_zeep(R, seed, uid, ir, tier, repro)


def bare_foreign_names(R, seed):
    """bare methods whose request element is named in another namespace (_in_message_name='{ns}name'): the interface document must build, and what
    its wsdl:part refers to must be a declared prefix and a declared element - whether or not that namespace holds classes of its own"""
    import re
    from spyne import Application, Service, rpc, Unicode, Integer, ComplexModel
    from spyne.protocol.soap import Soap11
    Item = type('BfItem', (ComplexModel,), {'__namespace__': 'urn:vf:c07:items', 'a': Integer})
    Other = type('BfOther', (ComplexModel,), {'__namespace__': 'urn:vf:c07:other', 'b': Integer})
    for arg, argname in ((Item, 'complex'), (Unicode, 'primitive')):
        for populated in (False, True):
            R.evaluations += 1

            def mk(name, *a, **kw):
                def f(ctx, v):
                    return v
                f.__name__ = name
                return rpc(*a, **kw)(f)
            d = {'put': mk('put', arg, _returns=arg, _body_style='bare', _in_message_name='{urn:vf:c07:other}putIt')}
            if populated:
                d['other'] = mk('other', Other, _returns=Other)
            S = type('BfSvc', (Service,), d)
            case = {'scenario': 'bare_foreign_names', 'seed': seed, 'argument': argname, 'namespace_has_classes': populated}
            try:
                app = Application([S], 'urn:vf:c07:bf', name='Bf', in_protocol=Soap11(), out_protocol=Soap11())
                w = app.interface.docs.wsdl11
                w.build_interface_document('http://localhost/')
                doc = w.get_interface_document()
            except Exception as e:
                R.violation('interface document of a bare method with a request element in another namespace cannot be built (%s argument, namespace %s): %s: %s' % (
                            argname, 'with classes' if populated else 'without classes', type(e).__name__, str(e)[:100]), case, mech='bare_foreign_in_message_name:build_raises')
                continue
            root = etree.fromstring(doc)
            R.count('bare_foreign_documents_built')
            declared = set()
            for sch in root.iter('{http://www.w3.org/2001/XMLSchema}schema'):
                for el in sch.findall('{http://www.w3.org/2001/XMLSchema}element'):
                    declared.add('{%s}%s' % (sch.get('targetNamespace'), el.get('name')))
            bad = None
            for part in root.iter('{http://schemas.xmlsoap.org/wsdl/}part'):
                ref = part.get('element')
                if ref is None:
                    continue
                pfx, _, local = ref.rpartition(':')
                uri = part.nsmap.get(pfx or None)
                if uri is None:
                    bad = 'wsdl:part refers to %r: prefix %r is not declared' % (ref, pfx)
                    break
                if '{%s}%s' % (uri, local) not in declared:
                    bad = 'wsdl:part refers to {%s}%s, which no schema declares' % (uri, local)
                    break
            if bad:
                R.violation('bare method with a request element in another namespace (%s argument, namespace %s): %s' % (argname, 'with classes' if populated else 'without classes', bad),
                            case, mech='bare_foreign_in_message_name:part_unresolved')
            else:
                R.nontrivial('bare_foreign', argname, populated)


def wrapped_foreign_names(R, seed):
    """wrapped methods whose request (or response) message is named in a namespace of its own - one that nothing else of the interface uses: a client
    built from the WSDL alone gets its calls served, whatever validator the server runs with"""
    from vflib import clients
    from spyne import Application, Service, rpc, Unicode, Integer, ComplexModel, Array
    from spyne.protocol.soap import Soap11
    from spyne.server.wsgi import WsgiApplication
    Item = type('WfItem', (ComplexModel,), {'__namespace__': 'urn:vf:c07:wf:items', 'a': Integer, 's': Unicode})
    for validator in (None, 'soft', 'lxml'):
        for which in ('in', 'out', 'both', 'in_shared'):
            for argname in ('primitive', 'complex'):
                R.evaluations += 1
                case = {'scenario': 'wrapped_foreign_names', 'seed': seed, 'validator': validator, 'named': which, 'argument': argname}
                kw = {}
                if which in ('in', 'both', 'in_shared'):
                    kw['_in_message_name'] = '{urn:vf:c07:wf:%s}Move' % ('items' if which == 'in_shared' else 'req')
                if which in ('out', 'both'):
                    kw['_out_message_name'] = '{urn:vf:c07:wf:resp}Moved'
                if argname == 'primitive':
                    def move(ctx, n, t):
                        return '%s%s' % (t, n)
                    d = {'move': rpc(Integer, Unicode, _returns=Unicode, **kw)(move)}
                    call, want = (lambda svc: svc.move(n=5, t='x')), 'x5'
                else:
                    def move(ctx, it, n):
                        return Item(a=it.a + n, s=it.s)
                    d = {'move': rpc(Item, Integer, _returns=Item, **kw)(move)}
                    call, want = (lambda svc: (lambda r: (r.a, r.s))(svc.move(it={'a': 2, 's': 'k'}, n=3))), (5, 'k')
                d['plain'] = rpc(Integer, _returns=Integer)(lambda ctx, n: n)
                S = type('WfSvc', (Service,), d)
                try:
                    app = Application([S], 'urn:vf:c07:wf', name='Wf', in_protocol=Soap11(validator=validator), out_protocol=Soap11())
                    wsgi = WsgiApplication(app)
                    w = app.interface.docs.wsdl11
                    w.build_interface_document('http://localhost/')
                    doc = w.get_interface_document()
                except Exception as e:
                    R.violation('application with a wrapped method named in another namespace (%s, %s argument, validator=%s) cannot be built: %s: %s' % (
                                which, argname, validator, type(e).__name__, str(e)[:120]), case, mech='wrapped_foreign_message_name:build_raises')
                    continue
                try:
                    Z = clients.ZeepInProc(doc, wsgi)
                except Exception as e:
                    R.violation('zeep cannot build a client from the WSDL (%s, %s argument): %s: %s' % (which, argname, type(e).__name__, str(e)[:160]), case,
                                mech='wrapped_foreign_message_name:zeep_load')
                    continue
                R.count('wrapped_foreign_clients_built')
                try:
                    got = call(Z.service)
                except Exception as e:
                    R.violation('call described by the WSDL (message named in another namespace: %s, %s argument, validator=%s) failed: %s: %s' % (
                                which, argname, validator, type(e).__name__, str(e)[:160]), dict(case, request=(Z.last_request or b'')[:600].decode('utf8', 'replace')),
                                mech='wrapped_foreign_message_name:call_refused:%s' % validator)
                    continue
                if got != want:
                    R.violation('call described by the WSDL returned %r, expected %r' % (got, want), case, mech='wrapped_foreign_message_name:wrong_result')
                    continue
                R.nontrivial('wrapped_foreign', validator, which, argname)


def run(spec, R):
    if spec['first'] == 0:
        bare_foreign_names(R, spec['seed'])
        wrapped_foreign_names(R, spec['seed'])
    for uid in range(spec['first'], spec['first'] + spec['count']):
        run_app(R, spec['seed'], uid, spec['tier'])
    if spec['first'] == 0:
        run_app(R, spec['seed'], NAMING_MATRIX, spec['tier'])
        R.count('naming_matrix_universes')


def replay(v, R):
    c = v['repro']
    if c.get('scenario') == 'bare_foreign_names':
        bare_foreign_names(R, c['seed'])
        for x in R.violations[:10]:
            print('replayed:', x.get('mech'), x.get('what')[:300])
        return
    if c.get('scenario') == 'wrapped_foreign_names':
        wrapped_foreign_names(R, c['seed'])
        for x in R.violations[:10]:
            print('replayed:', x.get('mech'), x.get('what')[:300])
        return
    run_app(R, c['seed'], c['uid'], 'quick')
    for x in R.violations[:10]:
        print('replayed:', x.get('mech'), x.get('what')[:300])


def classify(v):
    return v.get('mech')


if __name__ == '__main__':
    if sys.argv[1] == 'wsdl':
        core.bootstrap()
        ir = universe(int(sys.argv[2]), int(sys.argv[3]))
        B, app, wsdl = build_wsdl(ir)
        sys.stdout.buffer.write(wsdl)
