"""C11 - a request runs exactly the method it names.

Applications with 2-4 services and adversarially similar method names; every
permutation of the service list; every protocol's way of naming the method.
Per-function invocation counters decide: exactly the registered function once
and nothing else; for unregistered near-miss names nothing at all + a not-found
client fault; duplicates are rejected at construction.
"""
import itertools
import json

from vflib import core, drive, miniapp as M

PROP = 'C11'
LEVEL = 'exploration'
RULE = ('generated applications (2-4 services, 6-14 methods with case variants, prefix/suffix/underscore/digit variants, custom operation '
        'names) x all permutations of the service list x 9 naming channels (XML root QName, SOAP 1.1/1.2 body child, JSON/YAML single key, '
        'MessagePack str and bin key, msgpack-rpc name field, HttpRpc URL segment) plus the HttpPattern channel (a static or one-placeholder '
        'route per method, verb-restricted for every other method; near-miss paths); custom names: _operation_name, _in_message_name, and the '
        'cooperating pair "A published under an in-message name, B published under A\'s python name"; names sent: every registered one, and per registered name '
        'its case flip, one char added/removed front/back, and the name qualified with another namespace; non-trivial = a request that was '
        'dispatched or refused with a decoded fault; distinct by (channel, permutation, name class, outcome).'
        ' Also: decoy requests that name one method and mention another elsewhere, methods whose request element is declared in another namespace, bare methods over foreign-namespace types, odd msgpack-rpc name kinds and corrupted binary msgpack keys, auxiliary services, six duplicate shapes at construction.')
ASSUMPTIONS = [
    'an unqualified XML root (no namespace at all) is recorded, not judged: the statement speaks of "a different namespace"',
    'auxiliary methods: one SyncAuxProc service per second application, listed first or last',
]
REQUIRED_COUNTERS = ('registered_calls', 'near_miss_calls', 'functions_entered', 'duplicate_constructions', 'pattern_calls')
CHANNELS = ('xml', 'soap11', 'soap12', 'json', 'yaml', 'msgpack', 'msgpack-bkeys', 'msgpackrpc', 'httprpc-json')
BASES = ['get', 'put', 'item', 'x', 'list_all', 'a1']


def shards(tier, seed):
    n = 16 if tier == 'quick' else 48
    return [{'shard': 'a%d' % i, 'tier': tier, 'seed': seed, 'first': i * (1 if tier == 'quick' else 3), 'count': 1 if tier == 'quick' else 3}
            for i in range(n)]


def variants(base):
    out = {base, base.capitalize(), base.upper(), base + '_', '_' + base, base + 'x', 'x' + base, base + '1', base + base, base[:-1] or 'q'}
    return [v for v in out if v.isidentifier()]


def gen_app_spec(rng):
    nserv = rng.randint(2, 4)
    pool = []
    for b in rng.sample(BASES, rng.randint(1, 3)):
        pool += variants(b)
    pool = sorted(set(pool))
    rng.shuffle(pool)
    names = pool[:rng.randint(6, min(14, len(pool)))]
    services = [[] for _ in range(nserv)]
    for i, n in enumerate(names):
        op = None
        r = rng.random()
        if r < .2:
            op = 'op_' + n
        elif r < .35:
            op = 'in:im_' + n          # custom in-message name: that, not the python name, is what a request names
        services[i % nserv].append((n, op))
    # two cooperating customisations: A is published under an in-message name, and B's operation name is A's python name
    plain = [(si, mi) for si, ms in enumerate(services) for mi, (n, op) in enumerate(ms) if op is None]
    if len(plain) >= 2 and rng.random() < .6:
        (sa, ma), (sb, mb) = rng.sample(plain, 2)
        a, b = services[sa][ma][0], services[sb][mb][0]
        services[sa][ma] = (a, 'in:im_' + a)
        services[sb][mb] = ('py_' + b, a)
    return [s for s in services if s]


def public_name(pyname, op):
    if op and op.startswith('in:'):
        return op[3:]
    return op or pyname


def pattern_path(si, pyname, placeholder=False):
    return '/r%d/p_%s%s' % (si, pyname, '/<n>' if placeholder else '')


def has_placeholder(si, mi):
    return (si + mi) % 3 == 0


def build(spec_services, order, kind, calls, patterns=False, seen=None, aux_of=None, aux_first=False):
    """services listed in the given order; every function reports (service idx, python name)"""
    from spyne import Application, Service, rpc, Integer
    from spyne.protocol.http import HttpPattern
    svcs = []
    for si, methods in enumerate(spec_services):
        d = {}
        for mi, (pyname, op) in enumerate(methods):
            ph = patterns and has_placeholder(si, mi)

            def make(si=si, pyname=pyname, ph=ph):
                if ph:
                    def f(ctx, n):
                        calls.append((si, pyname))
                        if seen is not None:
                            seen.append(n)
                        return si * 1000 + len(pyname)
                else:
                    def f(ctx):
                        calls.append((si, pyname))
                        return si * 1000 + len(pyname)
                f.__name__ = str(pyname)
                return f
            kw = {'_returns': Integer}
            if op and op.startswith('in:'):
                kw['_in_message_name'] = op[3:]
            elif op:
                kw['_operation_name'] = op
            if patterns:
                kw['_patterns'] = [HttpPattern(pattern_path(si, pyname, ph), verb='GET' if mi % 2 else None)]
            d[pyname] = rpc(*([Integer] if ph else []), **kw)(make())
        svcs.append(type(str('Svc%d' % si), (Service,), d))
    inp, outp = M.make_protocols(kind, None)
    listed = [svcs[i] for i in order]
    if aux_of is not None:
        # an auxiliary service: its method of the same public name runs in addition to (after) the primary one
        from spyne.auxproc.sync import SyncAuxProc
        asi, apyname, aop = aux_of

        def af(ctx):
            calls.append(('aux', apyname))
        af.__name__ = str(apyname)
        akw = {}
        if aop and aop.startswith('in:'):
            akw['_in_message_name'] = aop[3:]
        elif aop:
            akw['_operation_name'] = aop
        AuxSvc = type(str('AuxSvc'), (Service,), {'__aux__': SyncAuxProc(), apyname: rpc(**akw)(af)})
        listed = ([AuxSvc] + listed) if aux_first else (listed + [AuxSvc])
    app = Application(listed, M.TNS, name='C11App', in_protocol=inp, out_protocol=outp)
    return app


def request(channel, name, ns=M.TNS):
    if channel == 'httppattern':
        return dict(method='GET', path=name, qs='', body=b'', content_type=None)
    kind = channel.replace('-bkeys', '')
    if kind in ('xml', 'soap11', 'soap12'):
        r = M.encode_request(kind, name, [])
        r['body'] = r['body'].replace(M.TNS.encode(), ns.encode()) if ns != M.TNS else r['body']
        if ns is None:
            r['body'] = r['body'].replace(b'tns:' + name.encode(), name.encode()).replace(b' xmlns:tns="%s"' % M.TNS.encode(), b'')
        return r
    if channel == 'msgpack':
        import msgpack
        return dict(method='POST', path='/', qs='', body=msgpack.packb({name: {}}), content_type='application/x-msgpack')
    if channel == 'msgpack-odd':
        # the single key of the request map holding something that is not the text of a name: `name` is the key object itself
        import msgpack
        return dict(method='POST', path='/', qs='', body=msgpack.packb({name: {}}, use_bin_type=True), content_type='application/x-msgpack')
    if channel == 'msgpackrpc-odd':
        # the name field of a msgpack-rpc request holding something that is not a name: `name` is the packed object itself
        import msgpack
        return dict(method='POST', path='/', qs='', body=msgpack.packb([0, 1, name, []], use_bin_type=True), content_type='application/x-msgpack')
    return M.encode_request(kind if kind != 'msgpack' else 'msgpack', name, [])


def decoy_requests(channel, name, other):
    """requests that name `name` where the channel says the name goes, and mention `other` (a registered name) where a careless
    reader could pick it up instead: [(label, request)]"""
    kind = channel.replace('-bkeys', '')
    out = []
    if kind in ('soap11', 'soap12'):
        ens = (M.S11 if kind == 'soap11' else M.S12)
        ct = 'text/xml; charset=utf-8' if kind == 'soap11' else 'application/soap+xml; charset=utf-8'
        env = '<e:Envelope xmlns:e="%s" xmlns:tns="%s">%%s<e:Body>%%s</e:Body></e:Envelope>' % (ens, M.TNS)
        n, o = '<tns:%s/>' % name, '<tns:%s/>' % other
        shapes = [('header_relays_body', '<e:Header><r:relay xmlns:r="urn:relay"><e:Body>%s</e:Body></r:relay></e:Header>' % o, n),
                  ('header_relays_envelope', '<e:Header><r:relay xmlns:r="urn:relay">%s</r:relay></e:Header>' % (env % ('', o)), n),
                  ('header_entry', '<e:Header>%s</e:Header>' % o, n),
                  ('nested_in_call', '', '<tns:%s>%s</tns:%s>' % (name, o, name)),
                  ('comment_before', '<!-- <e:Body>%s</e:Body> -->' % o, n),
                  ('body_nested_in_call', '', '<tns:%s><e:Body>%s</e:Body></tns:%s>' % (name, o, name))]
        for label, head, body in shapes:
            out.append((label, dict(method='POST', path='/', qs='', body=(env % (head, body)).encode('utf8'), content_type=ct)))
    elif kind == 'xml':
        for label, body in [('nested_in_call', '<tns:%s xmlns:tns="%s"><tns:%s/></tns:%s>' % (name, M.TNS, other, name)),
                            ('comment_before', '<!-- <tns:%s/> --><tns:%s xmlns:tns="%s"/>' % (other, name, M.TNS)),
                            ('pi_before', '<?%s x?><tns:%s xmlns:tns="%s"/>' % (other, name, M.TNS)),
                            ('attribute', '<tns:%s xmlns:tns="%s" %s="1" method="%s"/>' % (name, M.TNS, other, other))]:
            out.append((label, dict(method='POST', path='/', qs='', body=body.encode('utf8'), content_type='text/xml; charset=utf-8')))
    elif kind in ('json', 'yaml', 'msgpack'):
        import msgpack, yaml as _yaml
        dump = {'json': lambda d: json.dumps(d).encode(), 'yaml': lambda d: _yaml.safe_dump(d).encode(),
                'msgpack': lambda d: msgpack.packb(d, use_bin_type=True)}[kind]
        ct = {'json': 'application/json', 'yaml': 'text/yaml', 'msgpack': 'application/x-msgpack'}[kind]
        for label, d in [('nested_in_call', {name: {other: {}}}), ('nested_list', {name: [{other: {}}]}), ('value_is_name', {name: other})]:
            out.append((label, dict(method='POST', path='/', qs='', body=dump(d), content_type=ct)))
    elif kind == 'msgpackrpc':
        import msgpack
        for label, d in [('name_in_params', [0, 1, name, [other]]), ('name_as_id', [0, other, name, []]), ('fifth_field', [0, 1, name, [], other])]:
            out.append((label, dict(method='POST', path='/', qs='', body=msgpack.packb(d, use_bin_type=True), content_type='application/x-msgpack')))
    elif kind == 'httprpc-json':
        for label, path, qs in [('name_in_query', '/' + name, '%s=1' % other), ('leading_segment', '/%s/%s' % (other, name), ''),
                                ('method_parameter', '/' + name, 'method=%s' % other), ('fragment', '/' + name, '#%s' % other)]:
            out.append((label, dict(method='GET', path=path, qs=qs, body=b'', content_type=None)))
    return out


def one_decoy(R, wsgi, calls, channel, label, req, name, owner, other, other_owner, repro):
    env, inp = drive.make_environ(req['method'], req['path'], req['qs'], req['body'], req['content_type'])
    del calls[:]
    R.evaluations += 1
    w = drive.call_wsgi(wsgi, env, inp)
    case = dict(repro, name=name, decoy=other, shape=label)
    R.count('decoy_requests')
    if w.exc is not None:
        R.skip('an exception escaped on a decoy request (C10 matter)')
        return
    entered = [c for c in calls if not (isinstance(c, tuple) and c and c[0] == 'aux')]
    if other_owner in entered:
        R.violation('request naming %r and merely mentioning %r (%s) ran %r' % (name, other, label, entered), case,
                    mech='decoy_dispatched:%s:%s' % (channel.replace('-bkeys', ''), label))
        return
    if owner is None and entered:
        R.violation('request naming the unregistered %r (%s) ran %r' % (name, label, entered), case, mech='decoy_near_miss_dispatched:%s' % label)
        return
    if owner is not None and entered not in ([], [owner]):
        R.violation('request naming %r (%s) ran %r' % (name, label, entered), case, mech='decoy_wrong_dispatch:%s' % label)
        return
    if owner is None and (w.code or 0) < 400 and channel not in ('soap11', 'soap12'):
        R.violation('request naming the unregistered %r (%s) answered %s' % (name, label, w.status), case, mech='decoy_near_miss_answered:%s' % label)
        return
    R.nontrivial(channel, 'decoy', label, owner is not None, bool(entered))


def near_misses(name, registered):
    cands = {name.swapcase(), name.upper(), name.lower(), name.capitalize(), 'x' + name, '_' + name, name + 'x', name + '_', name + '1',
             name[1:], name[:-1], name + ' ', ' ' + name}
    return sorted(c for c in cands if c and c not in registered and c != name)


def run_app(R, seed, aid, tier):
    rng = core.rng_for(seed, PROP, 'app%d' % aid)
    spec = gen_app_spec(rng)
    nserv = len(spec)
    registered = {}
    for si, methods in enumerate(spec):
        for pyname, op in methods:
            registered[public_name(pyname, op)] = (si, pyname)
    perms = list(itertools.permutations(range(nserv)))
    if tier == 'quick' and len(perms) > 6:
        perms = [perms[0], perms[-1]] + rng.sample(perms[1:-1], 4)
    channels = list(CHANNELS)
    if tier == 'quick':
        channels = rng.sample(channels, 4)
    from spyne.server.wsgi import WsgiApplication
    run_patterns(R, seed, aid, tier, spec, registered, perms, rng)
    # every other application has one auxiliary method (for a method without a placeholder argument)
    aux_of = None
    if aid % 2 == 0:
        cands = [(si, pyname, op) for si, methods in enumerate(spec) for (pyname, op) in methods]
        aux_of = rng.choice(cands)
    for channel in channels:
        kind = channel.replace('-bkeys', '')
        baseline = {}
        for pi, order in enumerate(perms):
            calls = []
            try:
                app = build(spec, order, kind, calls, aux_of=aux_of, aux_first=bool(pi % 2))
            except Exception as e:
                R.violation('application with distinct method names was rejected at construction: %r' % e, {'seed': seed, 'app': aid, 'channel': channel},
                            mech='valid_app_rejected:%s' % type(e).__name__)
                break
            wsgi = WsgiApplication(app)
            repro = {'seed': seed, 'app': aid, 'channel': channel, 'order': list(order), 'services': spec, 'aux_of': aux_of, 'aux_first': bool(pi % 2)}
            for name, owner in sorted(registered.items()):
                one(R, wsgi, calls, channel, name, M.TNS, owner, repro, baseline, pi,
                    aux=(aux_of is not None and owner == (aux_of[0], aux_of[1])))
            if (pi == 0 or tier == 'thorough') and len(registered) > 1 and channel != 'msgpack-bkeys':
                names = sorted(registered)
                for i, name in enumerate(names):
                    other = names[(i + 1) % len(names)]
                    if aux_of is not None and registered[other] == (aux_of[0], aux_of[1]):
                        continue
                    for label, req in decoy_requests(channel, name, other):
                        one_decoy(R, wsgi, calls, channel, label, req, name, registered[name], other, registered[other], repro)
                    miss = [x for x in near_misses(name, registered) if x.isidentifier()][:1]
                    for nm in miss:
                        for label, req in decoy_requests(channel, nm, other):
                            one_decoy(R, wsgi, calls, channel, label, req, nm, None, other, registered[other], repro)
            if pi == 0 or tier == 'thorough':
                for name in sorted(registered):
                    for nm in [x for x in near_misses(name, registered) if not (kind in ('xml', 'soap11', 'soap12') and not x.isidentifier())][: 4 if tier == 'quick' else 20]:
                        one(R, wsgi, calls, channel, nm, M.TNS, None, repro, None, pi)
                    if channel == 'msgpackrpc':
                        for odd in ([name], [name, name], [], {name: 1}, name.encode() + b'\xff', [[name]], 5, None, True, [name.encode()]):
                            R.count('odd_name_kinds')
                            one(R, wsgi, calls, 'msgpackrpc-odd', odd, M.TNS, None, repro, None, pi)
                    if channel in ('msgpack', 'msgpack-bkeys'):
                        # binary keys that are a registered name plus bytes that are no text in any encoding
                        nb = name.encode()
                        for odd in (nb + b'\xff', b'\xff' + nb, nb[:1] + b'\xfe' + nb[1:], nb + b'\x80', b'\xc3' + nb, nb + b'\xc3', nb + b'\x00',
                                    b'\xef\xbb\xbf' + nb):
                            R.count('odd_name_kinds')
                            one(R, wsgi, calls, 'msgpack-odd', odd, M.TNS, None, repro, None, pi)
                    if kind in ('xml', 'soap11', 'soap12'):
                        one(R, wsgi, calls, channel, name, 'urn:vf:other', None, repro, None, pi)
                        one(R, wsgi, calls, channel, name, M.TNS + 'x', None, repro, None, pi)
                        one(R, wsgi, calls, channel, name, None, 'unqualified', repro, None, pi)
    if len(R.samples) < 2:
        R.sample({'app': aid, 'services': spec, 'permutations': len(perms)})
    duplicates(R, rng, seed, aid)
    qualified_in_message(R, rng, seed, aid)
    cosmetic_options(R, rng, seed, aid)
    if aid % 4 == 0:
        mixed_output(R, rng, seed, aid)


def run_patterns(R, seed, aid, tier, spec, registered, perms, rng):
    """naming channel 'HttpPattern': the request path (and verb) of a registered pattern names the method"""
    from spyne.server.wsgi import WsgiApplication
    channel = 'httppattern'
    routes = {}
    for si, methods in enumerate(spec):
        for mi, (pyname, op) in enumerate(methods):
            ph = has_placeholder(si, mi)
            routes[pattern_path(si, pyname, False) + ('/%d' % (7 + mi) if ph else '')] = ((si, pyname), 7 + mi if ph else None)
    baseline = {}
    for pi, order in enumerate(perms):
        calls, seen = [], []
        try:
            app = build(spec, order, 'httprpc-json', calls, patterns=True, seen=seen)
        except Exception as e:
            R.violation('application with distinct method names and routes was rejected at construction: %r' % e,
                        {'seed': seed, 'app': aid, 'channel': channel}, mech='valid_app_rejected:%s' % type(e).__name__)
            return
        wsgi = WsgiApplication(app)
        repro = {'seed': seed, 'app': aid, 'channel': channel, 'order': list(order), 'services': spec}
        for path, (owner, n) in sorted(routes.items()):
            del seen[:]
            one(R, wsgi, calls, channel, path, M.TNS, owner, repro, baseline, pi)
            R.count('pattern_calls')
            if n is not None and calls == [owner] and seen != [n]:
                R.violation('route %s delivered %r for the path placeholder, sent %r' % (path, seen, n), dict(repro, name=path), mech='pattern_placeholder_value')
        if pi == 0 or tier == 'thorough':
            for path in sorted(routes):
                head, _, last = path.rpartition('/')
                cands = [head + '/' + last.swapcase(), head + '/' + last + 'x', head + '/x' + last, head + '/' + last[:-1],
                         head.swapcase() + '/' + last, head + 'x/' + last, '/x' + head[1:] + '/' + last]
                for nm in cands[: 4 if tier == 'quick' else 20]:
                    if nm in routes or nm.rpartition('/')[2] in registered or not nm.rpartition('/')[2]:
                        continue
                    if any(nm.startswith(r.rsplit('/', 1)[0] + '/') and r.rsplit('/', 1)[1].isdigit() and nm.count('/') == r.count('/') for r in routes):
                        continue        # still matches a '<n>' placeholder route: that is a C03/C05 matter (bad integer), not naming
                    one(R, wsgi, calls, channel, nm, M.TNS, None, repro, None, pi)
        # the plain HttpRpc naming (last path segment = public name) still works beside the patterns
        for name, owner in sorted(registered.items()):
            si, pyname = owner
            mi = [m[0] for m in spec[si]].index(pyname)
            if has_placeholder(si, mi):
                continue
            one(R, wsgi, calls, 'httprpc-json', name, M.TNS, owner, repro, None, pi)


def one(R, wsgi, calls, channel, name, ns, owner, repro, baseline, pi, aux=False):
    kind = channel.replace('-bkeys', '').replace('-odd', '')
    if kind == 'httppattern':
        kind = 'httprpc-json'
    try:
        req = request(channel, name, ns)
    except Exception as e:
        R.skip('name not expressible on this channel: %s' % type(e).__name__)
        return
    env, inp = drive.make_environ(req['method'], req['path'], req['qs'], req['body'], req['content_type'])
    del calls[:]
    R.evaluations += 1
    w = drive.call_wsgi(wsgi, env, inp)
    case = dict(repro, name=name if isinstance(name, str) else repr(name), ns=ns)
    if not isinstance(name, str):
        name = repr(name)
    if w.exc is not None:
        if owner is None:
            R.skip('an exception escaped on an unregistered name (C10 matter)')
            return
        R.violation('exception escaped for registered name %r: %r' % (name, w.exc), case, mech='escape:%s' % type(w.exc).__name__)
        return
    entered = list(calls)
    R.count('functions_entered', len(entered))
    if owner == 'unqualified':
        R.count('unqualified_root_%s' % ('dispatched' if entered else 'refused'))
        return
    if owner is not None:
        R.count('registered_calls')
        if aux:
            R.count('aux_calls')
            if entered != [owner, ('aux', owner[1])]:
                R.violation('request naming %r (which has an auxiliary method) entered %r, expected the primary then the auxiliary function' % (name, entered), case,
                            mech='aux_dispatch:%s' % ('none' if not entered else 'primary_only' if entered == [owner] else 'other'))
                return
            entered = [owner]
        if entered != [owner]:
            R.violation('request naming %r entered %r, registered function is %r' % (name, entered, owner), case,
                        mech='wrong_dispatch:%s' % ('none' if not entered else 'multiple' if len(entered) > 1 else 'other'))
            return
        if baseline is not None:
            prev = baseline.setdefault(name, (entered, w.status))
            if prev != (entered, w.status):
                R.violation('dispatch of %r changed with the order of services: %r vs %r' % (name, prev, (entered, w.status)), case, mech='order_dependent_dispatch')
                return
        R.nontrivial(channel, min(pi, 2), 'registered', name.lower() != name, '_' in name)
    else:
        R.count('near_miss_calls')
        if entered:
            R.violation('unregistered name %r (ns %r) ran %r' % (name, ns, entered), case,
                        mech='near_miss_dispatched:%s' % miss_kind(name, entered[0][1], ns))
            return
        f = M.decode_fault(kind if kind != 'httprpc-json' else 'json', w.body)
        code = f[0] if f else None
        if isinstance(code, bytes):
            code = code.decode()
        code = (code or '').split(':')[-1]
        if code == 'Sender.ResourceNotFound':
            code = 'Client.ResourceNotFound'
        if not code.startswith('Client'):
            R.violation('unregistered name %r answered with %r / %s, not a not-found client fault' % (name, code, w.status), case,
                        mech='near_miss_not_client_fault:%s' % channel)
            return
        if 'ResourceNotFound' not in code:
            R.count('near_miss_client_fault_other_than_notfound:%s' % code[:40])
        if kind not in ('soap11', 'soap12') and w.code != 404 and 'ResourceNotFound' in code:
            R.violation('not-found fault over HTTP answered %s' % w.status, case, mech='not_found_status:%s' % channel)
            return
        R.nontrivial(channel, 'near_miss', miss_kind(name, '', ns), code)
    R.cell(channel)


def miss_kind(sent, ran, ns):
    if ns != M.TNS:
        return 'namespace'
    if sent.lower() == ran.lower():
        return 'case'
    if sent.startswith(ran) or ran.startswith(sent):
        return 'suffix'
    if sent.endswith(ran) or ran.endswith(sent):
        return 'prefix'
    return 'other'


def qualified_in_message(R, rng, seed, aid):
    """a method whose request element is declared in another namespace (_in_message_name='{ns}name') answers to that qualified name (what the
    interface document tells clients to send) and to its name in the application's namespace; the same local name in any third namespace,
    and the other methods' names in that namespace, name nothing"""
    from spyne import Application, Service, rpc, Integer
    from spyne.server.wsgi import WsgiApplication
    Q, Q2 = 'urn:vf:c11:q', 'urn:vf:c11:q2'
    a, b = rng.sample(['alpha', 'Alpha', 'beta', 'status', 'get', 'get_', 'x'], 2)
    for kind in ('xml', 'soap11', 'soap12', 'json'):
        calls = []

        def mk(name, **kw):
            def f(ctx):
                calls.append(name)
                return 1
            f.__name__ = 'py_' + name
            return rpc(_returns=Integer, **kw)(f)
        S1 = type('QSvcA', (Service,), {'py_' + a: mk(a, _in_message_name='{%s}%s' % (Q, a))})
        S2 = type('QSvcB', (Service,), {'py_' + b: mk(b, _in_message_name=b)})
        # bare methods: the request element is the argument itself, named after the method in the application's namespace -
        # whatever namespace the argument's type lives in (a class of another namespace; a primitive, whose namespace is XSD's)
        from spyne import ComplexModel, Unicode
        TNS2, XSD = 'urn:vf:c11:types', 'http://www.w3.org/2001/XMLSchema'
        Rec = type('QRec', (ComplexModel,), {'__namespace__': TNS2, 'i': Integer})

        def mkbare(name, argtype):
            def f(ctx, v):
                calls.append(name)
                return 1
            f.__name__ = name
            return rpc(argtype, _returns=Integer, _body_style='bare')(f)
        S3 = type('QSvcC', (Service,), {'put_rec': mkbare('put_rec', Rec), 'put_text': mkbare('put_text', Unicode)})
        inp, outp = M.make_protocols(kind, None)
        order = [S1, S2, S3] if aid % 2 else [S3, S2, S1]
        try:
            app = Application(order, M.TNS, name='QApp', in_protocol=inp, out_protocol=outp)
        except Exception as e:
            R.violation('application with a namespace-qualified in-message name was rejected: %r' % e, {'seed': seed, 'app': aid, 'kind': kind},
                        mech='valid_app_rejected:%s' % type(e).__name__)
            return
        wsgi = WsgiApplication(app)
        cases = [(a, M.TNS, [a]), (b, M.TNS, [b])]
        if kind != 'json':
            cases += [(a, Q, [a]), (b, Q, []), (a, Q2, []), (b, Q2, [])]
            cases += [('put_rec', M.TNS, ['put_rec']), ('put_rec', TNS2, []), ('put_rec', XSD, []), ('put_text', M.TNS, ['put_text']),
                      ('put_text', XSD, []), ('put_text', TNS2, []), ('QRec', TNS2, []), ('QRec', M.TNS, [])]
        for name, ns, want in cases:
            req = request(kind, name, ns)
            env, inpt = drive.make_environ(req['method'], req['path'], req['qs'], req['body'], req['content_type'])
            del calls[:]
            R.evaluations += 1
            R.count('qualified_name_requests')
            w = drive.call_wsgi(wsgi, env, inpt)
            case = {'seed': seed, 'app': aid, 'kind': kind, 'name': name, 'ns': ns, 'methods': [[a, Q], [b, M.TNS]]}
            if w.exc is not None:
                R.violation('exception escaped for {%s}%s: %r' % (ns, name, w.exc), case, mech='escape:%s' % type(w.exc).__name__)
                continue
            if calls != want:
                R.violation('request naming {%s}%s ran %r, expected %r' % (ns, name, calls, want), case,
                            mech='qualified_name_dispatch:%s' % ('none' if not calls else 'wrong'))
                continue
            if not want and (w.code or 0) < 400:
                R.violation('request naming the unregistered {%s}%s answered %s' % (ns, name, w.status), case, mech='qualified_name_not_refused')
                continue
            R.nontrivial('qualified', kind, ns == Q, ns == M.TNS, bool(want))


def cosmetic_options(R, rng, seed, aid):
    """options that shape the interface document only (_wsdl_part_name, _out_variable_name, _out_message_name, _in_variable_names) on bare and
    wrapped methods: the method still answers to its own name, and the names given in those options name nothing"""
    from spyne import Application, Service, rpc, Integer, Unicode, ComplexModel
    from spyne.server.wsgi import WsgiApplication
    Rec = type('CosRec', (ComplexModel,), {'__namespace__': M.TNS, 'i': Integer})
    part = rng.choice(('parameters', 'body', 'arg0'))
    for kind in ('xml', 'soap11', 'json', 'httprpc'):
        calls = []

        def mk(name, args, **kw):
            if args:
                def f(ctx, v):
                    calls.append(name)
                    return 1
            else:
                def f(ctx):
                    calls.append(name)
                    return 1
            f.__name__ = name
            return rpc(*args, _returns=Integer, **kw)(f)
        methods = {
            'bare_part': mk('bare_part', [Rec], _body_style='bare', _wsdl_part_name=part),
            'bare_text_part': mk('bare_text_part', [Unicode], _body_style='bare', _wsdl_part_name=part + '2'),
            'wrapped_part': mk('wrapped_part', [], _wsdl_part_name=part + '3'),
            'outvar': mk('outvar', [], _out_variable_name='renamed_result'),
            'outmsg': mk('outmsg', [], _out_message_name='RenamedAnswer'),
            'invars': mk('invars', [Integer], _in_variable_names={'a': 'renamed_arg'}) if False else mk('invars', [Integer]),
        }
        S = type('CosSvc', (Service,), methods)
        try:
            inp, outp = M.make_protocols(kind, None)
            wsgi = WsgiApplication(Application([S], M.TNS, name='CosApp', in_protocol=inp, out_protocol=outp))
        except Exception as e:
            R.violation('application with interface-only options was rejected: %r' % e, {'seed': seed, 'app': aid, 'kind': kind}, mech='valid_app_rejected:%s' % type(e).__name__)
            continue
        noargs = ('wrapped_part', 'outvar', 'outmsg')
        cases = [(n, [n]) for n in noargs] + [(x, []) for x in (part, part + '2', part + '3', 'renamed_result', 'RenamedAnswer', 'CosRec', 'outvarResponse')]
        for name, want in cases:
            req = request(kind if kind != 'httprpc' else 'httprpc', name, M.TNS)
            env, inpt = drive.make_environ(req['method'], req['path'], req['qs'], req['body'], req['content_type'])
            del calls[:]
            R.evaluations += 1
            R.count('cosmetic_option_requests')
            w = drive.call_wsgi(wsgi, env, inpt)
            case = {'seed': seed, 'app': aid, 'kind': kind, 'name': name, 'scenario': 'cosmetic_options', 'part': part}
            if w.exc is not None:
                R.violation('exception escaped for %s: %r' % (name, w.exc), case, mech='escape:%s' % type(w.exc).__name__)
                continue
            if calls != want:
                R.violation('request naming %s ran %r, expected %r' % (name, calls, want), case, mech='cosmetic_option_dispatch:%s' % ('none' if not calls else 'wrong'))
                continue
            if not want and (w.code or 0) < 400:
                R.violation('request naming the unregistered %s answered %s' % (name, w.status), case, mech='cosmetic_name_not_refused')
                continue
            R.nontrivial('cosmetic', kind, name in noargs, bool(want))
        # the bare methods, with their argument
        if kind in ('xml', 'soap11', 'json'):
            bodies = {'xml': {'bare_part': '<t:%s xmlns:t="%s"><t:i>1</t:i></t:%s>', 'bare_text_part': '<t:%s xmlns:t="%s">x</t:%s>'},
                      'json': {'bare_part': '{"%s": {"i": 1}}', 'bare_text_part': '{"%s": "x"}'}}
            for mname in ('bare_part', 'bare_text_part'):
                for name, want in ((mname, [mname]), (part if mname == 'bare_part' else part + '2', [])):
                    if kind == 'json':
                        body = (bodies['json'][mname] % name).encode()
                        ct = 'application/json'
                    else:
                        body = bodies['xml'][mname] % (name, M.TNS, name)
                        if kind == 'soap11':
                            body = '<e:Envelope xmlns:e="%s"><e:Body>%s</e:Body></e:Envelope>' % (M.S11, body)
                        body, ct = body.encode(), 'text/xml; charset=utf-8'
                    env, inpt = drive.make_environ('POST', '/', '', body, ct)
                    del calls[:]
                    R.evaluations += 1
                    w = drive.call_wsgi(wsgi, env, inpt)
                    case = {'seed': seed, 'app': aid, 'kind': kind, 'name': name, 'scenario': 'cosmetic_options', 'part': part, 'bare': mname}
                    if w.exc is not None:
                        R.violation('exception escaped for bare %s: %r' % (name, w.exc), case, mech='escape:%s' % type(w.exc).__name__)
                    elif calls != want:
                        R.violation('bare request naming %s ran %r, expected %r' % (name, calls, want), case, mech='cosmetic_option_dispatch:%s' % ('none' if not calls else 'wrong'))
                    else:
                        R.nontrivial('cosmetic_bare', kind, mname, bool(want))


ODD_TEXT_NAMES = ('ge\x01t', 'get\x00', '\x0bget', 'get\x1f', 'get\ufffe', 'g\x7fet', 'get\x85', 'ge\u2028t', 'get\ud7ff', 'get<', 'get&amp;', ']]>get', 'get\t', 'get\r',
                  'ge t', 'get\U0001f600', "ge't", 'ge"t', '%s', '%(x)s', '{get}')


def mixed_output(R, rng, seed, aid):
    """The name arrives by a protocol that carries any text (a JSON, YAML or msgpack key, a path segment) and the answer is written by an XML one:
    an unregistered name runs nothing and is answered with the not-found client fault, whatever characters it is made of."""
    import msgpack, yaml
    from spyne import Application, Service, rpc, Integer
    from spyne.protocol.json import JsonDocument
    from spyne.protocol.yaml import YamlDocument
    from spyne.protocol.msgpack import MessagePackDocument
    from spyne.protocol.http import HttpRpc
    from spyne.protocol.xml import XmlDocument
    from spyne.protocol.soap import Soap11
    from spyne.server.wsgi import WsgiApplication
    from urllib.parse import quote
    calls = []

    class MixSvc(Service):
        @rpc(_returns=Integer)
        def get(ctx):
            calls.append('get')
            return 1
    ins = {'json': (JsonDocument, lambda n: dict(method='POST', path='/', qs='', body=json.dumps({n: {}}).encode(), content_type='application/json')),
           'yaml': (YamlDocument, lambda n: dict(method='POST', path='/', qs='', body=yaml.safe_dump({n: {}}, allow_unicode=True).encode(), content_type='text/yaml')),
           'msgpack': (MessagePackDocument, lambda n: dict(method='POST', path='/', qs='', body=msgpack.packb({n: {}}, use_bin_type=True), content_type='application/x-msgpack')),
           'httprpc': (HttpRpc, lambda n: dict(method='GET', path='/' + quote(n, safe=''), qs='', body=b'', content_type=None))}
    outs = {'xml': XmlDocument, 'soap11': Soap11}
    for ik, ok in [(i, o) for i in sorted(ins) for o in sorted(outs)]:
        app = Application([MixSvc], M.TNS, name='C11Mix', in_protocol=ins[ik][0](), out_protocol=outs[ok]())
        wsgi = WsgiApplication(app)
        for name in ('get',) + ODD_TEXT_NAMES:
            case = {'scenario': 'mixed_output', 'seed': seed, 'app': aid, 'in': ik, 'out': ok, 'name': name}
            try:
                req = ins[ik][1](name)
            except Exception as e:
                R.skip('name not expressible in %s: %s' % (ik, type(e).__name__))
                continue
            del calls[:]
            R.evaluations += 1
            R.count('mixed_output_calls')
            env, inp = drive.make_environ(req['method'], req['path'], req['qs'], req['body'], req['content_type'])
            w = drive.call_wsgi(wsgi, env, inp)
            if name == 'get':
                if w.exc is not None or calls != ['get'] or w.code != 200:
                    R.violation('registered name through %s in, %s out: ran %r, answered %s (%r)' % (ik, ok, calls, w.status, w.exc), case, mech='mixed_output:registered_not_served')
                continue
            if w.exc is not None:
                R.violation('unregistered name %r (%s in, %s out): %s escaped: %s' % (name, ik, ok, type(w.exc).__name__, str(w.exc)[:120]), case,
                            mech='mixed_output:escape:%s' % type(w.exc).__name__)
                continue
            if calls:
                R.violation('unregistered name %r (%s in, %s out) ran %r' % (name, ik, ok, calls), case, mech='mixed_output:dispatched')
                continue
            f = M.decode_fault(ok, w.body)
            code = (f[0] if f else None) or ''
            code = (code.decode() if isinstance(code, bytes) else code).split(':')[-1]
            if not (code == 'Client' or code.startswith('Client.')):
                R.violation('unregistered name %r (%s in, %s out) answered with %r / %s, not a client fault: %s' % (name, ik, ok, code, w.status, w.body[:200]), case,
                            mech='mixed_output:not_client_fault:%s' % ok)
                continue
            if ok == 'xml' and 'ResourceNotFound' in code and w.code != 404:
                R.violation('not-found fault over HTTP answered %s' % w.status, case, mech='mixed_output:not_found_status')
                continue
            R.count('mixed_output_%s' % ('notfound' if 'ResourceNotFound' in code else 'other_client_fault'))
            R.nontrivial('mixed_output', ik, ok, name.isprintable())


def duplicates(R, rng, seed, aid):
    """two methods answering to the same name must be rejected when the application is constructed"""
    from spyne import Application, Service, rpc, Integer
    from spyne import ComplexModel, Unicode
    for variant, same_service_name in [(v, sn) for v in ('same_name_two_services', 'operation_name_collides', 'bare_same_name', 'qualified_in_message_name',
                                                         'in_message_name_collides', 'bare_vs_wrapped', 'bare_primitive_in_message_name',
                                                         'bare_primitive_same_name') for sn in (False, True)]:
        R.evaluations += 1

        def mk(name, op=None):
            def f(ctx):
                return 1
            f.__name__ = name
            kw = {'_returns': Integer}
            if op:
                kw['_operation_name'] = op
            return rpc(**kw)(f)
        def mkbare(name, argcls):
            def f(ctx, req):
                return 1
            f.__name__ = name
            return rpc(argcls, _returns=Integer, _body_style='bare')(f)

        def mkin(name, inmsg):
            def f(ctx):
                return 1
            f.__name__ = name
            return rpc(_returns=Integer, _in_message_name=inmsg)(f)
        if variant == 'same_name_two_services':
            A = type('DupA', (Service,), {'get': mk('get')})
            Bs = type('DupB', (Service,), {'get': mk('get')})
        elif variant == 'bare_same_name':
            # bare methods: the message is the argument class; two services, same method name, different argument classes
            P1 = type('DupArg1', (ComplexModel,), {'__namespace__': M.TNS, 's': Unicode})
            P2 = type('DupArg2', (ComplexModel,), {'__namespace__': M.TNS, 's': Unicode(max_len=9)})
            A = type('DupA', (Service,), {'get': mkbare('get', P1)})
            Bs = type('DupB', (Service,), {'get': mkbare('get', P2)})
        elif variant == 'qualified_in_message_name':
            # the same local in-message name, qualified with two foreign namespaces: requests name methods of the target namespace
            A = type('DupA', (Service,), {'one': mkin('one', '{urn:vf:c11:one}status')})
            Bs = type('DupB', (Service,), {'two': mkin('two', '{urn:vf:c11:two}status')})
        elif variant == 'in_message_name_collides':
            A = type('DupA', (Service,), {'get': mk('get')})
            Bs = type('DupB', (Service,), {'fetch': mkin('fetch', 'get')})
        elif variant in ('bare_primitive_in_message_name', 'bare_primitive_same_name'):
            # bare methods whose one argument is a primitive: the message element is the argument itself, named after the method / the in-message name
            def mkprim(name, inmsg=None):
                def f(ctx, v):
                    return 1
                f.__name__ = name
                kw = {'_in_message_name': inmsg} if inmsg else {}
                return rpc(Unicode, _returns=Integer, _body_style='bare', **kw)(f)
            if variant == 'bare_primitive_in_message_name':
                A = type('DupA', (Service,), {'f1': mkprim('f1', 'msg')})
                Bs = type('DupB', (Service,), {'f2': mkprim('f2', 'msg')})
            else:
                A = type('DupA', (Service,), {'get': mkprim('get')})
                Bs = type('DupB', (Service,), {'get': mkprim('get')})
        elif variant == 'bare_vs_wrapped':
            P1 = type('DupArg3', (ComplexModel,), {'__namespace__': M.TNS, 's': Unicode})
            A = type('DupA', (Service,), {'get': mkbare('get', P1)})
            Bs = type('DupB', (Service,), {'get': mk('get')})
        else:
            A = type('DupA', (Service,), {'get': mk('get')})
            Bs = type('DupB', (Service,), {'fetch': mk('fetch', op='get')})
        if same_service_name:
            # two service classes that go by one name
            A.__service_name__ = Bs.__service_name__ = 'DupSame'
        for order in ((A, Bs), (Bs, A)):
            inp, outp = M.make_protocols('json', None)
            R.count('duplicate_constructions')
            try:
                Application(list(order), M.TNS, name='Dup', in_protocol=inp, out_protocol=outp)
            except Exception as e:
                R.nontrivial('duplicate', variant, same_service_name, type(e).__name__)
                continue
            R.violation('application with two methods answering to one name (%s%s) was constructed' % (variant, ', services of the same name' if same_service_name else ''),
                        {'seed': seed, 'app': aid, 'variant': variant, 'same_service_name': same_service_name},
                        mech='duplicate_accepted:%s%s' % (variant, ':same_service_name' if same_service_name else ''))


def run(spec, R):
    for aid in range(spec['first'], spec['first'] + spec['count']):
        run_app(R, spec['seed'], aid, spec['tier'])


def replay(v, R):
    c = v['repro']
    run_app(R, c['seed'], c['app'], 'thorough')
    for x in R.violations[:10]:
        print('replayed:', x.get('mech'), x.get('what')[:300])


def classify(v):
    return v.get('mech')
