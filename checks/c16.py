"""C16 - inheritance and polymorphism preserve the runtime class.

Generated class trees (depth <= 3, subclasses in their base's namespace), arrays
of the base type holding mixed subclasses; XmlDocument/Soap11/Soap12 and
JSON/YAML/MessagePack(ignore_wrappers=False) with polymorphic on/off, both
directions. Monitors: runtime class/field recorder in user code, reference
decoders on the wire, QName resolver for xsi:type in the transmitted bytes.
"""
import re
import base64

from lxml import etree

from vflib import core, drive, gen, refdict, refxml
from checks import c01

PROP = 'C16'
LEVEL = 'exploration'
RULE = ('generated single-namespace class trees of depth <= 3 with primitive/array members at every level; signatures that declare the '
        'base (plain, wrapped array, repeated member, nested in another object) and receive/return instances of every subclass; x '
        '{XmlDocument, Soap11, Soap12, Json, Yaml, MessagePack} x polymorphic {on, off} x direction {request, response}; every tree of depth 3 is additionally declared in two stages (roots and '
        'children first, used by an application; the deeper classes afterwards) and the grown tree judged the same way; non-trivial = '
        'an instance of a proper subclass travelled and was compared; distinct by (protocol, polymorphic, direction, slot shape, '
        'declared->runtime class distance).'
        ' Also: trees in a namespace other than the application\'s, member-less intermediate classes, msgpack with binary keys, the order and selection of declarations vary (a base may be met first as an array item, repeated or mandatory member), public names differing from attribute names.')
ASSUMPTIONS = [
    'the xsi:type marker must resolve with the namespace declarations in scope in the transmitted bytes (lxml nsmap of the parsed response)',
    'dict documents: ignore_wrappers=False, the wrapper key is the type marker',
    'polymorphic=False: the expected wire content is exactly the declared class\'s members (inherited ones included), the receiver rebuilds the declared class',
]
REQUIRED_COUNTERS = ('subclass_instances_sent', 'responses_decoded', 'requests_delivered', 'xsi_types_resolved')
SHARD_TIMEOUT = {'quick': 900, 'thorough': 3000}
XML_KINDS = ('xml', 'soap11', 'soap12')
DICT_KINDS = ('json', 'yaml', 'msgpack', 'msgpack-bkeys')      # -bkeys: map keys (and so the type marker) as msgpack bin, what spyne itself writes


def shards(tier, seed):
    n = 16 if tier == 'quick' else 48
    per = 2 if tier == 'quick' else 6
    return [{'shard': 'u%d' % i, 'tier': tier, 'seed': seed, 'first': i * per, 'count': per} for i in range(n)]


def universe(seed, uid):
    """class tree + signatures that declare bases"""
    rng = core.rng_for(seed, PROP, 'uni%d' % uid)
    o = gen.Opts(sub_names=True, attrs=False, nested_arrays=0.0, enums=False, seqs=True, facets=False,
                 prims=['Integer', 'Unicode', 'Boolean', 'Date', 'Integer32', 'Double', 'Uuid'])
    ns = 'urn:vf:c16:u%d' % uid
    tns = ns
    if uid % 2:
        ns = ns + ':types'        # the class tree lives in another namespace than the application's
    types = []
    n = rng.randint(3, 6)
    for i in range(n):
        base = None
        if i > 0 and rng.random() < .8:
            cands = [t['name'] for t in types if depth_of(types, t['name']) < 3]
            base = rng.choice(cands) if cands else None
        fields = []
        # some subclasses only inherit; in every fourth universe the first root class has no member of its own either
        for j in range(0 if (i == 0 and uid % 4 == 3) else rng.randint(1, 3) if (base is None or rng.random() > .25) else 0):
            r = rng.random()
            if r < .65:
                ft = gen.rand_prim(rng, o, allow_occ=False)
            elif r < .85:
                ft = {'array': gen.rand_prim(rng, o, allow_occ=False)}
            else:
                ft = {'seq': gen.rand_prim(rng, o, allow_occ=False), 'max': rng.choice((3, 'unbounded'))}
            if rng.random() < .3:
                ft['py'] = 'py_f%d_%d' % (i, j)         # the public name differs from the name of the Python attribute (sub_name)
            fields.append(['f%d_%d' % (i, j), ft])
        # in every third universe some subclasses live in a namespace of their own: one that nothing but their type marker may be using
        types.append({'name': 'K%d' % i, 'ns': (ns + ':ext') if (uid % 3 == 1 and base is not None and rng.random() < .5) else ns, 'base': base, 'fields': fields,
                      'has_xmldata': False})
    # a holder class with members declared as bases
    roots = [t['name'] for t in types if any(x['base'] == t['name'] for x in types)] or [types[0]['name']]
    hb = rng.choice(roots)
    # which declaration of a base the interface comes across first is not always the plain one: an array of it, a repeated or
    # mandatory member of its type are customized variants of the class
    hf = [['one', {'ref': hb}], ['many', {'array': {'ref': hb}}], ['must', {'ref': hb, 'min_occurs': 1}]]
    rng.shuffle(hf)
    types.append({'name': 'Holder', 'ns': ns, 'base': None, 'has_xmldata': False,
                  'fields': hf[:rng.randint(1, 3)] + [['n', {'prim': 'Integer', 'facets': {}}]]})
    methods = []
    for k, b in enumerate(roots[:3]):
        ms = [{'name': 'plain%d' % k, 'args': [['p', {'ref': b}]], 'returns': [{'ref': b}], 'style': 'wrapped'},
              {'name': 'arr%d' % k, 'args': [['p', {'array': {'ref': b}}]], 'returns': [{'array': {'ref': b}}], 'style': 'wrapped'},
              {'name': 'rep%d' % k, 'args': [['p', {'seq': {'ref': b}, 'max': 'unbounded'}]], 'returns': [{'seq': {'ref': b}, 'max': 'unbounded'}],
               'style': 'wrapped'}]
        rng.shuffle(ms)
        methods += ms[:rng.randint(1, 3)]
        if uid % 3 == 1:
            # the object is the message itself: its element is the root of the document
            methods.append({'name': 'bare%d' % k, 'args': [['p', {'ref': b}]], 'returns': [{'ref': b}], 'style': 'bare'})
    methods.append({'name': 'held', 'args': [['h', {'ref': 'Holder'}]], 'returns': [{'ref': 'Holder'}], 'style': 'wrapped'})
    rng.shuffle(methods)
    return {'uid': uid, 'tns': tns, 'types': types, 'services': [{'name': 'Svc', 'methods': methods}]}


def depth_of(types, name):
    d = 1
    tds = {t['name']: t for t in types}
    while tds[name]['base']:
        name = tds[name]['base']
        d += 1
    return d


def make_protocols(kind, poly):
    if kind in XML_KINDS:
        from spyne.protocol.xml import XmlDocument
        from spyne.protocol.soap import Soap11, Soap12
        c = {'xml': XmlDocument, 'soap11': Soap11, 'soap12': Soap12}[kind]
        return c(polymorphic=poly), c(polymorphic=poly)
    from spyne.protocol.json import JsonDocument
    from spyne.protocol.yaml import YamlDocument
    from spyne.protocol.msgpack import MessagePackDocument
    c = {'json': JsonDocument, 'yaml': YamlDocument, 'msgpack': MessagePackDocument, 'msgpack-bkeys': MessagePackDocument}[kind]
    return c(polymorphic=poly, ignore_wrappers=False), c(polymorphic=poly, ignore_wrappers=False)


def bare_subclass_value(ir, t, rng):
    def subs(name):
        out = [x['name'] for x in ir['types'] if x['name'] != name and gen._is_sub(ir, x['name'], name)]
        return out or [name]
    if 'ref' in t:
        if t['ref'] == 'Holder':
            hfields = dict(gen.all_fields(ir, 'Holder'))
            hb = [(ft.get('array') or ft)['ref'] for fn, ft in hfields.items() if fn in ('one', 'many', 'must')][0]
            v = {'__class__': 'Holder'}
            if 'one' in hfields:
                v['one'] = {'__class__': rng.choice(subs(hb))}
            if 'must' in hfields:
                v['must'] = {'__class__': rng.choice(subs(hb))}
            if 'many' in hfields:
                v['many'] = [{'__class__': hb}, {'__class__': rng.choice(subs(hb))}]
            return v
        return {'__class__': rng.choice(subs(t['ref']))}
    inner = t.get('array') or t.get('seq')
    return [{'__class__': inner['ref']}, {'__class__': rng.choice(subs(inner['ref']))}, {'__class__': rng.choice(subs(inner['ref']))}]


def strip_to_declared(ir, t, v):
    """what the declared class alone can carry (polymorphic=False expectation)"""
    if v is None:
        return None
    if 'ref' in t:
        out = {'__class__': t['ref']}
        for fn, ft in gen.all_fields(ir, t['ref']):
            out[fn] = strip_to_declared(ir, ft, v.get(fn))
        return out
    for k in ('array', 'seq'):
        if k in t:
            return [strip_to_declared(ir, t[k], x) for x in v]
    return v


def count_sub(ir, t, v):
    """number of instances whose runtime class is a proper subclass of the declared one"""
    if v is None:
        return 0
    if 'ref' in t:
        n = 1 if v.get('__class__', t['ref']) != t['ref'] else 0
        return n + sum(count_sub(ir, ft, v.get(fn)) for fn, ft in gen.all_fields(ir, v.get('__class__', t['ref'])))
    for k in ('array', 'seq'):
        if k in t:
            return sum(count_sub(ir, t[k], x) for x in v)
    return 0


def check_xsi_types(R, el, wire_schema, case):
    """every xsi:type in the transmitted document resolves, in the document, to a published type"""
    XT = '{%s}type' % refxml.XSI
    for e in el.iter():
        if not isinstance(e.tag, str):
            continue
        xt = e.get(XT)
        if xt is None:
            continue
        p, _, l = xt.rpartition(':')
        ns = e.nsmap.get(p or None)
        if p and ns is None:
            R.violation('xsi:type="%s": prefix %r is not declared in the transmitted document' % (xt, p), case, mech='xsi_type_prefix_unbound')
            return False
        if refxml.Q(ns, l) not in wire_schema.types:
            R.violation('xsi:type="%s" resolves to {%s}%s, which is not a published type' % (xt, ns, l), case, mech='xsi_type_unknown')
            return False
        R.count('xsi_types_resolved')
    return True


def ancestors_first(ir, el_or_doc, cname, kind):
    """member order on the wire = ancestors' fields first (XML element order / JSON key order)"""
    want = [fn for fn, _ in gen.all_fields(ir, cname)]
    if kind in XML_KINDS:
        got = [etree.QName(c).localname for c in el_or_doc if isinstance(c.tag, str)]
    else:
        got = [k.decode() if isinstance(k, bytes) else k for k in el_or_doc.keys()]
    seen = [g for g in got if g in want]
    dedup = []
    for g in seen:
        if not dedup or dedup[-1] != g:
            dedup.append(g)
    order = [w for w in want if w in dedup]
    return dedup == order, dedup, order


def staged(ir):
    """the same class tree declared in two stages: first only the roots and their direct children, later the rest
    (a plug-in module imported after the application has served requests)"""
    late = [t['name'] for t in ir['types'] if t['name'] != 'Holder' and depth_of(ir['types'], t['name']) >= 3]
    if not late:
        return None
    early = dict(ir, types=[t for t in ir['types'] if t['name'] not in late])
    return early, late


def run_universe(R, seed, uid, tier, grow=False):
    from spyne.server import ServerBase
    ir = universe(seed, uid)
    rng = core.rng_for(seed, PROP, 'vals%d%s' % (uid, 'g' if grow else ''))
    kinds = list(XML_KINDS + DICT_KINDS)
    if tier == 'quick':
        kinds = [rng.choice(XML_KINDS), rng.choice(XML_KINDS), rng.choice(DICT_KINDS), 'msgpack-bkeys']
    st = staged(ir) if grow else None
    if grow and st is None:
        return
    if grow:
        kinds = list(DICT_KINDS) + ([rng.choice(XML_KINDS)] if tier == 'quick' else list(XML_KINDS))
    for kind in kinds:
        for poly in ((True,) if grow else (True, False)):
            try:
                if grow:
                    # stage 1: the early classes serve requests; stage 2: the late subclasses are declared and a fresh
                    # application over the grown tree is judged exactly like any other
                    early, late = st
                    B = gen.Built(early)
                    exercise_early(R, B, early, kind, rng)
                    # stage 2 declares nothing but the late classes and plain signatures: declaring an Array or a customised
                    # variant would reset what the library memoised about the tree, and a plug-in need not do that
                    ir = dict(ir, services=[dict(sd, methods=[m for m in sd['methods'] if m['name'].startswith('plain')]) for sd in ir['services']])
                    B.grow(ir)
                    R.count('grown_trees')
                else:
                    B = gen.Built(ir)
                inp, outp = make_protocols(kind, poly)
                app = B.app(inp, outp)
                if kind in XML_KINDS:
                    # a server answers requests before anybody asks it for its interface document: in half of the configurations
                    # the application that serves has built none, and the reference side reads the WSDL of a twin application
                    fresh_server = (not grow) and rng.random() < .5
                    if fresh_server:
                        B2 = gen.Built(ir)
                        inp2, outp2 = make_protocols(kind, poly)
                        w = B2.app(inp2, outp2).interface.docs.wsdl11
                        R.count('servers_without_interface_document')
                    else:
                        w = app.interface.docs.wsdl11
                    w.build_interface_document('http://localhost/')
                    W = refxml.Wire(B, w.get_interface_document(), rng)
                else:
                    codec = refdict.Codec(ir, refdict.Conf(kind.replace('-bkeys', ''), False, 'dict', kind.endswith('-bkeys')))
                server = ServerBase(app)
            except Exception as e:
                R.skip('universe rejected at construction: %s' % type(e).__name__)
                R.count('construction_rejected')
                continue
            for md in ir['services'][0]['methods']:
                if md['style'] == 'bare' and kind not in XML_KINDS:
                    continue        # (a message that is the object itself: in the dict protocols it has no place for the class marker; judged for XML only)
                for k in range(2 if tier == 'quick' else 5):
                    (an, at), = md['args']
                    arg = gen.gen_value(rng, ir, at, top=True, subclass_ok=True)
                    ret = gen.gen_value(rng, ir, md['returns'][0], top=True, subclass_ok=True)
                    if k == 1:
                        # instances of proper subclasses without a single member set (nothing in the element uses the namespace)
                        ret = bare_subclass_value(ir, md['returns'][0], rng)
                        arg = bare_subclass_value(ir, at, rng)
                    case = {'seed': seed, 'uid': uid, 'kind': kind, 'polymorphic': poly, 'method': md['name'], 'call': k, 'grow': grow}
                    nsub_a, nsub_r = count_sub(ir, at, arg), count_sub(ir, md['returns'][0], ret)
                    # request: with polymorphic off a client can only send what the declared class carries
                    send = arg if poly else strip_to_declared(ir, at, arg)
                    try:
                        if kind in XML_KINDS:
                            el = W.request_element(md, [send])
                            data = W.serialize(el if kind == 'xml' else W.envelope(el, 11 if kind == 'soap11' else 12))
                        else:
                            data = codec.dumps(codec.request(md, [send]))
                    except (refxml.NotConformant, refxml.SchemaMismatch, refdict.NotConformant) as e:
                        R.skip('request not expressible: %s' % type(e).__name__)
                        continue
                    B.returns[md['name']] = B.to_spyne(md['returns'][0], ret)
                    B.calls[:] = []
                    R.evaluations += 1
                    r = drive.drive_server(server, data)
                    case['request_b64'] = base64.b64encode(data[:4000]).decode()
                    if r.exc is not None:
                        R.violation('request processing raised %s (%s): %s' % (type(r.exc).__name__, r.exc_stage, str(r.exc)[:150]), case,
                                    mech='escape:%s:%s:%s' % (r.exc_stage, type(r.exc).__name__, drive.innermost_spyne_frame(r.exc)))
                        continue
                    if r.error is not None:
                        R.violation('conformant %s request answered with fault %s: %s' % ('polymorphic' if poly else 'plain', r.error.faultcode, str(r.error.faultstring)[:150]),
                                    case, mech='fault_on_request:%s:%s' % (kind, 'poly' if poly else 'plain'))
                        continue
                    if [c[0] for c in B.calls] != [md['name']]:
                        R.violation('function not entered exactly once', case, mech='invocation_count')
                        continue
                    R.count('requests_delivered')
                    got = B.from_spyne(at, B.calls[0][1][0])
                    d = []
                    if not gen.veq(ir, at, send, got, an, d):
                        R.violation('%s request: user code received %s' % ('polymorphic' if poly else 'plain', '; '.join(d)[:300]), case,
                                    mech='request_class_or_values:%s:%s:%s' % (kind, 'poly' if poly else 'plain', 'class' if any('class' in x for x in d) else 'value'))
                    elif poly and nsub_a:
                        R.count('subclass_instances_sent', nsub_a)
                        R.nontrivial(kind, poly, 'request', gen.shape(at), min(nsub_a, 3), grow)
                    # response
                    expect = ret if poly else strip_to_declared(ir, md['returns'][0], ret)
                    try:
                        if kind in XML_KINDS:
                            if kind == 'xml':
                                rel = etree.fromstring(r.out)
                            else:
                                h, kids = W.open_envelope(r.out, 11 if kind == 'soap11' else 12)
                                rel = kids[0]
                            okx = check_xsi_types(R, rel, W.schema, dict(case, response=r.out[:1500].decode('utf8', 'replace')))
                            if not okx:
                                continue
                            dec = W.decode_response_element(md, rel)
                        else:
                            dec = codec.response(md, codec.loads(r.out))
                    except Exception as e:
                        R.violation('response not decodable: %s: %s' % (type(e).__name__, str(e)[:200]), dict(case, response=repr(r.out[:800])),
                                    mech='response_undecodable:%s:%s:%s' % (kind, 'poly' if poly else 'plain', type(e).__name__))
                        continue
                    R.count('responses_decoded')
                    d = []
                    if not gen.veq(ir, md['returns'][0], expect, dec[0], 'ret', d):
                        R.violation('%s response: decoded %s' % ('polymorphic' if poly else 'plain', '; '.join(d)[:300]), dict(case, response=repr(r.out[:1200])),
                                    mech='response_class_or_values:%s:%s:%s' % (kind, 'poly' if poly else 'plain', 'class' if any('class' in x for x in d) else 'value'))
                    else:
                        if nsub_r and poly:
                            R.count('subclass_instances_sent', nsub_r)
                        R.nontrivial(kind, poly, 'response', gen.shape(md['returns'][0]), min(nsub_r, 3), grow)
                        R.cell('%s|%s' % (kind, 'poly' if poly else 'plain'))
                        if len(R.samples) < 3 and nsub_r and poly:
                            R.sample({'case': {k2: case[k2] for k2 in ('kind', 'polymorphic', 'method')}, 'returned_class': ret.get('__class__') if isinstance(ret, dict) else None,
                                      'response': r.out[:500].decode('utf8', 'replace')})
                    # ancestors first (plain object return)
                    if 'ref' in md['returns'][0] and isinstance(expect, dict) and kind in XML_KINDS:
                        try:
                            attrs, elems, simple = W.schema.content(W.schema.elements[rel.tag][0])
                            inner = [c for c in rel if isinstance(c.tag, str)]
                            if inner:
                                ok, gotord, wantord = ancestors_first(ir, inner[0], expect.get('__class__'), kind)
                                R.count('order_checks')
                                if not ok:
                                    R.violation('members on the wire in order %r, ancestors-first order is %r' % (gotord, wantord), case, mech='ancestors_not_first:%s' % kind)
                        except Exception:
                            pass


def exercise_early(R, B, early, kind, rng):
    """stage 1 of a growing tree: every method of the early application is called once with subclass instances, so that
    whatever the library memoises about the tree is memoised before the tree grows (results are not judged here)"""
    from spyne.server import ServerBase
    inp, outp = make_protocols(kind, True)
    app = B.app(inp, outp)
    if kind in XML_KINDS:
        w = app.interface.docs.wsdl11
        w.build_interface_document('http://localhost/')
        W = refxml.Wire(B, w.get_interface_document(), rng)
    else:
        codec = refdict.Codec(early, refdict.Conf(kind.replace('-bkeys', ''), False, 'dict', kind.endswith('-bkeys')))
    server = ServerBase(app)
    for md in early['services'][0]['methods']:
        (an, at), = md['args']
        arg = gen.gen_value(rng, early, at, top=True, subclass_ok=True)
        try:
            if kind in XML_KINDS:
                el = W.request_element(md, [arg])
                data = W.serialize(el if kind == 'xml' else W.envelope(el, 11 if kind == 'soap11' else 12))
            else:
                data = codec.dumps(codec.request(md, [arg]))
        except (refxml.NotConformant, refxml.SchemaMismatch, refdict.NotConformant):
            continue
        B.returns[md['name']] = B.to_spyne(md['returns'][0], gen.gen_value(rng, early, md['returns'][0], top=True, subclass_ok=True))
        drive.drive_server(server, data)
        R.count('early_stage_calls')


def run(spec, R):
    for uid in range(spec['first'], spec['first'] + spec['count']):
        run_universe(R, spec['seed'], uid, spec['tier'])
        run_universe(R, spec['seed'], uid, spec['tier'], grow=True)


def replay(v, R):
    c = v['repro']
    run_universe(R, c['seed'], c['uid'], 'thorough', grow=bool(c.get('grow')))
    for x in R.violations[:10]:
        print('replayed:', x.get('mech'), x.get('what')[:300])


_MEMBERLESS_FAMILIES = re.compile(r'^(fault_on_request:[a-z0-9-]+:poly|(request|response)_class_or_values:[a-z0-9-]+:poly:class|xsi_type_unknown)$')


def classify(v):
    """mechanism of a violation. One known mechanism is told apart by the universe the case comes from: the class the method declares is a root class
    without members of its own, which spyne does not take for a base class at all (its subclasses do not extend it in the schema, and no type marker
    leads to them)."""
    mech = v.get('mech')
    c = v.get('repro') or {}
    try:
        if mech and _MEMBERLESS_FAMILIES.match(mech) and 'uid' in c and 'method' in c and c.get('polymorphic'):
            ir = universe(c['seed'], c['uid'])
            tds = {t['name']: t for t in ir['types']}
            md = [m for m in ir['services'][0]['methods'] if m['name'] == c['method']][0]
            t = md['args'][0][1]
            t = t.get('array') or t.get('seq') or t
            names = [t['ref']]
            if t['ref'] == 'Holder':
                names = [(ft.get('array') or ft)['ref'] for fn, ft in tds['Holder']['fields'] if fn in ('one', 'many', 'must')]
            def bare_chain(n):
                # no member anywhere from this class up to its root: to spyne it is a root without members
                while n is not None:
                    if tds[n]['fields']:
                        return False
                    n = tds[n]['base']
                return True
            if any(bare_chain(n) for n in names):
                return 'memberless_root_not_a_base'
    except Exception:
        pass
    return mech
