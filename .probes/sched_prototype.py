import logging; logging.disable(logging.CRITICAL)
import warnings; warnings.simplefilter('ignore')
import sys, threading, random, io, hashlib, time, types, itertools
from spyne import Application, rpc, Service, Integer, Unicode, ComplexModel
from spyne.protocol.soap import Soap11
import spyne.server.wsgi as W
import spyne.interface.wsdl.wsdl11 as W11
import spyne.interface.xml_schema._base as XS
import spyne.interface._base as IB
import spyne.protocol._base as PB
import spyne.util.memo as MEMO
import spyne.util.cdict as CD
mon = sys.monitoring; TOOL = 3; mon.use_tool_id(TOOL, 'sched')

class P(ComplexModel):
    __namespace__ = 'urn:x'
    a = Integer; b = Unicode(pa={Soap11: dict(exc=True)})
class S(Service):
    @rpc(P, _returns=P)
    def f(ctx, p): return p

def codes_of(mod):
    out = []
    def walk(co):
        out.append(co)
        for c in co.co_consts:
            if isinstance(c, types.CodeType): walk(c)
    for v in vars(mod).values():
        if isinstance(v, types.FunctionType) and v.__module__ == mod.__name__: walk(v.__code__)
        elif isinstance(v, type) and v.__module__ == mod.__name__:
            for a in vars(v).values():
                f = getattr(a, '__func__', a)
                if isinstance(f, types.FunctionType): walk(f.__code__)
                elif isinstance(a, property) and a.fget: walk(a.fget.__code__)
    return out
CODES = []
for m in (W, W11, XS, IB, PB, MEMO, CD): CODES += codes_of(m)
for c in CODES: mon.set_local_events(TOOL, c, mon.events.LINE)

class Sched:
    """preemption-bounded scheduler. plan: dict step_index -> target thread (preempt BEFORE executing that step of the running thread).
    Only lines executed while >=2 workers are enabled count as steps."""
    def __init__(self, plan, names):
        self.plan = plan; self.cv = threading.Condition(); self.names=names
        self.current=None; self.state={n:'new' for n in names}  # new|ready|blocked|done
        self.step=0; self.locs=[]; self.sig=[]; self.nolock=False; self.occ={}
    def enabled(self):
        return [n for n in self.names if self.state[n] in ('ready',) ]
    # called by worker when it starts
    def start(self, me):
        with self.cv:
            self.state[me]='ready'; self.cv.notify_all()
            while self.current != me: self.cv.wait()
    def on_line(self, code, line):
        me = threading.current_thread().name
        if self.current != me or me not in self.state: return
        if sum(1 for n in self.names if self.state[n]=='ready') < 2: return   # fast path
        self.step += 1
        loc=(code.co_name, line)
        n = self.occ[loc] = self.occ.get(loc, 0) + 1
        self.locs.append((loc, n))
        tgt = self.plan.get((loc, n))
        if tgt is not None and tgt != me and self.state.get(tgt)=='ready':
            self.switch(me, tgt, 'ready')
    def switch(self, me, tgt, mystate):
        with self.cv:
            self.state[me]=mystate
            self.sig.append((me, tgt, self.step))
            self.current = tgt; self.cv.notify_all()
            if mystate == 'done': return
            while self.current != me: self.cv.wait()
            self.state[me]='ready'
    def yield_any(self, me, mystate):
        # pick lowest-named ready thread other than me
        with self.cv:
            cands=[n for n in self.names if n!=me and self.state[n]=='ready']
            if not cands:
                # maybe blocked threads can now proceed
                cands=[n for n in self.names if n!=me and self.state[n]=='blocked']
            if not cands:
                self.state[me]=mystate; self.current=None; self.cv.notify_all(); return False
        self.switch(me, cands[0], mystate); return True
    def finish(self, me):
        with self.cv:
            self.state[me]='done'
            cands=[n for n in self.names if self.state[n] in ('ready','blocked')]
            self.current = cands[0] if cands else None
            self.cv.notify_all()
class SLock:
    def __init__(self, s): self.s=s; self.owner=None
    def acquire(self, *a, **k):
        me=threading.current_thread().name
        if me not in self.s.state: self.owner=me; return True
        while self.owner is not None:
            self.s.yield_any(me, 'blocked')
        self.owner=me; return True
    def release(self):
        self.owner=None
        for n in self.s.names:
            if self.s.state[n]=='blocked': self.s.state[n]='ready'
class NoLock(SLock):
    def acquire(self,*a,**k): return True
    def release(self): pass

def mkenv(kind):
    if kind=='wsdl':
        return {'REQUEST_METHOD': 'GET', 'PATH_INFO': '/', 'QUERY_STRING': 'wsdl', 'SERVER_NAME': 'x','SERVER_PORT': '80', 'wsgi.url_scheme': 'http', 'wsgi.input': io.BytesIO(b'')}
    body = ('<soap11env:Envelope xmlns:soap11env="http://schemas.xmlsoap.org/soap/envelope/" xmlns:tns="urn:x"><soap11env:Body><tns:f><tns:p><tns:a>%d</tns:a><tns:b>%s</tns:b></tns:p></tns:f></soap11env:Body></soap11env:Envelope>' % (kind, 'v%d'%kind)).encode()
    return {'REQUEST_METHOD': 'POST', 'PATH_INFO': '/', 'QUERY_STRING': '', 'SERVER_NAME': 'x','SERVER_PORT': '80', 'wsgi.url_scheme': 'http', 'wsgi.input': io.BytesIO(body), 'CONTENT_LENGTH': str(len(body)), 'CONTENT_TYPE':'text/xml'}

def run(plan, kinds, nolock=False):
    names=['w%d'%i for i in range(len(kinds))]
    s = Sched(plan, names)
    W.threading = types.SimpleNamespace(Lock=(lambda: NoLock(s)) if nolock else (lambda: SLock(s)))
    app = Application([S], 'urn:x', name='App', in_protocol=Soap11(), out_protocol=Soap11())
    w = W.WsgiApplication(app)
    builds={'n':0}; orig=w.doc.wsdl11.build_interface_document
    def counted(url): builds['n']+=1; return orig(url)
    w.doc.wsdl11.build_interface_document=counted
    mon.register_callback(TOOL, mon.events.LINE, s.on_line)
    res={}
    def worker(name, kind):
        s.start(name)
        try:
            out={}
            def sr(st,h,e=None): out['s']=st
            body=b''.join(w(mkenv(kind), sr)); res[name]=(out['s'], hashlib.sha1(body).hexdigest()[:8], len(body))
        except BaseException as e:
            res[name]=('EXC', type(e).__name__, str(e)[:60])
        finally:
            s.finish(name)
    ths=[threading.Thread(target=worker,args=(n,k),name=n) for n,k in zip(names,kinds)]
    for t in ths: t.start()
    with s.cv:
        while any(v=='new' for v in s.state.values()): s.cv.wait()
        s.current='w0'; s.cv.notify_all()
    for t in ths: t.join(20)
    return builds['n'], res, s


import collections
kinds=[1,2]
run({}, kinds)  # warm-up: fill process-global caches
b,res,s0=run({}, kinds); BASE=sorted(res.values())
b,res,s1=run({}, kinds)
print('recording deterministic:', s0.locs == s1.locs, len(s0.locs))
occ=collections.Counter(l for l,n in s0.locs)
cands=[(l,n) for (l,n) in s0.locs if occ[l] <= 64]
t0=time.time(); bad=[]
for c in cands:
    b,res,s2=run({c:'w1'}, kinds)
    if sorted(res.values()) != BASE: bad.append((c, res))
print('schedules', len(cands), round(time.time()-t0,2),'s', 'deviating', len(bad))
for c,r in bad[:6]: print('   preempt at', c, r)
