import logging; logging.disable(logging.CRITICAL)
import warnings; warnings.simplefilter('ignore')
from spyne import Application, rpc, Service, Integer, Unicode, ComplexModel, Array, XmlAttribute, XmlData, Date, Decimal, Mandatory
from spyne.protocol.xml import XmlDocument
from spyne.server import ServerBase
from spyne import MethodContext
from lxml import etree
class Base(ComplexModel):
    __namespace__='urn:a'
    i = Integer
class Item(Base):
    __namespace__='urn:b'
    s = Unicode(max_len=3)
    at = XmlAttribute(Integer)
class Money(ComplexModel):
    __namespace__='urn:b'
    cur = XmlAttribute(Unicode)
    amount = XmlData(Decimal)
class Cont(ComplexModel):
    __namespace__='urn:c'
    items = Array(Item)
    flat = Item.customize(max_occurs='unbounded')
    nums = Array(Integer(ge=0))
    ds = Date(max_occurs=3)
    m = Money
got = []
class S(Service):
    @rpc(Cont, Integer(ge=1), _returns=Cont)
    def f(ctx, c, n): got.append((c, n)); return c
    @rpc(Cont, _returns=Cont, _body_style='bare')
    def g(ctx, c): got.append(c); return c
app = Application([S], 'urn:x', in_protocol=XmlDocument(validator='lxml'), out_protocol=XmlDocument())
app.interface.docs.wsdl11.build_interface_document('http://x/')
for pref, node in app.interface.docs.wsdl11.schema_dict.items():
    pass
    pass
srv = ServerBase(app)
def run(body):
    ctx = MethodContext(srv, MethodContext.SERVER); ctx.in_string=[body]; got.clear()
    c = srv.generate_contexts(ctx)[0]
    if c.in_error: return 'ERR', c.in_error.faultcode, c.in_error.faultstring
    srv.get_in_object(c)
    if c.in_error: return 'ERR', c.in_error.faultcode, c.in_error.faultstring
    srv.get_out_object(c); srv.get_out_string(c)
    return b''.join(c.out_string).decode(), got
req = b'''<x:f xmlns:x="urn:x" xmlns:a="urn:a" xmlns:b="urn:b" xmlns:c="urn:c">
<x:c>
 <c:items><b:Item at="4"><a:i>1</a:i><b:s>ab</b:s></b:Item></c:items>
 <c:flat at="5"><a:i>2</a:i><b:s>cd</b:s></c:flat>
 <c:flat><a:i>3</a:i></c:flat>
 <c:nums><c:Cont_numsType>7</c:Cont_numsType></c:nums>
 <c:ds>2020-01-01</c:ds><c:ds>2020-01-02</c:ds>
 <c:m cur="EUR">12.50</c:m>
</x:c>
<x:n>2</x:n></x:f>'''
print(run(req))
print(run(req.replace(b'x:f', b'x:g').replace(b'<x:c>', b'').replace(b'</x:c>', b'').replace(b'<x:n>2</x:n>', b'')))
