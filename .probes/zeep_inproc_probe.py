import logging; logging.disable(logging.CRITICAL)
import warnings; warnings.simplefilter('ignore')
import sys, io, datetime, decimal, uuid
from spyne import Application, rpc, Service, Integer, Unicode, DateTime, Date, Time, Duration, Decimal, Double, Boolean, ByteArray, Uuid, ComplexModel, Array, XmlAttribute, XmlData, Int, UnsignedByte, AnyUri
from spyne.model.enum import Enum
from spyne.protocol.soap import Soap11
from spyne.server.wsgi import WsgiApplication
import pytz
E = Enum('A','B', type_name='E')
class H(ComplexModel):
    __namespace__='urn:x'
    tok = Unicode
class Q(ComplexModel):
    __namespace__='urn:q'
    i = Integer; s = Unicode(max_len=5); d = Date; dt = DateTime; t = Time; du = Duration
    de = Decimal; f = Double; b = Boolean; ba = ByteArray; u = Uuid; e = E
    arr = Array(Integer); un = Unicode(max_occurs='unbounded'); ub = UnsignedByte
    at = XmlAttribute(Integer)
got = {}
class S(Service):
    __in_header__ = H
    __out_header__ = H
    @rpc(Q, Integer, _returns=(Q, Integer), _out_variable_names=('q', 'n'))
    def f(ctx, q, n):
        got['q'] = q; got['n'] = n; got['h'] = ctx.in_header
        ctx.out_header = H(tok='out')
        return q, n
    @rpc(Integer(max_occurs='unbounded'), _returns=Integer(max_occurs='unbounded'))
    def g(ctx, xs):
        got['xs'] = xs; return xs
    @rpc(Q, _returns=Q, _body_style='bare')
    def h(ctx, q):
        got['bq'] = q; return q
app = Application([S], 'urn:x', in_protocol=Soap11(validator='lxml'), out_protocol=Soap11())
w = WsgiApplication(app)
def call(body, method='POST', qs='', ctype='text/xml'):
    env = {'REQUEST_METHOD': method, 'PATH_INFO': '/', 'QUERY_STRING': qs, 'SERVER_NAME': 'x','SERVER_PORT': '80', 'wsgi.url_scheme': 'http', 'wsgi.input': io.BytesIO(body),'CONTENT_LENGTH': str(len(body)), 'CONTENT_TYPE': ctype}
    out = {}
    def sr(s, h, e=None): out['s']=s; out['h']=h
    out['b'] = b''.join(w(env, sr)); return out
wsdl = call(b'', 'GET', 'wsdl')['b']
import zeep
from zeep.transports import Transport
last = {}
class T(Transport):
    def load(self, url): return wsdl
    def post(self, address, message, headers):
        last['req'] = message
        r = call(message, ctype=headers.get('Content-Type'))
        last['resp'] = r['b']
        class R: pass
        x = R(); x.status_code = int(r['s'].split()[0]); x.content = r['b']; x.headers = dict(r['h']); x.encoding='utf-8'
        return x
c = zeep.Client('http://x/?wsdl', transport=T())
tz = pytz.FixedOffset(-289)
q = dict(i=2**70, s='abc', d=datetime.date(2020,1,2), dt=datetime.datetime(2020,1,2,3,4,5,6, tzinfo=tz), t=datetime.time(3,4,5,7), du=datetime.timedelta(days=1, seconds=5, microseconds=5),
         de=decimal.Decimal('1.50'), f=1.5, b=True, ba=b'\x00\x01\x02', u=str(uuid.UUID(int=5)), e='A', arr={'integer': [1,2]}, un=['x','y'], ub=7, at=9)
try:
    r = c.service.f(q=q, n=5, _soapheaders={'H': {'tok': 'in'}})
    print('zeep result type', type(r).__name__)
    print(r)
    print('server got', got)
except Exception as e:
    print('ERR', type(e).__name__, e); print(last.get('req', b'')[:1500]); print(last.get('resp', b'')[:800])
try:
    print('g ->', c.service.g(xs=[1,2,3]), got.get('xs'))
    print('g [] ->', c.service.g(xs=[]), got.get('xs'))
except Exception as e: print('ERR g', e)
try:
    print('h ->', c.service.h(i=1, s='z'), got.get('bq'))
except Exception as e: print('ERR h', type(e).__name__, e)
