# throw-away feasibility probe: schema-driven XML instance encoder/decoder
import logging; logging.disable(logging.CRITICAL)
import warnings; warnings.simplefilter('ignore')
import datetime, decimal
from lxml import etree
XS='http://www.w3.org/2001/XMLSchema'; XSI='http://www.w3.org/2001/XMLSchema-instance'
Q=lambda ns,n: '{%s}%s'%(ns,n)
class Schema:
    def __init__(self, schema_nodes):
        self.types={}; self.elements={}
        for node in schema_nodes:
            tns=node.get('targetNamespace')
            for c in node:
                if not isinstance(c.tag,str): continue
                ln=etree.QName(c).localname
                if ln in ('complexType','simpleType'): self.types[Q(tns,c.get('name'))]=(ln,c,tns)
                elif ln=='element': self.elements[Q(tns,c.get('name'))]=(self.qn(c,c.get('type')),tns)
    def qn(self, node, val):
        if val is None: return None
        p,_,l=val.rpartition(':')
        return Q(node.nsmap.get(p or None), l)
    def base_builtin(self, tq):
        while not tq.startswith('{%s}'%XS):
            kind,node,tns=self.types[tq]
            r=node.find('{%s}restriction'%XS)
            tq=self.qn(r, r.get('base'))
        return tq.split('}')[1]
    def content(self, tq):
        """returns (attrs, elems, simple_base) for complex type incl. inherited"""
        kind,node,tns=self.types[tq]
        attrs=[]; elems=[]; simple=None
        cc=node.find('{%s}complexContent'%XS); sc=node.find('{%s}simpleContent'%XS)
        holder=node
        if cc is not None:
            ext=cc.find('{%s}extension'%XS); b=self.qn(ext, ext.get('base'))
            a,e,s=self.content(b); attrs+=a; elems+=e; holder=ext
        if sc is not None:
            ext=sc.find('{%s}extension'%XS); simple=self.qn(ext, ext.get('base')); holder=ext
        seq=holder.find('{%s}sequence'%XS)
        if seq is not None:
            for el in seq:
                if etree.QName(el).localname=='element':
                    mx=el.get('maxOccurs','1')
                    elems.append(dict(name=el.get('name'), ns=tns, type=self.qn(el, el.get('type')), min=int(el.get('minOccurs','1')), max=(10**9 if mx=='unbounded' else int(mx)), nillable=el.get('nillable')=='true'))
        for at in holder.findall('{%s}attribute'%XS):
            attrs.append(dict(name=at.get('name'), type=self.qn(at, at.get('type'))))
        return attrs, elems, simple
def lex(builtin, v):
    if builtin in ('integer','int','long','short','byte','nonNegativeInteger','unsignedByte'): return str(int(v))
    if builtin=='decimal': return format(v,'f')
    if builtin=='string': return v
    if builtin=='date': return v.isoformat()
    if builtin=='boolean': return 'true' if v else 'false'
    raise NotImplementedError(builtin)
def unlex(builtin, t):
    if builtin in ('integer','int','long','short','byte','nonNegativeInteger','unsignedByte'): return int(t)
    if builtin=='decimal': return decimal.Decimal(t)
    if builtin=='string': return t or ''
    if builtin=='date': return datetime.date.fromisoformat(t)
    if builtin=='boolean': return t in ('true','1')
    raise NotImplementedError(builtin)
def enc(S, parent, ns, name, tq, v):
    el=etree.SubElement(parent, Q(ns,name))
    if v is None: el.set(Q(XSI,'nil'),'true'); return el
    if tq.startswith('{%s}'%XS) or S.types[tq][0]=='simpleType':
        el.text=lex(S.base_builtin(tq), v); return el
    attrs,elems,simple=S.content(tq)
    if len(elems)==1 and elems[0]['max']>1 and isinstance(v,list):   # wrapped array type
        e=elems[0]
        for item in v: enc(S, el, e['ns'], e['name'], e['type'], item)
        return el
    for a in attrs:
        if v.get(a['name']) is not None: el.set(a['name'], lex(S.base_builtin(a['type']), v[a['name']]))
    if simple is not None:
        el.text=lex(S.base_builtin(simple), v['_data']); return el
    for e in elems:
        if e['name'] not in v: continue
        x=v[e['name']]
        if e['max']>1 and isinstance(x,list) and not (not x):
            # unwrapped sequence vs wrapped array field: decide by element type shape
            pass
        if e['max']>1:
            for item in (x or []): enc(S, el, e['ns'], e['name'], e['type'], item)
        else:
            if x is None and e['min']==0: continue
            enc(S, el, e['ns'], e['name'], e['type'], x)
    return el
def dec(S, el, tq):
    if el.get(Q(XSI,'nil')) in ('true','1'): return None
    if tq.startswith('{%s}'%XS) or S.types[tq][0]=='simpleType':
        return unlex(S.base_builtin(tq), el.text)
    attrs,elems,simple=S.content(tq)
    if len(elems)==1 and elems[0]['max']>1 and not attrs and simple is None:
        return [dec(S,c,elems[0]['type']) for c in el]
    out={}
    for a in attrs:
        if el.get(a['name']) is not None: out[a['name']]=unlex(S.base_builtin(a['type']), el.get(a['name']))
    if simple is not None:
        out['_data']=unlex(S.base_builtin(simple), el.text); return out
    for e in elems:
        cs=el.findall(Q(e['ns'],e['name']))
        if e['max']>1:
            if cs: out[e['name']]=[dec(S,c,e['type']) for c in cs]
        elif cs: out[e['name']]=dec(S,cs[0],e['type'])
    return out
if __name__=='__main__':
    src=open('/tmp/probe/p17.py').read().split("srv = ServerBase(app)")[0].replace("print('=====', pref, node.get('targetNamespace'))","pass").replace("print(etree.tostring(node, pretty_print=True).decode())","pass")
    exec(src)
    from spyne.server import ServerBase
    from spyne import MethodContext
    S_=Schema(app.interface.docs.wsdl11.schema_dict.values())
    val={'c': {'items': [{'at': 4, 'i': 1, 's': 'ab'}], 'flat': [{'at': 5, 'i': 2, 's': 'cd'}, {'i': 3}], 'nums': [7, 8], 'ds': [datetime.date(2020,1,1)], 'm': {'cur': 'EUR', '_data': decimal.Decimal('12.50')}}, 'n': 2}
    etq, ens = S_.elements[Q('urn:x','f')]
    root=etree.Element('dummy'); req=enc(S_, root, 'urn:x', 'f', etq, val)
    body=etree.tostring(req)
    print(body.decode())
    srv=ServerBase(app)
    ctx=MethodContext(srv, MethodContext.SERVER); ctx.in_string=[body]; got.clear()
    c=srv.generate_contexts(ctx)[0]
    print('in_error', c.in_error)
    srv.get_in_object(c); print('in_error', c.in_error); srv.get_out_object(c); srv.get_out_string(c)
    resp=b''.join(c.out_string)
    print(got)
    r=etree.fromstring(resp)
    rtq,_=S_.elements[r.tag]
    print(dec(S_, r, rtq))
    print('round-trip equal:', dec(S_, r, rtq)=={'fResult': val['c']})
