import logging; logging.disable(logging.CRITICAL)
import warnings; warnings.simplefilter('ignore')
import sys, random, json, traceback, io, datetime, decimal, uuid
from spyne import Application, rpc, Service, Integer, Unicode, Fault, ComplexModel, Array, Date, DateTime, Time, Duration, Decimal, Double, Boolean, ByteArray, Uuid, Int, UnsignedByte, AnyUri
from spyne.model.enum import Enum
from spyne.protocol.json import JsonDocument
from spyne.protocol.yaml import YamlDocument
from spyne.protocol.msgpack import MessagePackDocument, MessagePackRpc
from spyne.protocol.xml import XmlDocument
from spyne.protocol.soap import Soap11, Soap12
from spyne.server import ServerBase
from spyne import MethodContext
import msgpack, yaml
E = Enum('A','B', type_name='E')
class Q(ComplexModel):
    __namespace__='urn:x'
    i = Integer; s = Unicode(max_len=5); d = Date; dt = DateTime; t = Time; du = Duration
    de = Decimal; f = Double; b = Boolean; ba = ByteArray; u = Uuid; e = E
    arr = Array(Integer); un = Unicode(max_occurs='unbounded'); ub = UnsignedByte
class P(ComplexModel):
    __namespace__='urn:x'
    q = Q; qs = Array(Q); n = Int
ran = []
class S(Service):
    @rpc(P, Q, Integer, _returns=P)
    def f(ctx, p, q, n): ran.append(1); return p
def qd(): return {'i': 5, 's': 'abc', 'd': '2020-01-02', 'dt': '2020-01-02T03:04:05Z', 't': '03:04:05', 'du': 'PT5S', 'de': '1.5', 'f': 1.5, 'b': True, 'ba': 'AAEC', 'u': str(uuid.UUID(int=5)), 'e': 'A', 'arr': [1,2], 'un': ['x','y'], 'ub': 7}
valid = {'f': {'p': {'q': qd(), 'qs': [qd()], 'n': 3}, 'q': qd(), 'n': 9}}
def xml_of(d, tag='f'):
    def enc(k, v):
        if isinstance(v, dict): return '<%s>%s</%s>' % (k, ''.join(enc(a,b) for a,b in v.items()), k)
        if isinstance(v, list):
            if k in ('arr',): return '<arr>%s</arr>' % ''.join('<integer>%s</integer>'%x for x in v)
            if k == 'qs': return '<qs>%s</qs>' % ''.join(enc('Q', x) for x in v)
            return ''.join(enc(k, x) for x in v)
        if isinstance(v, bool): v = 'true' if v else 'false'
        return '<%s>%s</%s>' % (k, v, k)
    return ('<f xmlns="urn:x">%s</f>' % ''.join(enc(k,v) for k,v in d['f'].items())).encode()
HOSTILE = ['', ' ', 'x', '-', '13', '2020-13-01', '2020-02-30', '25:00:00', '1e999', 'NaN', '--1', '1.2.3', '\x00', 'A'*3000, '=', 'AAE', 'P', 'PT', '-P', '0x10', '١٢', 'true', '[]', '{}', 'null', '2020-01-01T00:00:00+99:99', '00000000-0000-0000-0000-00000000000', '99999999999999999999999999999', '-0', '+5', '5.', '.5', 'é', '\ud800']
HOSTILE_OBJ = [None, [], {}, [1], {'a': 1}, 1, 1.5, True, 'x', [[1]], [None], {'f': None}, 10**30, -1]
def mut_doc(rng, d):
    d = json.loads(json.dumps(d))
    # walk to random node
    path = []
    def nodes(x, p):
        yield p
        if isinstance(x, dict):
            for k in x: yield from nodes(x[k], p+[k])
        elif isinstance(x, list):
            for i in range(len(x)): yield from nodes(x[i], p+[i])
    ps = list(nodes(d, []))
    for _ in range(rng.choice([1,1,2])):
        p = rng.choice(ps[1:])
        x = d
        try:
            for k in p[:-1]: x = x[k]
            op = rng.choice(['hs','ho','del','dup','ren'])
            if op == 'hs': x[p[-1]] = rng.choice(HOSTILE)
            elif op == 'ho': x[p[-1]] = rng.choice(HOSTILE_OBJ)
            elif op == 'del': del x[p[-1]]
            elif op == 'dup' and isinstance(x, list): x.append(x[p[-1]])
            elif op == 'ren' and isinstance(x, dict): x[rng.choice(['zz','f','q','Q',''])] = x.pop(p[-1])
        except Exception: pass
    return d
def drive(prot_in, body):
    app = Application([S], 'urn:x', name='A', in_protocol=prot_in, out_protocol=XmlDocument())
    srv = ServerBase(app); ctx = MethodContext(srv, MethodContext.SERVER); ctx.in_string=[body]
    ran.clear()
    try:
        c = srv.generate_contexts(ctx)[0]
        if c.in_error: return ('fault', c.in_error.faultcode)
        srv.get_in_object(c)
        if c.in_error: return ('fault', c.in_error.faultcode)
        srv.get_out_object(c)
        if c.out_error: return ('fault', c.out_error.faultcode)
        srv.get_out_string(c); b''.join(c.out_string)
        return ('ok',)
    except Exception as e:
        tb = traceback.extract_tb(e.__traceback__)
        fr = [f for f in tb if '/repo/spyne/' in f.filename]
        site = (fr[-1].filename.replace('/repo/',''), fr[-1].name) if fr else ('?', '?')
        return ('CRASH', type(e).__name__, site)
rng = random.Random(1)
import collections
sites = collections.defaultdict(collections.Counter)
N = int(sys.argv[1])
for i in range(N):
    d = mut_doc(rng, valid)
    cases = []
    try: cases.append(('json', JsonDocument(validator=rng.choice([None,'soft'])), json.dumps(d).encode()))
    except Exception: pass
    try: cases.append(('yaml', YamlDocument(validator=rng.choice([None,'soft'])), yaml.safe_dump(d).encode()))
    except Exception: pass
    try: cases.append(('msgpack', MessagePackDocument(validator=rng.choice([None,'soft'])), msgpack.packb(d)))
    except Exception: pass
    try:
        if isinstance(d.get('f'), dict):
            x = xml_of(d)
            cases.append(('xml', XmlDocument(validator=rng.choice([None,'soft','lxml'])), x))
            cases.append(('soap', Soap11(validator=rng.choice([None,'soft','lxml'])), b'<e:Envelope xmlns:e="http://schemas.xmlsoap.org/soap/envelope/"><e:Body>'+x+b'</e:Body></e:Envelope>'))
    except Exception: pass
    for name, p, body in cases:
        r = drive(p, body)
        if r[0] == 'CRASH': sites[name][(r[1], r[2])] += 1
        elif r[0] == 'fault' and not r[1].startswith('Client'): sites[name][('SERVERFAULT', r[1])] += 1
    # truncations
    if i % 50 == 0:
        for name, p, body in cases:
            for cut in range(0, len(body), 7):
                r = drive(type(p)(), body[:cut])
                if r[0] == 'CRASH': sites[name+'-trunc'][(r[1], r[2])] += 1
tot = set()
for name, c in sites.items():
    print(name, len(c))
    for k, v in c.most_common(40): print('    ', v, k); tot.add(k)
print('distinct sites overall', len(tot))
