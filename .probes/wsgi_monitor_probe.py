import logging; logging.disable(logging.CRITICAL)
import warnings; warnings.simplefilter('ignore')
from spyne import Application, rpc, Service, Integer, Unicode, Fault, Iterable
from spyne.protocol.json import JsonDocument
from spyne.protocol.soap import Soap11
from spyne.protocol.http import HttpRpc
from spyne.server.wsgi import WsgiApplication
from wsgiref.validate import validator
import io, json, sys

class CountingInput(io.BytesIO):
    nread = 0
    def read(self, n=-1):
        d = super().read(n); self.nread += len(d); return d

def mk(inp, outp, **kw):
    class S(Service):
        @rpc(Integer, _returns=Integer)
        def f(ctx, n):
            return n
        @rpc(Integer, _returns=Iterable(Integer))
        def g(ctx, n):
            for i in range(n): yield i
    app = Application([S], 'urn:x', name='A%d'%id(kw), in_protocol=inp, out_protocol=outp)
    return WsgiApplication(app, **kw)

def call(wsgi, body, cl='auto', method='POST', qs='', ctype='application/json', validate=True):
    inp = CountingInput(body)
    env = {'REQUEST_METHOD': method, 'PATH_INFO': '/', 'QUERY_STRING': qs, 'SERVER_NAME': 'localhost',
           'SERVER_PORT': '80', 'wsgi.url_scheme': 'http', 'wsgi.input': inp, 'SCRIPT_NAME': '',
           'CONTENT_TYPE': ctype, 'wsgi.version': (1,0), 'wsgi.errors': sys.stderr, 'wsgi.multithread': True, 'wsgi.multiprocess': False, 'wsgi.run_once': False, 'SERVER_PROTOCOL': 'HTTP/1.1'}
    if cl == 'auto': env['CONTENT_LENGTH'] = str(len(body))
    elif cl is not None: env['CONTENT_LENGTH'] = cl
    out = {'n': 0}
    def sr(status, headers, exc_info=None):
        out['n'] += 1; out['status'] = status; out['headers'] = headers
        return lambda b: None
    app = validator(wsgi) if validate else wsgi
    try:
        ret = app(env, sr)
        chunks = [c for c in ret]
        if hasattr(ret, 'close'): ret.close()
        return out.get('status'), out['n'], dict(out.get('headers', [])).get('Content-Length'), sum(map(len, chunks)), inp.nread
    except Exception as e:
        return 'EXC', type(e).__name__, str(e)[:200]

for chunked in (True, False):
    w = mk(JsonDocument(), JsonDocument(), chunked=chunked, max_content_length=64, block_length=16)
    print('chunked', chunked)
    print(' ok     ', call(w, b'{"f": {"n": 1}}'))
    print(' gen    ', call(w, b'{"g": {"n": 3}}'))
    print(' toolong', call(w, b'{"f": {"n": 1}}' + b' '*100))
    print(' nocl   ', call(w, b'{"f": {"n": 1}}' + b' '*100, cl=None))
    print(' emptycl', call(w, b'{"f": {"n": 1}}', cl=''))
    print(' smallcl', call(w, b'{"f": {"n": 1}}', cl='5'))
    print(' bigcl  ', call(w, b'{"f": {"n": 1}}', cl='60'))
    print(' wsdl   ', call(w, b'', method='GET', qs='wsdl', cl=None))
    print(' novalid', call(w, b'{"f": {"n": 1}}', validate=False))
