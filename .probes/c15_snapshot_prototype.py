import logging; logging.disable(logging.CRITICAL)
import warnings; warnings.simplefilter('ignore')
import decimal, datetime, inspect, random
from spyne import Integer, Unicode, ComplexModel, Array, Mandatory, Decimal, Date, Iterable, Boolean
from spyne.model import ModelBase
def norm(v, ids):
    if isinstance(v, (int, float, str, bytes, bool, type(None), decimal.Decimal, datetime.date, datetime.time)): return repr(v)
    if inspect.isclass(v): return 'cls#%d' % ids.setdefault(id(v), len(ids))
    if isinstance(v, (list, tuple)): return [norm(x, ids) for x in v]
    if isinstance(v, (set, frozenset)): return sorted(norm(x, ids) for x in v)
    if isinstance(v, dict): return sorted((norm(k, ids), norm(x, ids)) for k, x in v.items())
    if callable(v): return 'fn:' + getattr(v, '__qualname__', type(v).__name__)
    return 'obj:' + type(v).__name__
PROBES = {'str': [None, '', 'a', 'abc', 'abcd', 'x'*50, '12'], 'num': [None, -1, 0, 1, 5, 10, 255, 256, 10**12]}
def snapshot(m, ids):
    A = m.Attributes
    names = sorted(set(n for n in dir(A) if not n.startswith('_')) | {'nullable', 'nillable', 'default_factory'})
    attrs = {}
    for n in names:
        try: attrs[n] = norm(getattr(A, n), ids)
        except Exception as e: attrs[n] = 'ERR:' + type(e).__name__
    ti = getattr(m, '_type_info', None)
    fields = [(k, norm(v, ids)) for k, v in ti.items()] if ti is not None else None
    flat = None
    if ti is not None and hasattr(m, 'get_flat_type_info'):
        flat = [(k, norm(v, ids)) for k, v in m.get_flat_type_info(m).items()]
    verd = []
    for kind, vals in PROBES.items():
        for v in vals:
            for fn in ('validate_string', 'validate_native'):
                try: verd.append(bool(getattr(m, fn)(m, v)))
                except Exception as e: verd.append('E:' + type(e).__name__)
    return dict(attrs=attrs, fields=fields, flat=flat, verd=verd, tn=norm(m.__type_name__, ids), ns=norm(m.__namespace__, ids), ext=norm(m.__extends__, ids), orig=norm(m.__orig__, ids))
class C(ComplexModel):
    a = Integer; b = Unicode
class D(ComplexModel):
    c = C; cs = Array(C)
pool = {'Integer': Integer, 'Unicode': Unicode, 'C': C, 'D': D, 'ArrC': Array(C), 'ArrU': Array(Unicode)}
ids = {}
def snap_all(): return {k: snapshot(v, ids) for k, v in pool.items()}
def step(name, fn, expect_changed=()):
    before = snap_all()
    new = fn()
    after = snap_all()
    changed = [k for k in before if before[k] != after[k]]
    bad = [k for k in changed if k not in expect_changed]
    print('%-28s new=%s changed=%s %s' % (name, new.__name__, changed, 'FRAME VIOLATION '+str(bad) if bad else 'ok'))
    for k in bad:
        for sec in before[k]:
            if before[k][sec] != after[k][sec]: print('      ', k, sec, 'differs')
    pool[name] = new
step('U3', lambda: Unicode(max_len=3))
step('Cmand', lambda: C.customize(min_occurs=1, nillable=False))
step('Cchild', lambda: C.customize(child_attrs=dict(a=dict(ge=5))))
step('ArrInt', lambda: Array(Integer(ge=0)))
step('MandU', lambda: Mandatory(Unicode))
step('MandArrC', lambda: Mandatory(pool['ArrC']))
step('MandArrU', lambda: Mandatory(pool['ArrU']))
def sub():
    class E(C):
        z = Boolean
    return E
step('E(C)', sub)
def app():
    C.append_field('late', Date); return C
step('C.append late', app, expect_changed=('C', 'Cmand', 'Cchild', 'E(C)'))
print([k for k,_ in pool['Cmand']._type_info.items()], [k for k in pool['E(C)'].get_flat_type_info(pool['E(C)'])])
