#!/venv/bin/python
"""kf.py add <prop> <matcher> <status> <where> <mechanism> <example> [commit]  — edit known_findings.json"""
import json, sys
p = '/verif/known_findings.json'
d = json.load(open(p))
_, cmd, prop, matcher, status, where, mech, example, *rest = sys.argv
commit = rest[0] if rest else None
d['findings'] = [f for f in d['findings'] if not (f['property'] == prop and f['matcher'] == matcher)]
e = dict(id='%s-%s' % (prop, matcher), property=prop, status=status, matcher=matcher, where=where, mechanism=mech,
         example=example, commit=commit)
if status == 'fixed':
    e['line'] = 'fixed: property=%s %s %s' % (prop, commit, mech)
d['findings'].append(e)
d['findings'].sort(key=lambda f: (f['property'], f['matcher']))
json.dump(d, open(p, 'w'), indent=1)
