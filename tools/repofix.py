"""fix(path, [(old, new)...], msg): apply an exact-text edit to /repo, run the pinned suite, commit iff no regression."""
import subprocess, os
def fix(path, pairs, msg, repo='/repo'):
    full = os.path.join(repo, path)
    s = open(full).read()
    for pr in pairs:
        old, new = pr[:2]
        want = pr[2] if len(pr) > 2 else 1      # (old, new, n): the text occurs n times and every occurrence is edited
        assert s.count(old) == want, (msg[:40], old[:60], s.count(old))
        s = s.replace(old, new)
    open(full, 'w').write(s)
    r = subprocess.run(['/verif/tools/baseline.py', repo], capture_output=True, text=True)
    print(r.stdout.strip().splitlines()[0])
    if r.returncode != 0:
        print(r.stdout)
        subprocess.run(['git', '-C', repo, 'checkout', '-q', '--', '.'])
        print('REVERTED', msg[:60])
        return None
    subprocess.run(['git', '-C', repo, 'commit', '-qam', msg], check=True)
    h = subprocess.run(['git', '-C', repo, 'log', '--format=%h', '-1'], capture_output=True, text=True).stdout.strip()
    print(h, msg.splitlines()[0])
    return h
