#!/venv/bin/python
"""seedmeta.py <id> <property> <caught|missed|caught-after-strengthening> <checks,comma> [note]
Writes seeded/<id>/meta.json from the author's meta.agent.json plus what was confirmed by hand."""
import json, sys, os
sid, prop, verdict, checks = sys.argv[1:5]
note = sys.argv[5] if len(sys.argv) > 5 else ''
d = '/verif/seeded/%s' % sid
a = {}
p = os.path.join(d, 'meta.agent.json')
if os.path.exists(p):
    try: a = json.load(open(p))
    except Exception: a = {'raw': open(p).read()}
m = dict(id=sid, property=prop,
         summary=a.get('summary', ''), needs_to_manifest=a.get('needs', ''), files=a.get('files', []),
         origin='written by a separate author given only the property text and a scratch worktree of /repo',
         confirmed_by_hand=[
             'git apply --check patch.diff on a clean worktree of /repo HEAD',
             'demo.py exits 0 on the clean worktree and non-zero with patch.diff applied',
             'tools/baseline.py <worktree>: 696 stable tests, regressions: 0 with patch.diff applied'],
         checks_run=checks.split(','), verdict=verdict, note=note)
json.dump(m, open(os.path.join(d, 'meta.json'), 'w'), indent=1)
if os.path.exists(p): os.remove(p)
print(json.dumps(m, indent=1)[:300])
