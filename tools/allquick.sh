#!/bin/sh
# run every check's quick tier (optionally with VERIF_SEED) and print one verdict line per check
cd /verif
for c in C01 C02 C03 C04 C05 C06 C07 C08 C09 C10 C11 C12 C13 C14 C15 C16 C17 C18; do
  out=$(./vf check $c ${1:+--tier $1} 2>&1); rc=$?
  echo "$c rc=$rc $(echo "$out" | grep -c '^KNOWN-FINDING') known; $(echo "$out" | head -1 | cut -c1-90); $(echo "$out" | grep 'unlisted' | cut -c1-300)"
done
