#!/venv/bin/python
"""Run the repository's pinned suite (guard off) and compare with BASELINE.json stable_pass."""
import json, os, subprocess, sys, tempfile, xml.etree.ElementTree as ET
repo = sys.argv[1] if len(sys.argv) > 1 else '/repo'
base = json.load(open('/root/.vp/BASELINE.json'))
out = tempfile.mktemp(suffix='.xml', dir='/var/tmp')
env = dict(os.environ); env.pop('SPYNE_VERIF', None)
subprocess.run(['/venv/bin/python', '-m', 'pytest', '-q', '-p', 'no:cacheprovider', '--timeout=900', '-x' if False else '-q',
                '--continue-on-collection-errors', '-n', '8', '--junitxml=' + out], cwd=repo, env=env,
               stdout=subprocess.DEVNULL, stderr=subprocess.DEVNULL)
passed = set()
for tc in ET.parse(out).getroot().iter('testcase'):
    if not list(tc):
        passed.add('%s::%s' % (tc.get('classname'), tc.get('name')))
os.unlink(out)
want = set(base['stable_pass'])
missing = sorted(want - passed)
print('stable_pass: %d, passed now: %d, regressions: %d' % (len(want), len(passed & want), len(missing)))
for m in missing[:30]: print('  REGRESSION', m)
sys.exit(1 if missing else 0)
