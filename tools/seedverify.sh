#!/bin/sh
# seedverify.sh <worktree> <seeded-id>
# Confirms a candidate seeded change by hand: patch applies to a clean tree, pinned suite has no
# regressions with it, demonstration fails with it and passes without it.  Then stores it under seeded/<id>/.
set -u
W=$1; ID=$2
cd "$W" || exit 2
[ -f _seed/patch.diff ] && [ -f _seed/demo.py ] || { echo "missing _seed files"; exit 2; }
# no git stash here: the stash is shared between worktrees of one repository
git checkout -q -- spyne
[ -z "$(git status --porcelain -- spyne)" ] || { echo "worktree has untracked source files"; git status --porcelain -- spyne; }
git apply --check _seed/patch.diff || { echo "patch does not apply to clean tree"; exit 2; }
PYTHONPATH=$W timeout 600 /venv/bin/python -B _seed/demo.py >/tmp/seedv.$$.clean 2>&1; A=$?
git apply _seed/patch.diff
PYTHONPATH=$W timeout 600 /venv/bin/python -B _seed/demo.py >/tmp/seedv.$$.mut 2>&1; B=$?
echo "demo clean exit=$A  mutated exit=$B"
tail -3 /tmp/seedv.$$.mut
BL=$(/venv/bin/python /verif/tools/baseline.py "$W" 2>&1 | tail -1)
echo "baseline: $BL"
rm -f /tmp/seedv.$$.*
if [ $A -eq 0 ] && [ $B -ne 0 ] && echo "$BL" | grep -q "regressions: 0"; then
  mkdir -p /verif/seeded/$ID
  cp _seed/patch.diff _seed/demo.py /verif/seeded/$ID/
  cp _seed/meta.json /verif/seeded/$ID/meta.agent.json 2>/dev/null
  echo "CONFIRMED -> /verif/seeded/$ID"
else
  echo "NOT CONFIRMED"; exit 1
fi
