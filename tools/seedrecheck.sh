#!/bin/sh
# seedrecheck.sh [id ...] — like seedrun.sh, but first re-runs each stored demonstration against the CURRENT /repo with the
# change applied: repairs made to /repo since a change was written can make it harmless (the demonstration passes) or make the
# patch inapplicable; such changes are reported OBSOLETE, not MISSED.
cd /verif || exit 2
[ -z "$(git -C /repo status --porcelain)" ] || { echo "/repo is not clean"; exit 2; }
trap 'git -C /repo checkout -- . 2>/dev/null' EXIT INT TERM
ids="$*"; [ -n "$ids" ] || ids=$(ls seeded)
rc=0
for id in $ids; do
  d=seeded/$id
  checks=$(/venv/bin/python -c "import json;print(' '.join(json.load(open('$d/meta.json'))['checks_run']))")
  if ! git -C /repo apply --check "/verif/$d/patch.diff" 2>/dev/null; then echo "$id: OBSOLETE (patch no longer applies)"; continue; fi
  git -C /repo apply "/verif/$d/patch.diff"
  (cd /repo && PYTHONPATH=/repo timeout 600 /venv/bin/python -B /verif/$d/demo.py >/dev/null 2>&1); drc=$?
  if [ $drc -eq 0 ]; then git -C /repo checkout -- .; echo "$id: OBSOLETE (demonstration passes with the change on the current tree)"; continue; fi
  hit=""
  for c in $checks; do
    if VERIF_DRILL=1 ./vf check $c 2>&1 | grep -q "^VIOLATION property=$c"; then hit="$hit $c"; fi
  done
  git -C /repo checkout -- .
  if [ -n "$hit" ]; then echo "$id: CAUGHT by$hit"; else echo "$id: MISSED (ran: $checks)"; rc=1; fi
done
exit $rc
