#!/bin/sh
# seedrun.sh [id ...]  — apply each stored seeded change to /repo, run the checks named in its meta.json
# (quick tier, VERIF_DRILL=1 so that no evidence file is written from a modified tree), undo it straight afterwards.
# Prints one line per change: CAUGHT (a VIOLATION line was printed) or MISSED.
cd /verif || exit 2
[ -z "$(git -C /repo status --porcelain)" ] || { echo "/repo is not clean"; exit 2; }
trap 'git -C /repo checkout -- . 2>/dev/null' EXIT INT TERM
ids="$*"; [ -n "$ids" ] || ids=$(ls seeded)
rc=0
for id in $ids; do
  d=seeded/$id
  checks=$(/venv/bin/python -c "import json;print(' '.join(json.load(open('$d/meta.json'))['checks_run']))")
  git -C /repo apply "/verif/$d/patch.diff" || { echo "$id: patch does not apply"; rc=1; continue; }
  hit=""
  for c in $checks; do
    if VERIF_DRILL=1 ./vf check $c ${TIER:+--tier $TIER} 2>&1 | grep -q "^VIOLATION property=$c"; then hit="$hit $c"; fi
  done
  git -C /repo checkout -- .
  if [ -n "$hit" ]; then echo "$id: CAUGHT by$hit"; else echo "$id: MISSED (ran: $checks)"; rc=1; fi
done
exit $rc
