#!/bin/sh
# seedtry.sh <worktree-prefix> <round> <Cxx> [check ...]  — confirm a candidate and run the property's quick check(s) against the worktree
P=$1; RN=$2; C=$3; shift 3; CHECKS="${*:-$C}"
cd /verif
echo "== $C-$RN"
tools/seedverify.sh $P-$C $C-$RN 2>&1 | tail -2
for k in $CHECKS; do
  VERIF_REPO=$P-$C VERIF_DRILL=1 ./vf check $k 2>&1 | grep -E "^VIOLATION|^HELD|^INCONCL|^   " | head -3 | cut -c1-260
done
