#!/venv/bin/python
"""Regenerates MANIFEST.json from the table below + which checks/cXX.py exist."""
import json, os
V = os.path.dirname(os.path.dirname(os.path.abspath(__file__)))
T = {
 'C01': ('exploration', 'reference-model monitor (XSD-driven codec + zeep) over generated universes', '3/C01'),
 'C02': ('exploration', 'reference-model monitor (dict-document codecs) with call recorder', '3/C02'),
 'C03': ('exploration', 'reference flattener + call recorder over permuted query strings', '3/C03'),
 'C04': ('exploration', 'type-tree monitor on captured arguments under type-directed mutation', '3/C04'),
 'C05': ('exploration', 'reference validator vs entered?/fault-code monitor, boundary-exhaustive', '3/C05'),
 'C06': ('exploration', 'libxml2 schema validation of every emitted document; lxml-vs-soft verdict pairs', '3/C06'),
 'C07': ('exploration', 'QName-closure resolver, cross-hash-seed byte comparator, zeep client', '3/C07'),
 'C08': ('exploration', 'runtime oracle on leaf converters: libxml2 lexical acceptance + reference parser + round-trip', '3/C08'),
 'C09': ('exploration', 'fault decoder + HTTP status recorder + secret-token leak scanner', '3/C09'),
 'C10': ('exploration', 'stage-attributed escape monitor under prefix/mutation fuzzing', '3/C10'),
 'C11': ('exploration', 'per-function invocation counters under adversarial names and service permutations', '3/C11'),
 'C12': ('exploration', 'deterministic line-level thread scheduler (sys.monitoring) + stress, sequential oracle', '3/C12'),
 'C13': ('fault_enumeration', 'wsgiref.validate + recording start_response/input/close monitor', '3/C13'),
 'C14': ('fault_enumeration', 'event-trace automaton over injected single failures', '3/C14'),
 'C15': ('exploration', 'structural snapshot frame-condition monitor over derivation histories', '3/C15'),
 'C16': ('exploration', 'runtime class/field recorder + in-document QName resolver', '3/C16'),
 'C17': ('exploration', 'strace syscall monitor + leak scanner over generated attack corpus', '3/C17'),
 'C18': ('exploration', 'differential monitor NullServer vs wire protocols', '3/C18'),
}
NOTE = {
 'C08': 'Trusted base: libxml2 as the schema processor, vflib/lex.py reference lexical model (self-tested against libxml2). Decides only the conversions executed; values outside the Python native range are outside the quantifier.',
}
TEXT = {
 'C08': 'Every leaf conversion executed (tens of thousands per run, exhaustive over the 1681 offsets and all fixed-width bounds) is judged by three independent oracles; held means no unlisted deviation on those executions.',
}
checks, na = [], []
for pid in sorted(T):
    level, tech, ref = T[pid]
    if os.path.exists(os.path.join(V, 'checks', pid.lower() + '.py')):
        checks.append({
            'property_id': pid,
            'quick_cmd': './vf check %s --tier quick' % pid,
            'thorough_cmd': './vf check %s --tier thorough' % pid,
            'evidence_file': 'evidence/%s.json' % pid,
            'replay_cmd_template': './vf check %s --replay {path}' % pid,
            'engine': 'vf',
            'level_claimed': {'category': level, 'text': TEXT.get(pid, 'Runtime monitor over generated executions of the real code; held on what was observed.'), 'design_ref': 'DESIGN.md section ' + ref},
            'level_note': NOTE.get(pid, 'Decides only the executions produced; reference models under vflib/ are trusted base (cross-checked against libxml2/zeep where possible).'),
            'technique': tech,
        })
    else:
        na.append({'property_id': pid, 'reason': 'check not built yet in this round (planned: %s)' % tech})
m = {
 'version': 1,
 'setup_cmd': './vf setup',
 'hooks': {'guard': 'SPYNE_VERIF', 'enable': 'no source hooks: all instrumentation is attached from outside (sys.monitoring, attribute wrapping, strace); checks set SPYNE_VERIF=1 for uniformity',
           'baseline_off_cmd': 'cd /repo && env -u SPYNE_VERIF /venv/bin/python -m pytest -ra -q -p no:cacheprovider --timeout=900 --continue-on-collection-errors',
           'source_commits': [], 'add_only': True},
 'engines': [{'name': 'vf', 'path': 'vflib/', 'serves_properties': [c['property_id'] for c in checks],
              'kind_free_text': 'runtime monitoring: generated workloads against the real code, reference-model / trace / syscall / schedule monitors'}],
 'checks': checks,
 'not_applicable': na,
 'notes': 'Exit codes: 0 held on everything observed, 1 VIOLATION, 2 INCONCLUSIVE (deciding monitor observed nothing). Known findings: known_findings.json.',
}
json.dump(m, open(os.path.join(V, 'MANIFEST.json'), 'w'), indent=1)
print('checks:', [c['property_id'] for c in checks])
