#!/bin/sh
# drill.sh <patch.diff> <Cxx> [Cyy ...] : apply a mutant to a scratch copy of /repo and run checks against it.
# Prints CAUGHT/MISSED per property. The scratch copy is removed afterwards.
P="$(readlink -f "$1")"; shift
D=$(mktemp -d /var/tmp/spyne-drill-XXXXXX)
git -C /repo worktree add -q --detach "$D/repo" HEAD >/dev/null 2>&1 || { echo "worktree failed"; exit 2; }
# carry uncommitted changes of /repo too (normally none)
if ! git -C "$D/repo" apply "$P" 2>"$D/apply.err"; then echo "PATCH DOES NOT APPLY: $(cat $D/apply.err)"; git -C /repo worktree remove --force "$D/repo"; rm -rf "$D"; exit 2; fi
for C in "$@"; do
  out=$(VERIF_DRILL=1 VERIF_REPO="$D/repo" ${DRILL_TIER:+VERIF_TIER=$DRILL_TIER} /verif/vf check "$C" 2>&1); rc=$?
  if [ $rc -eq 1 ]; then echo "CAUGHT $C: $(echo "$out" | grep -A1 '^VIOLATION' | grep -v '^VIOLATION' | grep -v '^--' | head -3 | cut -c1-200)";
  elif [ $rc -eq 0 ]; then echo "MISSED $C"; else echo "INCONCLUSIVE $C rc=$rc: $(echo "$out" | tail -3)"; fi
done
git -C /repo worktree remove --force "$D/repo"; rm -rf "$D"
